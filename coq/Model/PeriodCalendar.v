(* The proleptic Gregorian calendar as boost::gregorian uses it for date_t (times.h): a date is
   a day number (here: days since 1970-01-01, any integer), converted to and from
   (year, month, day) by the era-based algorithm; month arithmetic follows
   boost/date_time/adjust_functors.hpp (month_functor): a date that is the last day of its
   month maps to the last day of the target month, otherwise the day of month is kept and
   clamped to the length of the target month.  Definitions only; proofs in
   Proofs/PeriodProofs.v. *)
From LedgerV Require Import Base.Prelude.
Local Open Scope Z_scope.

Definition is_leap (y : Z) : bool :=
  (y mod 4 =? 0) && (negb (y mod 100 =? 0) || (y mod 400 =? 0)).

Definition days_in_month (y m : Z) : Z :=
  if m =? 2 then (if is_leap y then 29 else 28)
  else if (m =? 4) || (m =? 6) || (m =? 9) || (m =? 11) then 30 else 31.

(* day of the year that starts on March 1 *)
Definition doy_of (m d : Z) : Z :=
  (153 * (if 2 <? m then m - 3 else m + 9) + 2) / 5 + d - 1.

(* day of the 400-year era, from the year of the era (March based) *)
Definition doe_of (yoe m d : Z) : Z := yoe * 365 + yoe / 4 - yoe / 100 + doy_of m d.

Definition days_from_civil (y m d : Z) : Z :=
  let y' := if m <=? 2 then y - 1 else y in
  let era := y' / 400 in
  let yoe := y' - era * 400 in
  era * 146097 + doe_of yoe m d - 719468.

(* day of the era -> (year of the era, month, day): the century of the era (the last one a day longer),
   the four-year cycle of the century, the year of the cycle (the last one a day longer), the day of that
   March-based year; then the month from the day of the year *)
Definition civil_doe (doe : Z) : Z * Z * Z :=
  let c := Z.min (doe / 36524) 3 in
  let docent := doe - c * 36524 in
  let q := docent / 1461 in
  let doq := docent - q * 1461 in
  let yq := Z.min (doq / 365) 3 in
  let doy := doq - yq * 365 in
  let yoe := 100 * c + 4 * q + yq in
  let mp := (5 * doy + 2) / 153 in
  let d := doy - (153 * mp + 2) / 5 + 1 in
  let m := if mp <? 10 then mp + 3 else mp - 9 in
  (yoe, m, d).

Definition civil_from_days (z : Z) : Z * Z * Z :=
  let z' := z + 719468 in
  let era := z' / 146097 in
  let doe := z' - era * 146097 in
  let '(yoe, m, d) := civil_doe doe in
  let y := yoe + era * 400 in
  ((if m <=? 2 then y + 1 else y), m, d).

(* 0 = Sunday ... 6 = Saturday; 1970-01-01 was a Thursday *)
Definition weekday (z : Z) : Z := (z + 4) mod 7.

Definition add_days (z n : Z) : Z := z + n.

(* months are numbered by 12 * year + (month - 1) *)
Definition month_index (y m : Z) : Z := 12 * y + (m - 1).
Definition month_start (k : Z) : Z := days_from_civil (k / 12) (k mod 12 + 1) 1.
Definition month_length (k : Z) : Z := days_in_month (k / 12) (k mod 12 + 1).

(* date + gregorian::months(n)  (month_functor::get_offset; wrapping_int2<short,1,12>::add) *)
Definition add_months (z n : Z) : Z :=
  let '(y, m, d) := civil_from_days z in
  let k := month_index y m + n in
  let y2 := k / 12 in
  let m2 := k mod 12 + 1 in
  let eom := days_in_month y2 m2 in
  let d2 := if d =? days_in_month y m then eom
            else if eom <? d then eom else d in
  days_from_civil y2 m2 d2.

(* date + gregorian::years(n): year_functor is month_functor(12 * n) *)
Definition add_years (z n : Z) : Z := add_months z (12 * n).

(* date_duration_t::find_nearest (times.cc:1153-1182) *)
Definition month_floor (z : Z) : Z :=
  let '(y, m, _) := civil_from_days z in days_from_civil y m 1.
(* the loop `while month not in {Jan, Apr, Jul, Oct}: result -= months(1)` from the first of
   the month ends on the first month of the quarter *)
Definition quarter_floor (z : Z) : Z :=
  let '(y, m, _) := civil_from_days z in days_from_civil y ((m - 1) / 3 * 3 + 1) 1.
Definition year_floor (z : Z) : Z :=
  let '(y, _, _) := civil_from_days z in days_from_civil y 1 1.
(* the loop `while day_of_week != start_of_week: result -= days(1)` *)
Definition week_floor (sow z : Z) : Z := z - (weekday z - sow) mod 7.
