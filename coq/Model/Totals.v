(* Executable model of the balance / register totals (property C05):
     account_t::amount / account_t::total      account.cc:613-684
     calc_posts (running total)                filters.cc:293-318
     post_t::add_to_value                      post.cc:637-665
     the limit predicates of --real / --cleared / --uncleared / --pending / a query term
                                               report.h (OTHER(limit_)), chain.cc:42-60
     amount expression `amount` / `rounded(cost)` (-B)      report.h:441, post.cc:198-249
     display_value = strip_annotations(what_to_keep)        report.cc:507-514, balance.cc:263-271,
                                                            annotate.cc:310-350
     display_filter_posts (rows that display as zero)       filters.cc:524-587
     collapse_posts (`reg --depth n`)                       filters.cc:399-489
     format_accounts::mark_accounts / post_account / flush  output.cc:160-283
     the accounts walk (children in name order, pre-order)  iterators.cc:174-193
   Values are the value_t cells of Model/Amount.v (VOID = not yet set, AMOUNT, BALANCE);
   `add_or_set_value` is v_add (whose VOID row is "set").  The input is the journal as
   xact_t::finalize leaves it: one record per posting, in file order. *)
From LedgerV Require Import Base.Prelude Base.Round Model.Amount Gen.ClearXdata.
Local Open Scope Z_scope.

(* ------------------------------------------------------------------ postings *)

Definition path := list str.                  (* account name segments, outermost first *)

Inductive pstate := Uncleared | Pending | Cleared.

Record posting : Type := mkPost {
  p_xact    : Z;              (* index of the transaction in the file *)
  p_payee   : str;
  p_xstate  : pstate;         (* state flag written on the transaction *)
  p_pstate  : pstate;         (* state flag written on the posting *)
  p_acct    : path;
  p_virtual : bool;           (* (A) or [A] *)
  p_amt     : amount;         (* post.amount; its commodity key carries the lot annotation *)
  p_cost    : option amount;  (* post.cost (total cost), if any *)
  p_date    : Z;              (* the date (of the transaction), as year*10000 + month*100 + day *)
  p_inferred : bool;          (* ITEM_INFERRED: the posting finalize() adds to a single-posting
                                 transaction when a default account is set (bucket / A /
                                 account .. default); account = the bucket, amount = minus the
                                 balance, state copied from the first posting (xact.cc:211-215) *)
  p_temp    : bool            (* ITEM_TEMP: never set on a posting of the journal *)
}.

(* textual.cc:1485-1487: a posting without its own flag takes the transaction's *)
Definition eff_state (p : posting) : pstate :=
  match p_pstate p with
  | Uncleared => p_xstate p
  | s => s
  end.

(* ------------------------------------------------------------------- options *)

Inductive stfilter := SAny | SCleared | SUncleared | SPending.
(* query terms of the command line are OR-ed (query.cc); no term = no predicate *)
Inductive qterm := QAcct (pat : str) | QPayee (pat : str).
Definition query := list qterm.

Record opts : Type := mkOpts {
  o_real  : bool;             (* --real      : limit `real` *)
  o_state : stfilter;         (* --cleared / --uncleared (`uncleared|pending`) / --pending *)
  o_query : query;            (* PATTERN -> account =~ /PATTERN/ ; @PATTERN -> payee =~ /PATTERN/ ; OR-ed *)
  o_begin : option Z;         (* -b DATE : limit date>=[DATE] *)
  o_end   : option Z;         (* -e DATE : limit date<[DATE] *)
  o_basis : bool;             (* -B : amount expression rounded(cost) *)
  o_kp : bool; o_kd : bool; o_kt : bool;     (* what_to_keep: lot price / date / tag *)
  o_flat  : bool;
  o_depth : option Z;         (* --depth n : display predicate depth<=n (and collapse in reg) *)
  o_empty : bool
}.

(* mask_t: case-insensitive search; patterns are literal (generators use [A-Za-z0-9] only) *)
Definition lower (c : Z) : Z := if (65 <=? c) && (c <=? 90) then c + 32 else c.

Fixpoint starts_with (pat s : str) : bool :=
  match pat, s with
  | [], _ => true
  | _ :: _, [] => false
  | x :: pat', y :: s' => (lower x =? lower y) && starts_with pat' s'
  end.

Fixpoint is_substr (pat s : str) : bool :=
  starts_with pat s ||
  match s with
  | [] => false
  | _ :: s' => is_substr pat s'
  end.

(* account_t::fullname: segments joined by ':' *)
Fixpoint fullname (a : path) : str :=
  match a with
  | [] => []
  | [x] => x
  | x :: a' => x ++ 58 :: fullname a'
  end.

Definition state_ok (f : stfilter) (s : pstate) : bool :=
  match f, s with
  | SAny, _ => true
  | SCleared, Cleared => true
  | SUncleared, Uncleared => true
  | SUncleared, Pending => true
  | SPending, Pending => true
  | _, _ => false
  end.

Definition term_ok (p : posting) (t : qterm) : bool :=
  match t with
  | QAcct pat => is_substr pat (fullname (p_acct p))
  | QPayee pat => is_substr pat (p_payee p)
  end.

Definition query_ok (q : query) (p : posting) : bool :=
  match q with
  | [] => true
  | _ => existsb (term_ok p) q
  end.

(* the limit predicate: the conjunction of everything the options push onto limit_ *)
Definition date_ok (o : opts) (p : posting) : bool :=
  match o_begin o with Some b => b <=? p_date p | None => true end &&
  match o_end o with Some e => p_date p <? e | None => true end.

Definition sel (o : opts) (p : posting) : bool :=
  (negb (o_real o) || negb (p_virtual p)) &&
  state_ok (o_state o) (eff_state p) &&
  query_ok (o_query o) p &&
  date_ok o p.

(* amount_t::in_place_round: only clears BIGINT_KEEP_PREC *)
Definition amt_rounded (a : amount) : amount := mkAmt (aq a) (aprec a) false (acomm a).

(* the amount expression: `amount`, or `rounded(cost)` under -B (get_cost: the cost, else
   the amount) *)
Definition amt (o : opts) (p : posting) : amount :=
  if o_basis o
  then match p_cost p with
       | Some c => amt_rounded c
       | None => amt_rounded (p_amt p)
       end
  else p_amt p.

(* --------------------------------------------------- annotations and stripping *)

(* A commodity key is  base  or  base~price~date~tag  (126 = '~'; an absent field is
   empty).  split126 s = (text before the first '~', the remaining fields). *)
Fixpoint split126 (s : str) : str * list str :=
  match s with
  | [] => ([], [])
  | x :: s' => let (h, t) := split126 s' in
               if x =? 126 then ([], h :: t) else (x :: h, t)
  end.

Definition is_nil (s : str) : bool := match s with [] => true | _ => false end.

(* annotated_commodity_t::strip_annotations *)
Definition strip_key (kp kd kt : bool) (k : comm) : comm :=
  match split126 k with
  | (b, [p; d; t]) =>
      let p' := if kp then p else [] in
      let d' := if kd then d else [] in
      let t' := if kt then t else [] in
      if is_nil p' && is_nil d' && is_nil t' then b
      else b ++ 126 :: p' ++ 126 :: d' ++ 126 :: t'
  | _ => k
  end.

(* amount_t::strip_annotations *)
Definition amt_strip (kp kd kt : bool) (a : amount) : amount :=
  match acomm a with
  | Some k => mkAmt (aq a) (aprec a) (akeep a) (Some (strip_key kp kd kt k))
  | None => a
  end.

(* balance_t::strip_annotations: temp += each stripped amount *)
Definition bal_strip (ord kp kd kt : bool) (b : balance) : res balance :=
  bal_fold (bal_add_amt ord) [] (map (amt_strip kp kd kt) b).

(* value_t::strip_annotations *)
Definition v_strip (ord kp kd kt : bool) (v : value) : res value :=
  if kp && kd && kt then Ok v
  else match v with
       | VAmt a => Ok (VAmt (amt_strip kp kd kt a))
       | VBal b => do r <- bal_strip ord kp kd kt b; Ok (VBal r)
       | _ => Ok v
       end.

(* value_t::in_place_unreduce for commodities without a larger unit: an AMOUNT is unchanged,
   a BALANCE is rebuilt with += (balance.h:392-399), which drops its real-zero entries *)
Definition v_unreduce (ord : bool) (v : value) : res value :=
  match v with
  | VBal b => do r <- bal_fold (bal_add_amt ord) [] b; Ok (VBal r)
  | _ => Ok v
  end.

(* report_t::display_value (without --base) *)
Definition display_value (ord : bool) (o : opts) (v : value) : res value :=
  do s <- v_strip ord (o_kp o) (o_kd o) (o_kt o) v;
  v_unreduce ord s.

(* value_t::operator bool on the numeric cells: not display-zero *)
Definition v_nonzero (cp : comm -> Z) (v : value) : bool :=
  match v with
  | VVoid => false
  | VBool b => b
  | VInt z => negb (z =? 0)
  | VAmt a => negb (is_zero cp a)
  | VBal b => negb (bal_is_zero cp b)
  end.

(* ------------------------------------------------------------ running totals *)

Definition is_void (v : value) : bool := match v with VVoid => true | _ => false end.

(* total(): `if (! temp.is_null()) add_or_set_value(total, temp)` *)
Definition add_nonnull (ord : bool) (acc t : value) : res value :=
  if is_void t then Ok acc else v_add ord acc t.

(* calc_posts: xdata.total = last_post.total; add_or_set_value(xdata.total, visited_value) *)
Fixpoint running (ord : bool) (acc : value) (l : list amount) : res (list value) :=
  match l with
  | [] => Ok []
  | a :: l' => do t <- v_add ord acc (VAmt a);
               do r <- running ord t l';
               Ok (t :: r)
  end.

Record row : Type := mkRow {
  r_acct  : path;
  r_amt   : value;      (* amount expression of the row *)
  r_total : value       (* running total after the row *)
}.

Definition selected (o : opts) (ps : list posting) : list posting := filter (sel o) ps.

(* the register with --empty and without --depth: one row per visited posting; parametric in
   the amount expression f and the visited postings sp *)
Definition rows_of (ord : bool) (f : posting -> amount) (sp : list posting) : res (list row) :=
  do ts <- running ord VVoid (map f sp);
  Ok (map (fun pt => mkRow (p_acct (fst pt)) (VAmt (f (fst pt))) (snd pt)) (combine sp ts)).

Definition reg_rows (ord : bool) (o : opts) (ps : list posting) : res (list row) :=
  rows_of ord (amt o) (selected o ps).

(* display_filter_posts::output_rounding without --empty (and with --no-rounding): a row is
   printed iff its stripped display amount is not display-zero *)
Definition row_shown (ord : bool) (cp : comm -> Z) (o : opts) (r : row) : res bool :=
  if o_empty o then Ok true
  else do d <- display_value ord o (r_amt r); Ok (v_nonzero cp d).

(* ------------------------------------------------ collapse_posts (reg --depth n) *)

Fixpoint path_eqb (a b : path) : bool :=
  match a, b with
  | [], [] => true
  | x :: a', y :: b' => str_eqb x y && path_eqb a' b'
  | _, _ => false
  end.

(* find_totals: the ancestor (or self) at depth <= n *)
Definition truncate_path (n : Z) (a : path) : path := firstn (Z.to_nat n) a.

(* totals map of one transaction: account -> value, in first-seen order here (the C++ map is
   ordered by account_t address, i.e. unspecified: the harness compares each transaction's
   rows as a set) *)
Fixpoint tot_add (ord : bool) (k : path) (a : amount) (m : list (path * value))
  : res (list (path * value)) :=
  match m with
  | [] => Ok [(k, VAmt a)]
  | (k', v) :: m' =>
      if path_eqb k k' then do v' <- v_add ord v (VAmt a); Ok ((k', v') :: m')
      else do r <- tot_add ord k a m'; Ok ((k', v) :: r)
  end.

Fixpoint collapse_xact (ord : bool) (n : Z) (o : opts) (sp : list posting)
         (m : list (path * value)) : res (list (path * value)) :=
  match sp with
  | [] => Ok m
  | p :: sp' => do m' <- tot_add ord (truncate_path n (p_acct p)) (amt o p) m;
                collapse_xact ord n o sp' m'
  end.

(* consecutive selected postings of the same transaction *)
Fixpoint group_xacts (sp : list posting) (cur : list posting) (curx : Z)
  : list (list posting) :=
  match sp with
  | [] => match cur with [] => [] | _ => [rev cur] end
  | p :: sp' =>
      if p_xact p =? curx then group_xacts sp' (p :: cur) curx
      else match cur with
           | [] => group_xacts sp' [p] (p_xact p)
           | _ => rev cur :: group_xacts sp' [p] (p_xact p)
           end
  end.

Fixpoint map_res' {A B} (f : A -> res B) (l : list A) : res (list B) :=
  match l with
  | [] => Ok []
  | x :: l' => do y <- f x; do ys <- map_res' f l'; Ok (y :: ys)
  end.

(* collapse_posts::totals_map is ordered by the accounts' full names (filters.h,
   compare_account_names: std::string operator<): the rows of a transaction come in that order *)
Fixpoint ins_row (kv : path * value) (l : list (path * value)) : list (path * value) :=
  match l with
  | [] => [kv]
  | x :: l' => match str_compare (fullname (fst kv)) (fullname (fst x)) with
               | Gt => x :: ins_row kv l'
               | _ => kv :: l
               end
  end.

Fixpoint sort_rows (l : list (path * value)) : list (path * value) :=
  match l with
  | [] => []
  | x :: l' => ins_row x (sort_rows l')
  end.

(* per transaction: the collapsed (account, value) pairs *)
Definition collapsed (ord : bool) (n : Z) (o : opts) (ps : list posting)
  : res (list (list (path * value))) :=
  map_res' (fun g => collapse_xact ord n o g []) (group_xacts (selected o ps) [] (-1)).

(* ... in the order in which report_subtotal hands them on *)
Definition collapsed_rows (ord : bool) (n : Z) (o : opts) (ps : list posting)
  : res (list (list (path * value))) :=
  do gs <- collapsed ord n o ps; Ok (map sort_rows gs).

(* ------------------------------------------------------------- the account tree *)

Fixpoint is_prefix (a b : path) : bool :=
  match a, b with
  | [], _ => true
  | _ :: _, [] => false
  | x :: a', y :: b' => str_eqb x y && is_prefix a' b'
  end.

Definition path_dec : forall a b : path, {a = b} + {a <> b} :=
  list_eq_dec (list_eq_dec Z.eq_dec).

(* the child of `a` on the way to `b`, when b lies strictly below a *)
Definition child_toward (a b : path) : option path :=
  if is_prefix a b && (Nat.ltb (length a) (length b))
  then Some (firstn (S (length a)) b) else None.

Fixpoint filter_map {A B} (f : A -> option B) (l : list A) : list B :=
  match l with
  | [] => []
  | x :: l' => match f x with Some y => y :: filter_map f l' | None => filter_map f l' end
  end.

Fixpoint path_compare (a b : path) : comparison :=
  match a, b with
  | [], [] => Eq
  | [], _ :: _ => Lt
  | _ :: _, [] => Gt
  | x :: a', y :: b' =>
      match str_compare x y with
      | Eq => path_compare a' b'
      | c => c
      end
  end.

Fixpoint ins_path (k : path) (l : list path) : list path :=
  match l with
  | [] => [k]
  | x :: l' => match path_compare k x with
               | Gt => x :: ins_path k l'
               | _ => k :: l
               end
  end.

Fixpoint isort (l : list path) : list path :=
  match l with
  | [] => []
  | x :: l' => ins_path x (isort l')
  end.

(* account_t::accounts of the account `a`: std::map ordered by name.  `all` = the account of
   every posting of the journal (selected or not: the tree is built by the parser) *)
Definition children (all : list path) (a : path) : list path :=
  isort (nodup path_dec (filter_map (child_toward a) all)).

(* account_t::amount(): the sum, in file order, of the visited postings of exactly this
   account; NULL_VALUE when the account was not visited.  The functions below are parametric
   in the amount expression `f` and in the list `sp` of visited (selected) postings. *)
Fixpoint vsum (ord : bool) (acc : value) (l : list amount) : res value :=
  match l with
  | [] => Ok acc
  | a :: l' => do t <- v_add ord acc (VAmt a); vsum ord t l'
  end.

Definition own_posts (sp : list posting) (a : path) : list posting :=
  filter (fun p => path_eqb (p_acct p) a) sp.

Definition own (ord : bool) (f : posting -> amount) (sp : list posting) (a : path)
  : res value :=
  vsum ord VVoid (map f (own_posts sp a)).

(* fold of total() over the children, in map order *)
Fixpoint kids_total (ord : bool) (F : path -> res value) (ks : list path) (acc : value)
  : res value :=
  match ks with
  | [] => Ok acc
  | k :: ks' => do t <- F k; do acc' <- add_nonnull ord acc t; kids_total ord F ks' acc'
  end.

(* account_t::total(): children first, then the account's own amount.  `all` = the accounts
   of the tree; fuel bounds the depth of the tree below `a` (total_of supplies enough) *)
Fixpoint total (fuel : nat) (ord : bool) (f : posting -> amount) (all : list path)
         (sp : list posting) (a : path) : res value :=
  match fuel with
  | O => own ord f sp a
  | S n =>
      do kids <- kids_total ord (total n ord f all sp) (children all a) VVoid;
      do self <- own ord f sp a;
      add_nonnull ord kids self
  end.

Definition max_depth (ps : list posting) : nat :=
  fold_right (fun p m => Nat.max (length (p_acct p)) m) O ps.

Definition own_of (ord : bool) (o : opts) (ps : list posting) (a : path) : res value :=
  own ord (amt o) (selected o ps) a.

Definition total_of (ord : bool) (o : opts) (ps : list posting) (a : path) : res value :=
  total (max_depth ps) ord (amt o) (map p_acct ps) (selected o ps) a.

(* get_total / get_amount of an account: SIMPLIFIED_VALUE_OR_ZERO *)
Definition simplified_or_zero (v : value) : value :=
  match v with
  | VVoid => VInt 0
  | _ => simplify v
  end.

(* ------------------------------------------------- which accounts the balance shows *)

Definition visited (o : opts) (ps : list posting) (a : path) : bool :=
  existsb (fun p => path_eqb (p_acct p) a) (selected o ps).

Definition has_posts (ps : list posting) (a : path) : bool :=
  existsb (fun p => path_eqb (p_acct p) a) ps.

Definition disp_pred (o : opts) (a : path) : bool :=
  match o_depth o with
  | None => true
  | Some n => Z.of_nat (length a) <=? n
  end.

Record marks : Type := mkMarks {
  m_visited : Z;
  m_todisp  : Z;
  m_pre     : list (path * bool)    (* the subtree in pre-order with its TO_DISPLAY flags *)
}.

Fixpoint kids_marks (f : path -> res marks) (ks : list path) (acc : marks) : res marks :=
  match ks with
  | [] => Ok acc
  | k :: ks' => do m <- f k;
                kids_marks f ks' (mkMarks (m_visited acc + m_visited m)
                                          (m_todisp acc + m_todisp m)
                                          (m_pre acc ++ m_pre m))
  end.

(* format_accounts::mark_accounts: the decision for one account, given what its children
   returned (km) *)
Definition mark_node (ord : bool) (cp : comm -> Z) (o : opts) (ps : list posting)
           (a : path) (km : marks) : res marks :=
  let flat := o_flat o in
  let vis := visited o ps a in
  let v := m_visited km in
  let d := m_todisp km in
  match a with
  | [] => Ok (mkMarks v d (([], false) :: m_pre km))           (* the master account *)
  | _ =>
    if vis || (negb flat && (0 <? v)) then
      do t <- total_of ord o ps a;
      do dt <- display_value ord o (simplified_or_zero t);
      let shown :=
        (negb flat && (1 <? d)) ||
        (negb flat && (d =? 1) && has_posts ps a) ||
        ((flat || negb (d =? 1) || vis) &&
         (o_empty o || v_nonzero cp dt) && disp_pred o a) in
      Ok (mkMarks 1 (if shown then 1 else d) ((a, shown) :: m_pre km))
    else Ok (mkMarks v d ((a, false) :: m_pre km))
  end.

Fixpoint mark (fuel : nat) (ord : bool) (cp : comm -> Z) (o : opts) (ps : list posting)
         (a : path) : res marks :=
  do km <- match fuel with
           | O => Ok (mkMarks 0 0 [])
           | S f => kids_marks (mark f ord cp o ps) (children (map p_acct ps) a)
                               (mkMarks 0 0 [])
           end;
  mark_node ord cp o ps a km.

Record brow : Type := mkBrow {
  b_acct  : path;
  b_total : value;      (* get_total: simplified *)
  b_disp  : value       (* display_value of it (lots stripped as the options say) *)
}.

Definition brow_of (ord : bool) (o : opts) (ps : list posting) (a : path) : res brow :=
  do t <- total_of ord o ps a;
  let s := simplified_or_zero t in
  do d <- display_value ord o s;
  Ok (mkBrow a s d).

(* pass_down_accounts (display predicate) + post_account: the rows of `bal`, in order *)
Definition bal_rows (ord : bool) (cp : comm -> Z) (o : opts) (ps : list posting)
  : res (list brow) :=
  do m <- mark (max_depth ps) ord cp o ps [];
  map_res' (brow_of ord o ps)
           (map fst (filter (fun ab => snd ab && disp_pred o (fst ab)) (m_pre m))).

(* the total line (printed when more than one account was displayed): the master account *)
Definition grand_total (ord : bool) (o : opts) (ps : list posting) : res brow :=
  brow_of ord o ps [].

(* --------------------------------- account_t::amount(), the lazy walk (account.cc:617-639)
   The C++ keeps, per account, self_details.total and the iterator self_details.last_post, and
   per posting the flags POST_EXT_VISITED (set by calc_posts) and POST_EXT_CONSIDERED (set
   here).  One call walks from last_post (inclusive) to the end of account_t::posts, adds
   every visited posting that was not considered yet, marks it, and leaves last_post on the
   last element.  `own` above is what one call on fresh flags returns (own_lazy_eq). *)
Record lpost : Type := mkLpost { lp_amt : amount; lp_visited : bool; lp_considered : bool }.

Definition lp_fresh (x : lpost) : bool := lp_visited x && negb (lp_considered x).
Definition lp_consider (x : lpost) : lpost :=
  if lp_fresh x then mkLpost (lp_amt x) true true else x.

Fixpoint walk (ord : bool) (acc : value) (l : list lpost) : res (value * list lpost) :=
  match l with
  | [] => Ok (acc, [])
  | x :: l' =>
      if lp_fresh x
      then do t <- v_add ord acc (VAmt (lp_amt x));
           do r <- walk ord t l';
           Ok (fst r, lp_consider x :: snd r)
      else do r <- walk ord acc l'; Ok (fst r, x :: snd r)
  end.

Record self_details : Type := mkSelf { sd_total : value; sd_last : option nat }.

Definition amount_call (ord : bool) (sd : self_details) (posts : list lpost)
  : res (self_details * list lpost) :=
  let start := match sd_last sd with Some i => i | None => O end in
  do r <- walk ord (sd_total sd) (skipn start posts);
  Ok (mkSelf (fst r) (match posts with [] => sd_last sd | _ => Some (length posts - 1)%nat end),
      firstn start posts ++ snd r).

(* xact_base_t::clear_xdata (xact.cc:95-100).  finalize() marks every posting POST_EXT_VISITED
   while the journal is read; session_t::read_data ends with journal->clear_xdata(), which
   resets the xdata (POST_EXT_VISITED, POST_EXT_CONSIDERED, the totals) of every posting that
   does not carry one of the flags its test names.  The flags it names are regenerated from the
   source (Gen/ClearXdata.v); a posting that survives the wipe is still VISITED when a report
   starts, whatever the report's filter says. *)
Definition survives_clear (p : posting) : bool :=
  negb src_clear_xdata_recognised || src_clear_skips_other ||
  (src_clear_skips_temp && p_temp p) ||
  (src_clear_skips_inferred && p_inferred p).

Definition visited_at_report (o : opts) (p : posting) : bool := sel o p || survives_clear p.

(* the postings of account a as the report sees them: all of them, the selected ones visited *)
Definition acct_lposts (o : opts) (ps : list posting) (a : path) : list lpost :=
  map (fun p => mkLpost (amt o p) (visited_at_report o p) false)
      (filter (fun p => path_eqb (p_acct p) a) ps).

(* what `%(amount)` of a balance row returns: total() already called amount() once, the
   format calls it a second time *)
Definition own_lazy_twice (ord : bool) (o : opts) (ps : list posting) (a : path) : res value :=
  do r1 <- amount_call ord (mkSelf VVoid None) (acct_lposts o ps a);
  do r2 <- amount_call ord (fst r1) (snd r1);
  Ok (sd_total (fst r2)).

(* ------------------------------- how a balance line is laid out: account_t::partial_name
   (account.cc:216-232) and get_depth_spacer (account.cc:326-343).  Both walk from the parent
   towards the master account and treat an ancestor as a displayed level when
       children_with_flags(TO_DISPLAY) > 1  ||  has_xflags(TO_DISPLAY);
   the name of a line is what lies below its nearest such ancestor, its indentation is two
   blanks per such ancestor.  `m` is the pre-order list of (account, TO_DISPLAY) that
   mark_accounts leaves behind. *)
Definition flag_of (m : list (path * bool)) (a : path) : bool :=
  existsb (fun ab => snd ab && path_eqb (fst ab) a) m.

(* account_t::children_with_flags(TO_DISPLAY): the children that are, or contain, an account
   TO_DISPLAY *)
Definition cwf (m : list (path * bool)) (all : list path) (a : path) : nat :=
  length (filter (fun k => existsb (fun ab => snd ab && is_prefix k (fst ab)) m)
                 (children all a)).

Definition counted (m : list (path * bool)) (all : list path) (a : path) : bool :=
  Nat.ltb 1 (cwf m all a) || flag_of m a.

(* the walk `for (acct = parent; acct && acct->parent; acct = acct->parent)`: the ancestor of
   length n, then n-1, ... down to 1; parametric in the level test `cnt` *)
Fixpoint up_spacer (cnt : path -> bool) (n : nat) (a : path) : nat :=
  match n with
  | O => O
  | S k => (if cnt (firstn n a) then 1 else 0) + up_spacer cnt k a
  end.

(* length of the nearest displayed-level ancestor (0 = none): where partial_name `break`s *)
Fixpoint up_cut (cnt : path -> bool) (n : nat) (a : path) : nat :=
  match n with
  | O => O
  | S k => if cnt (firstn n a) then n else up_cut cnt k a
  end.

Definition spacer_of (cnt : path -> bool) (a : path) : nat := up_spacer cnt (length a - 1) a.
Definition partial_of (cnt : path -> bool) (a : path) : path :=
  skipn (up_cut cnt (length a - 1) a) a.

Record lrow : Type := mkLrow {
  l_acct    : path;
  l_spacer  : nat;       (* number of "  " units of %(depth_spacer) *)
  l_partial : path       (* the segments %(partial_account(options.flat)) joins with ':' *)
}.

(* the lines of `bal` as laid out by the default format:
   %(!options.flat ? depth_spacer : "") and partial_account(options.flat) *)
Definition bal_layout (ord : bool) (cp : comm -> Z) (o : opts) (ps : list posting)
  : res (list lrow) :=
  do m <- mark (max_depth ps) ord cp o ps [];
  let cnt := counted (m_pre m) (map p_acct ps) in
  Ok (map (fun a => if o_flat o then mkLrow a O a
                    else mkLrow a (spacer_of cnt a) (partial_of cnt a))
          (map fst (filter (fun ab => snd ab && disp_pred o (fst ab)) (m_pre m)))).

(* reading the tree back: a stack of the last full name seen at each level; a line at level
   l > 0 is named by the line at level l-1 above it plus its partial name *)
Definition set_level (n : nat) (x : path) (S : list path) : list path :=
  firstn n S ++ [x].

Definition read_line (S : list path) (lvl : nat) (pn : path) : path * list path :=
  let full := match lvl with
              | O => pn
              | Datatypes.S l => nth l S [] ++ pn
              end in
  (full, set_level lvl full S).

Fixpoint read_tree (S : list path) (rows : list (nat * path)) : list path :=
  match rows with
  | [] => []
  | (lvl, pn) :: rows' => let (full, S') := read_line S lvl pn in full :: read_tree S' rows'
  end.

(* what reading the tree back relies on: every displayed level (an ancestor that
   partial_name / get_depth_spacer stop at or count) is itself a printed line.  Computed by
   the driver for every case (Proofs: layout_reads_back needs it as hypothesis). *)
Definition layout_ok (ord : bool) (cp : comm -> Z) (o : opts) (ps : list posting) : res bool :=
  do m <- mark (max_depth ps) ord cp o ps [];
  let cnt := counted (m_pre m) (map p_acct ps) in
  Ok (forallb (fun ab => match fst ab with
                         | [] => true
                         | _ => implb (cnt (fst ab))
                                      (flag_of (m_pre m) (fst ab) && disp_pred o (fst ab))
                         end) (m_pre m)).
