(* C11: termination of journal_t::expand_aliases (journal.cc:159-214).
   An account name is its list of ':'-separated segments (a segment is a number here); the alias
   table maps a name (a whole name, possibly with several segments) to the full name of the
   account it stands for.  One round of the C++ loop:

     if the whole name is an alias:        if it is in already_seen -> error "Infinite recursion";
                                           record it; name := target
     else if the first segment is an alias (and there are more segments):
                                           if THAT SEGMENT is in already_seen -> error;
                                           record it; name := target ++ remaining segments
     else stop

   and the loop repeats only with --recursive-aliases.  `record_first` says what the second
   branch records in already_seen: the first segment it looked up (the source,
   Gen/SafetyGuards.src_alias_records_what_it_looks_up) or something else (the whole name), in
   which case a cycle through first segments is never noticed.
   Definitions only. *)
From LedgerV Require Import Base.Prelude.
Local Open Scope Z_scope.

Definition aname := str.                       (* segments *)
Definition alias_table := list (aname * aname).

Fixpoint alias_lookup (k : aname) (m : alias_table) : option aname :=
  match m with
  | [] => None
  | (k', t) :: m' => if str_eqb k k' then Some t else alias_lookup k m'
  end.

Definition seen_mem (k : aname) (seen : list aname) : bool := existsb (str_eqb k) seen.

Inductive alias_result : Type :=
| Expanded (name : aname)      (* the loop ended; the account is `name` *)
| Cycle                        (* "Infinite recursion on alias expansion" *)
| NoEnd.                       (* the fuel ran out: the loop is still going *)

Inductive round_result : Type :=
| RStop | RCycle | RNext (name : aname) (seen : list aname).

Definition alias_round (record_first : bool) (m : alias_table) (name : aname) (seen : list aname) : round_result :=
  match alias_lookup name m with
  | Some t => if seen_mem name seen then RCycle else RNext t (name :: seen)
  | None =>
      match name with
      | f :: (_ :: _) as rest_all =>
          match alias_lookup [f] m with
          | Some t =>
              if seen_mem [f] seen then RCycle
              else RNext (t ++ tl name) ((if record_first then [f] else name) :: seen)
          | None => RStop
          end
      | _ => RStop
      end
  end.

Fixpoint expand_aliases (record_first recursive : bool) (fuel : nat) (m : alias_table)
                        (name : aname) (seen : list aname) : alias_result :=
  match fuel with
  | O => NoEnd
  | S fuel' =>
      match alias_round record_first m name seen with
      | RStop => Expanded name
      | RCycle => Cycle
      | RNext name' seen' =>
          if recursive then expand_aliases record_first recursive fuel' m name' seen'
          else Expanded name'
      end
  end.

(* rounds that always suffice: one per alias, and the round that stops *)
Definition alias_fuel (m : alias_table) : nat := S (length m).

Definition expand (record_first recursive : bool) (m : alias_table) (name : aname) : alias_result :=
  expand_aliases record_first recursive (alias_fuel m) m name [].
