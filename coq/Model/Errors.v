(* C12 - per-item error accounting of the journal reader.
   Transcribes src/textual.cc instance_t::parse (243-312), read_line (314-359),
   read_next_directive (361-463), the `while (peek_whitespace_line())` loops of parse_xact
   (1945-2008) and of the account/commodity/payee directives, include_directive (757-841),
   journal_t::read_textual (2077-2103: error_count thrown when errors > 0), session_t::read_data
   (the loop over the -f files: error_count caught per file, totals thrown after the last file)
   and the exit status of main.cc:196-208.

   The harness hands the model the *shape* of the input: every physical line classified as
   empty / whitespace only / indented / an unindented directive or transaction head / an
   include with the included file's own lines, each annotated with the error class (an opaque
   number chosen by the harness) that parsing this line throws, if any.  What the model decides
   is everything the C++ decides from that shape: which throws are reached, which are swallowed
   by `error_flag`, at which `context.linenum` each message is located, the include chain printed
   before it, the per-file and total error counts, whether the report runs, the exit status.
   Definitions only; proofs are in Proofs/ErrorsProofs.v. *)
From LedgerV Require Import Base.Prelude Gen.StatusOfCount Gen.CheckingStyle Gen.NameChecks.
Local Open Scope Z_scope.

(* ---- input shape ---------------------------------------------------------------------- *)
Inductive line : Type :=
| LEmpty                                   (* "" : read_line returns 0; first byte is '\n' *)
| LWs                                      (* blanks only: first byte ' ' or '\t'; read_line returns 0 after stripping *)
| LSub (t : option Z)                      (* indented, non-blank (posting, note, sub-directive); Some k: parsing it throws class k *)
| LItem (t : option Z) (block : bool) (fin : option Z)
    (* unindented, non-blank, not an include.  t = Some k: the head line itself throws (bad
       date, unknown payee, malformed one-line directive).  block: the directive goes on to
       consume the following indented lines with `while (peek_whitespace_line())` (transactions,
       account / commodity / payee / automated-transaction blocks).  fin = Some k: after the
       block's lines were consumed the item is rejected (xact finalize: "does not balance") *)
| LInclude (name : Z) (body : list line).  (* `include F` of an existing file F = (name, body) *)

Definition loc := (Z * Z)%type.            (* file name (an id), line number *)

Record msg := mk_msg {
  m_chain : list loc;        (* "In file included from F, line N:" outermost first *)
  m_file  : Z;               (* While parsing file "F", *)
  m_line  : Z;               (* line N: (context.linenum when the exception was caught) *)
  m_kind  : Z;               (* the error class *)
  m_range : option (Z * Z)   (* item_context's "lines A-B" of a rejected transaction *)
}.

(* class of parse_error("Unexpected whitespace at beginning of line") *)
Definition k_stray : Z := 0.

(* ---- reader state ---------------------------------------------------------------------- *)
Inductive mode : Type :=
| MTop                                     (* in instance_t::parse's loop *)
| MBlock (beg : Z) (fin : option Z).       (* inside a block's while (peek_whitespace_line()) loop *)

Record st := mk_st {
  s_flag : bool;             (* error_flag *)
  s_mode : mode;
  s_line : Z;                (* context.linenum *)
  s_errs : Z;                (* context.errors *)
  s_msgs : list msg          (* what was written to std::cerr, in order *)
}.

Definition init_st : st := mk_st false MTop 0 0 [].

Definition ws_initial (l : line) : bool :=
  match l with LWs | LSub _ => true | _ => false end.

(* peek_whitespace_line() on the rest of the stream *)
Definition peek (rest : list line) : bool :=
  match rest with l :: _ => ws_initial l | [] => false end.

(* read_line: every line of the file has gcount > 0, so linenum is incremented *)
Definition bump (s : st) : st :=
  mk_st (s_flag s) (s_mode s) (s_line s + 1) (s_errs s) (s_msgs s).

(* the catch block of instance_t::parse: error_flag = true, message located at the current
   linenum, context.errors++ ; the exception left whatever loop was running *)
Definition raise (file : Z) (chain : list loc) (k : Z) (rng : option (Z * Z)) (s : st) : st :=
  mk_st true MTop (s_line s) (s_errs s + 1)
        (s_msgs s ++ [mk_msg chain file (s_line s) k rng]).

(* the block's loop ended (peek failed or a blank line was read): end_line = linenum, then the
   item is accepted or rejected as a whole *)
Definition finalize (file : Z) (chain : list loc) (beg : Z) (fin : option Z) (s : st) : st :=
  match fin with
  | Some k => raise file chain k (Some (beg, s_line s)) s
  | None => mk_st (s_flag s) MTop (s_line s) (s_errs s) (s_msgs s)
  end.

(* one iteration of a block's loop: the line is whitespace-initial (peek succeeded) *)
Definition step_block (file : Z) (chain : list loc) (beg : Z) (fin : option Z)
           (s : st) (l : line) (more : bool) : st :=
  let s1 := bump s in
  match l with
  | LSub (Some k) => raise file chain k None s1           (* parse_post / sub-directive throws *)
  | LSub None => if more then s1 else finalize file chain beg fin s1
  | _ => finalize file chain beg fin s1                   (* if (! *p) break; *)
  end.

(* peek failed while a block was being read: the block is finished before the main loop
   reads the next line *)
Definition close (file : Z) (chain : list loc) (s : st) : st :=
  match s_mode s with
  | MBlock beg fin => finalize file chain beg fin s
  | MTop => s
  end.

(* read_next_directive on a whitespace-initial line (case ' ': case '\t':, or len == 0) *)
Definition step_ws_top (file : Z) (chain : list loc) (s : st) (l : line) : st :=
  let s1 := bump s in
  match l with
  | LSub _ => if s_flag s1 then s1 else raise file chain k_stray None s1
  | _ => s1                                               (* len == 0: return NULL (flag kept) *)
  end.

(* read_next_directive on an unindented directive / transaction head; s1: after read_line *)
Definition step_item (file : Z) (chain : list loc) (s1 : st)
           (t : option Z) (block : bool) (fin : option Z) (more : bool) : st :=
  let s2 := mk_st false MTop (s_line s1) (s_errs s1) (s_msgs s1) in      (* error_flag = false *)
  match t with
  | Some k => raise file chain k None s2
  | None =>
      if block then
        if more then mk_st false (MBlock (s_line s2) fin) (s_line s2) (s_errs s2) (s_msgs s2)
        else finalize file chain (s_line s2) fin s2
      else s2
  end.

(* include_directive after the child instance has parsed its file: errors += child's errors;
   the child's messages are already on stderr *)
Definition join (s1 c : st) : st :=
  mk_st false MTop (s_line s1) (s_errs s1 + s_errs c) (s_msgs s1 ++ s_msgs c).

(* One line of input.  `more` = peek_whitespace_line() after this line. *)
Fixpoint step (file : Z) (chain : list loc) (s : st) (l : line) (more : bool) {struct l} : st :=
  match l with
  | LWs | LSub _ =>
      match s_mode s with
      | MBlock beg fin => step_block file chain beg fin s l more
      | MTop => step_ws_top file chain s l
      end
  | LEmpty => bump (close file chain s)                   (* len == 0: return NULL (flag kept) *)
  | LItem t block fin => step_item file chain (bump (close file chain s)) t block fin more
  | LInclude name body =>
      let s1 := bump (close file chain s) in
      let chain' := chain ++ [(file, s_line s1)] in
      (* a new instance_t with its own error_flag, linenum and error counter *)
      join s1 ((fix go (cs : st) (ls : list line) {struct ls} : st :=
                  match ls with
                  | [] => cs
                  | x :: r => go (step name chain' cs x (peek r)) r
                  end) init_st body)
  end.

(* instance_t::parse: while (in.good() && ! in.eof()) read_next_directive *)
Fixpoint run (file : Z) (chain : list loc) (ls : list line) (s : st) {struct ls} : st :=
  match ls with
  | [] => s
  | x :: r => run file chain r (step file chain s x (peek r))
  end.

Definition parse_file (file : Z) (chain : list loc) (ls : list line) : st :=
  run file chain ls init_st.

(* ---- the session: -f files in order, error_count, report, exit status ------------------- *)
Record result := mk_result {
  r_msgs   : list msg;
  r_errors : Z;
  r_status : Z;      (* as seen by the parent process: low 8 bits *)
  r_report : bool    (* the command ran (something may be written to stdout) *)
}.

Definition os_status (n : Z) : Z := status_of_count n mod 256.

(* session_t::read_data: each -f file is read by journal_t::read_textual, which throws
   error_count when that file (with its includes) had errors; read_data catches it per file,
   adds the counts up, goes on with the remaining files and throws error_count(total) after the
   last one.  Nothing catches that before main(), so the command does not run. *)
Fixpoint all_msgs (files : list (Z * list line)) : list msg :=
  match files with
  | [] => []
  | (name, ls) :: rest => s_msgs (parse_file name [] ls) ++ all_msgs rest
  end.

Fixpoint all_errs (files : list (Z * list line)) : Z :=
  match files with
  | [] => 0
  | (name, ls) :: rest => s_errs (parse_file name [] ls) + all_errs rest
  end.

Definition session (files : list (Z * list line)) : result :=
  let n := all_errs files in
  mk_result (all_msgs files) n (if n >? 0 then os_status n else 0) (negb (n >? 0)).

(* ---- specification side: items --------------------------------------------------------- *)
Definition is_head (l : line) : bool :=
  match l with LItem _ _ _ | LInclude _ _ => true | _ => false end.

Definition starts_with_head (ls : list line) : bool :=
  match ls with l :: _ => is_head l | [] => false end.

(* the file cut in front of every unindented non-blank line: an item is such a line with
   everything up to the next one (the first item may be a headless preamble) *)
Fixpoint items (ls : list line) : list (list line) :=
  match ls with
  | [] => []
  | l :: rest =>
      match items rest with
      | g :: gs => if starts_with_head rest then [l] :: g :: gs else (l :: g) :: gs
      | [] => [[l]]
      end
  end.

(* first indented line among lines that belong to no block: "Unexpected whitespace" *)
Fixpoint stray_scan (off : Z) (tl : list line) : option (Z * Z * bool) :=
  match tl with
  | [] => None
  | LSub _ :: _ => Some (off, k_stray, false)
  | _ :: r => stray_scan (off + 1) r
  end.

(* the lines after a block head: (offset of the located line, class, is-a-whole-item rejection) *)
Fixpoint block_scan (off : Z) (fin : option Z) (tl : list line) : option (Z * Z * bool) :=
  match tl with
  | LSub (Some k) :: _ => Some (off, k, false)
  | LSub None :: r => block_scan (off + 1) fin r
  | LWs :: r =>
      match fin with Some k => Some (off, k, true) | None => stray_scan (off + 1) r end
  | _ =>
      match fin with Some k => Some (off - 1, k, true) | None => stray_scan off tl end
  end.

(* the one fault an item is reported with, read off the item alone *)
Definition item_fault (g : list line) : option (Z * Z * bool) :=
  match g with
  | LItem (Some k) _ _ :: _ => Some (0, k, false)
  | LItem None true fin :: tl => block_scan 1 fin tl
  | LItem None false _ :: tl => stray_scan 1 tl
  | LInclude _ _ :: tl => stray_scan 1 tl
  | _ => stray_scan 0 g
  end.

(* what an item that starts at line `start` of `file` contributes to stderr: an include item
   first everything the included file produces (with the include's location added to the
   chain), then at most one message of the item's own *)
Definition inc_msgs (file : Z) (chain : list loc) (start : Z) (g : list line) : list msg :=
  match g with
  | LInclude name body :: _ => s_msgs (parse_file name (chain ++ [(file, start)]) body)
  | _ => []
  end.

Definition own_msgs (file : Z) (chain : list loc) (start : Z) (g : list line) : list msg :=
  match item_fault g with
  | None => []
  | Some (off, k, whole) =>
      [mk_msg chain file (start + off) k (if whole then Some (start, start + off) else None)]
  end.

Definition item_msgs (file : Z) (chain : list loc) (start : Z) (g : list line) : list msg :=
  inc_msgs file chain start g ++ own_msgs file chain start g.

Fixpoint expected (file : Z) (chain : list loc) (start : Z) (gs : list (list line)) : list msg :=
  match gs with
  | [] => []
  | g :: r => item_msgs file chain start g ++ expected file chain (start + Z.of_nat (length g)) r
  end.

(* a declarative reading of "this item is valid" *)
Definition is_blank (l : line) : bool :=
  match l with LEmpty | LWs => true | _ => false end.

Fixpoint block_ok (tl : list line) : bool :=
  match tl with
  | LSub None :: r => block_ok r
  | LSub (Some _) :: _ => false
  | _ => forallb is_blank tl
  end.

Definition item_ok (g : list line) : bool :=
  match g with
  | LItem (Some _) _ _ :: _ => false
  | LItem None true (Some _) :: _ => false
  | LItem None true None :: tl => block_ok tl
  | LItem None false _ :: tl => forallb is_blank tl
  | LInclude _ _ :: tl => forallb is_blank tl
  | _ => forallb is_blank g
  end.

(* every item of the file, and of every file it includes, is valid *)
Fixpoint line_clean (l : line) : bool :=
  match l with
  | LInclude _ body => forallb item_ok (items body) && forallb line_clean body
  | _ => true
  end.

Definition file_clean (ls : list line) : bool :=
  forallb item_ok (items ls) && forallb line_clean ls.

(* ---- checking options: which names and assertions are errors ------------------------------
   session_t::read_data turns the options into journal->checking_style by an else-if chain whose
   ORDER is regenerated from the source (Gen/CheckingStyle.v: style_chain); journal.cc
   register_account / register_commodity / register_metadata / validate_payee throw under
   CHECK_ERROR, warn under CHECK_WARNING and say nothing otherwise; payees only with
   --check-payees; read_textual passes no_assertions = (style == CHECK_PERMISSIVE) to the
   reader, which then accepts a balance assertion that is off. *)
Record opts := mk_opts {
  o_strict : bool; o_pedantic : bool; o_permissive : bool; o_check_payees : bool
}.

Definition handled (o : opts) (c : copt) : bool :=
  match c with
  | OPermissive => o_permissive o
  | OPedantic => o_pedantic o
  | OStrict => o_strict o
  end.

Fixpoint style_from (chain : list (copt * cstyle)) (o : opts) : cstyle :=
  match chain with
  | [] => style_default
  | (c, st) :: r => if handled o c then st else style_from r o
  end.

Definition checking_style (o : opts) : cstyle := style_from style_chain o.

Inductive name_kind : Type := NAccount | NCommodity | NTag | NPayee.
Inductive reaction : Type := RError | RWarning | RQuiet.

Definition style_reaction (st : cstyle) : reaction :=
  match st with SError => RError | SWarning => RWarning | _ => RQuiet end.

Definition payees_checked (o : opts) : bool :=
  if payees_checked_only_on_request then o_check_payees o else true.

(* what the use of an undeclared name does *)
Definition unknown_name_reaction (o : opts) (nk : name_kind) : reaction :=
  match nk with
  | NPayee => if payees_checked o then style_reaction (checking_style o) else RQuiet
  | _ => style_reaction (checking_style o)
  end.

(* where on a posting line a commodity can stand besides the amount itself; whether parse_post
   hands it to journal_t::register_commodity is regenerated from the source (Gen/NameChecks.v) *)
Inductive comm_pos : Type := PCost | PLotPrice | PAssigned.

Definition position_checked (p : comm_pos) : bool :=
  match p with
  | PCost => src_registers_cost_commodity
  | PLotPrice => src_registers_lot_price_commodity
  | PAssigned => src_registers_assigned_commodity
  end.

(* what the harness says about a line before the options are known *)
Inductive ann : Type :=
| AThrow (k : Z)                          (* rejected whatever the options: class k *)
| AUnknown (nk : name_kind) (k : Z)       (* uses an undeclared name *)
| ABalAssert (k : Z)                      (* carries a balance assertion that is off *)
| AUnknownAt (p : comm_pos) (k : Z).      (* an undeclared commodity as cost / lot price / after `=` *)

Definition resolve_ann (o : opts) (a : ann) : option Z :=
  match a with
  | AThrow k => Some k
  | AUnknown nk k => match unknown_name_reaction o nk with RError => Some k | _ => None end
  | ABalAssert k => match checking_style o with SPermissive => None | _ => Some k end
  | AUnknownAt p k =>
      if position_checked p
      then match unknown_name_reaction o NCommodity with RError => Some k | _ => None end
      else None
  end.

(* the checks of one line happen in the order given: the first that throws is the line's error *)
Fixpoint first_throw (o : opts) (l : list ann) : option Z :=
  match l with
  | [] => None
  | a :: r => match resolve_ann o a with Some k => Some k | None => first_throw o r end
  end.

Inductive rline : Type :=
| RLEmpty
| RLWs
| RLSub (a : list ann)
| RLItem (a : list ann) (block : bool) (fin : list ann)
| RLInclude (name : Z) (body : list rline).

Fixpoint resolve (o : opts) (l : rline) {struct l} : line :=
  match l with
  | RLEmpty => LEmpty
  | RLWs => LWs
  | RLSub a => LSub (first_throw o a)
  | RLItem a block fin => LItem (first_throw o a) block (first_throw o fin)
  | RLInclude name body => LInclude name (map (resolve o) body)
  end.

Definition resolve_files (o : opts) (files : list (Z * list rline)) : list (Z * list line) :=
  map (fun f => (fst f, map (resolve o) (snd f))) files.

Definition run_session (o : opts) (files : list (Z * list rline)) : result :=
  session (resolve_files o files).
