(* C11: the `%$N` prior-field reference of format_t::parse_elements (format.cc:250-275).
   A format may have up to three parts separated by `%/`; the later parts are parsed with the
   first part as a template, and `%$N` (N = 1-9, A-F) copies the template's N-th field.
   The C++ walks the template's singly linked element list:

       element_t * tmpl_elem = tmpl->elements.get();
       for (int i = 1; i < index && tmpl_elem; i++) {
         tmpl_elem = tmpl_elem->next.get();
         while (tmpl_elem && tmpl_elem->type != element_t::EXPR)
           tmpl_elem = tmpl_elem->next.get();
       }
       if (! tmpl_elem) throw_(format_error, "%$ reference to a non-existent prior field");
       *current = *tmpl_elem;

   The list is a Gallina list (the null pointer is []); `guard` says whether the loop tests
   `&& tmpl_elem` (Gen/SafetyGuards.src_format_field_ref_guard).  Without the test the loop
   dereferences the null pointer as soon as it has to step from the end of the list: Crash.
   Definitions only. *)
From LedgerV Require Import Base.Prelude.
Local Open Scope Z_scope.

Inductive elt_kind : Type := KString | KExpr.
Definition is_expr (k : elt_kind) : bool := match k with KExpr => true | KString => false end.

(* an element: its kind and an identifying number (its position in the template) *)
Definition elt : Type := (elt_kind * Z)%type.

(* the inner while: skip to the next EXPR element *)
Fixpoint skip_strings (l : list elt) : list elt :=
  match l with
  | [] => []
  | e :: t => if is_expr (fst e) then l else skip_strings t
  end.

(* the for loop, n = index - 1 iterations.  None = a null pointer was dereferenced. *)
Fixpoint advance (guard : bool) (n : nat) (l : list elt) : option (list elt) :=
  match n with
  | O => Some l
  | S n' =>
      match l with
      | [] => if guard then Some [] else None      (* `&& tmpl_elem` ends the loop *)
      | _ :: t => advance guard n' (skip_strings t)
      end
  end.

Inductive ref_result : Type :=
| Found (e : elt)       (* *current = *tmpl_elem *)
| NoSuchField           (* throw_(format_error, "%$ reference to a non-existent prior field") *)
| BadIndex              (* throw_(format_error, "%$ field reference must be a digit from 1-9") *)
| Crash.                (* null pointer dereference *)

(* index: the value of the character after `%$`: 1..15 are accepted, anything else (0, G, ..)
   is rejected before the list is touched when `index_guard` holds *)
Definition field_ref (guard : bool) (els : list elt) (index : Z) : ref_result :=
  if (index <? 1) || (15 <? index) then BadIndex
  else match advance guard (Z.to_nat (index - 1)) els with
       | None => Crash
       | Some [] => NoSuchField
       | Some (e :: _) => Found e
       end.

Fixpoint count_exprs (l : list elt) : nat :=
  match l with
  | [] => O
  | e :: t => (if is_expr (fst e) then 1 else 0) + count_exprs t
  end.

(* a template from a string of kinds, numbered from 1 *)
Fixpoint number_from (i : Z) (ks : list elt_kind) : list elt :=
  match ks with
  | [] => []
  | k :: t => (k, i) :: number_from (i + 1) t
  end.

(* ---- the escape branch of the same loop (format.cc:160-175).  parse_elements walks the format
   with `for (const char * p = fmt.c_str(); *p; p++)`; on a backslash it steps to the next
   character, translates it, and `continue`s, which steps once more.  When the backslash is the
   last character of the format the first step lands on the terminating NUL and the second one
   leaves the string: the loop condition then reads past the end of the buffer.  `guard` says
   whether the branch tests `if (! *p) throw` after its own step
   (Gen/SafetyGuards.src_format_backslash_guard).  Every other character is one step of the
   loop here (the `%` directives test `*p` before every step of their own). *)
Inductive scan_result : Type :=
| ScanDone            (* the loop ended on the terminator *)
| ScanError           (* format_error: "Backslash at end of format string" *)
| ScanOverrun.        (* the cursor left the string *)

Fixpoint scan_format (guard : bool) (s : list Z) : scan_result :=
  match s with
  | [] => ScanDone
  | c :: rest =>
      if c =? 92 then
        match rest with
        | [] => if guard then ScanError else ScanOverrun
        | _ :: rest' => scan_format guard rest'
        end
      else scan_format guard rest
  end.
