(* Executable model of amount_t (amount.cc:378-545, 577-589, 591-610, 832-865),
   balance_t (balance.cc:63-189) and the INTEGER/AMOUNT/BALANCE cells of value_t
   (value.cc:277-303, 336-781, 783-1010, 1191-1300).
   Quantities are Q kept reduced (mpq is always canonical); the precision counter is
   display-only; the commodity pool is seen through `cp : comm -> Z`
   (commodity_t::precision(); an annotated commodity answers with its base's). *)
From LedgerV Require Import Base.Prelude Base.Round.
Local Open Scope Z_scope.

(* a commodity key: symbol bytes, then (for an annotated commodity) "~" and the
   annotation text exactly as commodity_t::write_annotations prints it *)
Definition comm := str.

Record amount : Type := mkAmt {
  aq    : Q;            (* exact quantity *)
  aprec : Z;            (* bigint_t::prec, display only *)
  akeep : bool;         (* BIGINT_KEEP_PREC *)
  acomm : option comm   (* None = no commodity (null_commodity) *)
}.

Definition comm_eqb (a b : option comm) : bool := opt_eqb str_eqb a b.
Definition has_comm (a : amount) : bool := match acomm a with Some _ => true | None => false end.

(* static_cast<precision_t>(..): uint_least16_t *)
Definition wrap16 (z : Z) : Z := z mod 65536.

Definition amt_of_Z (z : Z) : amount := mkAmt (inject_Z z) 0 false None.

Definition is_realzero (a : amount) : bool := Qnum (aq a) =? 0.

(* amount_t::is_zero (amount.cc:832-865): display-zero *)
Definition is_zero (cp : comm -> Z) (a : amount) : bool :=
  match acomm a with
  | Some c =>
      if akeep a || (aprec a <=? cp c) then is_realzero a
      else if is_realzero a then true
      else if Zpos (Qden (aq a)) <? Qnum (aq a) then false
      else print_scaled (Qnum (aq a)) (Zpos (Qden (aq a))) (cp c) =? 0
  | None => is_realzero a
  end.

Definition diff_comm (a b : amount) : bool :=
  has_comm a && has_comm b && negb (comm_eqb (acomm a) (acomm b)).

Definition addsub_prec (a b : amount) : Z :=
  if Bool.eqb (has_comm a) (has_comm b)
  then (if aprec a <? aprec b then aprec b else aprec a) else aprec a.

Definition amt_add (a b : amount) : res amount :=
  if diff_comm a b then Err EDiffComm
  else Ok (mkAmt (Qred (aq a + aq b)) (addsub_prec a b) (akeep a) (acomm a)).

Definition amt_sub (a b : amount) : res amount :=
  if diff_comm a b then Err EDiffComm
  else Ok (mkAmt (Qred (aq a - aq b)) (addsub_prec a b) (akeep a) (acomm a)).

Definition cap_prec (cp : comm -> Z) (c : option comm) (keep : bool) (p : Z) : Z :=
  match c with
  | Some k => if keep then p
              else if cp k + extend_by_digits <? p then wrap16 (cp k + extend_by_digits) else p
  | None => p
  end.

(* amount_t::multiply(amt, ignore_commodity = false) *)
Definition amt_mul (cp : comm -> Z) (a b : amount) : amount :=
  let c := match acomm a with Some k => Some k | None => acomm b end in
  mkAmt (Qred (aq a * aq b)) (cap_prec cp c (akeep a) (wrap16 (aprec a + aprec b))) (akeep a) c.

(* amount_t::operator/= : only an exactly zero divisor is an error *)
Definition amt_div (cp : comm -> Z) (a b : amount) : res amount :=
  if is_realzero b then Err EDivZero
  else
    let c := match acomm a with Some k => Some k | None => acomm b end in
    Ok (mkAmt (Qred (aq a / aq b))
              (cap_prec cp c (akeep a) (wrap16 (aprec a + aprec b + extend_by_digits)))
              (akeep a) c).

Definition amt_neg (a : amount) : amount := mkAmt (Qred (- aq a)) (aprec a) (akeep a) (acomm a).
Definition amt_abs (a : amount) : amount :=
  if Qnum (aq a) <? 0 then amt_neg a else a.

(* amount_t::compare: error on different commodities, else mpq_cmp *)
Definition amt_compare (a b : amount) : res comparison :=
  if diff_comm a b then Err EDiffComm else Ok (Qcompare (aq a) (aq b)).

(* amount_t::operator== *)
Definition amt_eqb (a b : amount) : bool :=
  comm_eqb (acomm a) (acomm b) && Qeq_bool (aq a) (aq b).

(* ------------------------------------------------------------------ balances *)

(* balance_t::amounts : unordered_map keyed by commodity; modelled as an association
   list in UNSPECIFIED order without duplicate keys. *)
Definition balance := list amount.

Fixpoint bal_find (c : option comm) (b : balance) : option amount :=
  match b with
  | [] => None
  | x :: b' => if comm_eqb (acomm x) c then Some x else bal_find c b'
  end.

Fixpoint bal_replace (c : option comm) (y : amount) (b : balance) : balance :=
  match b with
  | [] => []
  | x :: b' => if comm_eqb (acomm x) c then y :: b' else x :: bal_replace c y b'
  end.

Fixpoint bal_erase (c : option comm) (b : balance) : balance :=
  match b with
  | [] => []
  | x :: b' => if comm_eqb (acomm x) c then b' else x :: bal_erase c b'
  end.

(* balance_t::operator+=(amount_t): a real-zero amount is not inserted; an entry that
   becomes zero stays *)
(* where a new key lands in the hash table is unspecified: `ord` picks front or back, and
   every theorem about balances holds for both choices (the correspondence check evaluates
   the model under both and compares only order-independent results) *)
Definition bal_insert (ord : bool) (a : amount) (b : balance) : balance :=
  if ord then a :: b else b ++ [a].

Definition bal_add_amt (ord : bool) (b : balance) (a : amount) : res balance :=
  if is_realzero a then Ok b
  else match bal_find (acomm a) b with
       | Some x => do s <- amt_add x a; Ok (bal_replace (acomm a) s b)
       | None => Ok (bal_insert ord a b)
       end.

(* balance_t::operator-=(amount_t): an entry that becomes real-zero is erased *)
Definition bal_sub_amt (ord : bool) (b : balance) (a : amount) : res balance :=
  if is_realzero a then Ok b
  else match bal_find (acomm a) b with
       | Some x => do s <- amt_sub x a;
                   if is_realzero s then Ok (bal_erase (acomm a) b)
                   else Ok (bal_replace (acomm a) s b)
       | None => Ok (bal_insert ord (amt_neg a) b)
       end.

Fixpoint bal_fold (f : balance -> amount -> res balance) (b : balance) (l : list amount) : res balance :=
  match l with
  | [] => Ok b
  | x :: l' => do b' <- f b x; bal_fold f b' l'
  end.

Definition bal_add (ord : bool) (b c : balance) : res balance := bal_fold (bal_add_amt ord) b c.
Definition bal_sub (ord : bool) (b c : balance) : res balance := bal_fold (bal_sub_amt ord) b c.

Definition bal_is_realzero (b : balance) : bool := forallb is_realzero b.
Definition bal_is_zero (cp : comm -> Z) (b : balance) : bool := forallb (is_zero cp) b.

(* balance_t(const amount_t&) *)
Definition bal_of_amt (a : amount) : balance := if is_realzero a then [] else [a].

(* balance_t::operator*=(amount_t) *)
Definition bal_mul (cp : comm -> Z) (b : balance) (a : amount) : res balance :=
  if bal_is_realzero b then Ok b
  else if is_realzero a then Ok (bal_of_amt a)
  else match acomm a with
       | None => Ok (map (fun x => amt_mul cp x a) b)
       | Some _ =>
           match b with
           | [x] => if comm_eqb (acomm x) (acomm a) then Ok [amt_mul cp x a] else Err EBadOp
           | _ => Err EBadOp
           end
       end.

Fixpoint map_res {A B} (f : A -> res B) (l : list A) : res (list B) :=
  match l with
  | [] => Ok []
  | x :: l' => do y <- f x; do ys <- map_res f l'; Ok (y :: ys)
  end.

(* balance_t::operator/=(amount_t): here the zero test is is_realzero *)
Definition bal_div (cp : comm -> Z) (b : balance) (a : amount) : res balance :=
  if bal_is_realzero b then Ok b
  else if is_realzero a then Err EDivZero
  else match acomm a with
       | None => map_res (fun x => amt_div cp x a) b
       | Some _ =>
           match b with
           | [x] => if comm_eqb (acomm x) (acomm a)
                    then do y <- amt_div cp x a; Ok [y] else Err EBadOp
           | _ => Err EBadOp
           end
       end.

(* balance_t::operator==(balance_t): same size and each entry found equal;
   operator==(amount_t): zero amount <-> empty, else single equal entry *)
Definition bal_eqb (b c : balance) : bool :=
  Nat.eqb (length b) (length c) &&
  forallb (fun x => match bal_find (acomm x) c with
                    | Some y => amt_eqb x y | None => false end) b.

Definition bal_eqb_amt (b : balance) (a : amount) : bool :=
  if is_realzero a then match b with [] => true | _ => false end
  else match b with [x] => amt_eqb x a | _ => false end.

(* -------------------------------------------------------------------- values *)

Inductive value : Type :=
| VVoid
| VBool (b : bool)
| VInt (z : Z)
| VAmt (a : amount)
| VBal (b : balance).

(* value_t::in_place_simplify *)
Definition v_is_realzero (v : value) : bool :=
  match v with
  | VVoid => true          (* is_null-like: never reached for VOID in the modelled cells *)
  | VBool b => negb b
  | VInt z => z =? 0
  | VAmt a => is_realzero a
  | VBal b => bal_is_realzero b
  end.

Definition simplify (v : value) : value :=
  if v_is_realzero v then VInt 0
  else match v with
       | VBal [a] => VAmt a
       | _ => v
       end.

(* in_place_cast(BALANCE) *)
Definition to_balance (v : value) : res balance :=
  match v with
  | VInt z => Ok (bal_of_amt (amt_of_Z z))
  | VAmt a => Ok (bal_of_amt a)
  | VBal b => Ok b
  | _ => Err EBadOp
  end.

Definition v_add (ord : bool) (v w : value) : res value :=
  match v, w with
  | VVoid, _ => Ok w
  | VInt x, VInt y => Ok (VInt (x + y))
  | VInt x, VAmt b =>
      if has_comm b
      then do r <- bal_add_amt ord (bal_of_amt (amt_of_Z x)) b; Ok (VBal r)
      else do r <- amt_add (amt_of_Z x) b; Ok (VAmt r)
  | VInt x, VBal c => do r <- bal_add ord (bal_of_amt (amt_of_Z x)) c; Ok (VBal r)
  | VAmt a, VInt y =>
      if has_comm a
      then do r <- bal_add_amt ord (bal_of_amt a) (amt_of_Z y); Ok (VBal r)
      else do r <- amt_add a (amt_of_Z y); Ok (VAmt r)
  | VAmt a, VAmt b =>
      if comm_eqb (acomm a) (acomm b)
      then do r <- amt_add a b; Ok (VAmt r)
      else do r <- bal_add_amt ord (bal_of_amt a) b; Ok (VBal r)
  | VAmt a, VBal c => do r <- bal_add ord (bal_of_amt a) c; Ok (VBal r)
  | VBal b, VInt y => do r <- bal_add_amt ord b (amt_of_Z y); Ok (VBal r)
  | VBal b, VAmt a => do r <- bal_add_amt ord b a; Ok (VBal r)
  | VBal b, VBal c => do r <- bal_add ord b c; Ok (VBal r)
  | _, _ => Err EBadOp
  end.

Definition v_sub (ord : bool) (v w : value) : res value :=
  match v, w with
  | VInt x, VInt y => Ok (VInt (x - y))
  | VInt x, VAmt b =>
      if has_comm b
      then do r <- bal_sub_amt ord (bal_of_amt (amt_of_Z x)) b; Ok (simplify (simplify (VBal r)))
      else do r <- amt_sub (amt_of_Z x) b; Ok (simplify (VAmt r))
  | VInt x, VBal c => do r <- bal_sub ord (bal_of_amt (amt_of_Z x)) c; Ok (simplify (VBal r))
  | VAmt a, VInt y =>
      if has_comm a
      then do r <- bal_sub_amt ord (bal_of_amt a) (amt_of_Z y); Ok (simplify (simplify (VBal r)))
      else do r <- amt_sub a (amt_of_Z y); Ok (simplify (VAmt r))
  | VAmt a, VAmt b =>
      if comm_eqb (acomm a) (acomm b)
      then do r <- amt_sub a b; Ok (simplify (VAmt r))
      else do r <- bal_sub_amt ord (bal_of_amt a) b; Ok (simplify (simplify (VBal r)))
  | VAmt a, VBal c => do r <- bal_sub ord (bal_of_amt a) c; Ok (simplify (VBal r))
  | VBal b, VInt y => do r <- bal_sub_amt ord b (amt_of_Z y); Ok (simplify (VBal r))
  | VBal b, VAmt a => do r <- bal_sub_amt ord b a; Ok (simplify (VBal r))
  | VBal b, VBal c => do r <- bal_sub ord b c; Ok (simplify (VBal r))
  | _, _ => Err EBadOp
  end.

Definition v_mul (cp : comm -> Z) (v w : value) : res value :=
  match v, w with
  | VInt x, VInt y => Ok (VInt (x * y))
  | VInt x, VAmt b => Ok (VAmt (amt_mul cp b (amt_of_Z x)))
  | VAmt a, VInt y => Ok (VAmt (amt_mul cp a (amt_of_Z y)))
  | VAmt a, VAmt b => Ok (VAmt (amt_mul cp a b))
  | VAmt a, VBal [b] => Ok (VAmt (amt_mul cp a b))
  | VBal b, VInt y => do r <- bal_mul cp b (amt_of_Z y); Ok (VBal r)
  | VBal [x], VAmt a => if is_realzero x then Ok (VInt 0)  (* in_place_simplify *)
                        else Ok (VAmt (amt_mul cp x a))
  | VBal b, VAmt a => if has_comm a then Err EBadOp
                      else do r <- bal_mul cp b a; Ok (VBal r)
  | _, _ => Err EBadOp
  end.

(* value_t::operator/= transcribed cell by cell.  Two cells deserve a remark:
   INTEGER / INTEGER is C long division (truncating; a zero divisor is an error), and
   INTEGER / AMOUNT is written `val.as_amount() / as_long()` in the source
   (value.cc:716): the operands are REVERSED.  The pinned unit test
   test/unit/t_value.cc:646 expects exactly that (4 / 8 == 2), so the cell cannot be
   repaired without editing the suite; it is transcribed as written and is finding F1
   (Properties_C03.value_div_int_amt_refuted). *)
Definition int_div_amt (cp : comm -> Z) (x : Z) (b : amount) : res amount :=
  amt_div cp b (amt_of_Z x).

Definition v_div (cp : comm -> Z) (v w : value) : res value :=
  match v, w with
  | VInt x, VInt y => if y =? 0 then Err EDivZero else Ok (VInt (Z.quot x y))
  | VInt x, VAmt b => do r <- int_div_amt cp x b; Ok (VAmt r)
  | VAmt a, VInt y => do r <- amt_div cp a (amt_of_Z y); Ok (VAmt r)
  | VAmt a, VAmt b => do r <- amt_div cp a b; Ok (VAmt r)
  | VAmt a, VBal [b] => do r <- amt_div cp a b; Ok (VAmt r)
  | VBal b, VInt y => do r <- bal_div cp b (amt_of_Z y); Ok (VBal r)
  | VBal [x], VAmt a => do r <- amt_div cp x a; Ok (VAmt r)
  | VBal b, VAmt a => if has_comm a then Err EBadOp
                      else do r <- bal_div cp b a; Ok (VBal r)
  | _, _ => Err EBadOp
  end.

Definition v_neg (v : value) : res value :=
  match v with
  | VInt x => Ok (VInt (- x))
  | VAmt a => Ok (VAmt (amt_neg a))
  | VBal b => Ok (VBal (map amt_neg b))
  | VBool b => Ok (VBool (negb b))
  | VVoid => Err EBadOp
  end.

(* balance_t::abs builds a new balance by adding the absolute values: zero entries drop out *)
Definition v_abs (ord : bool) (v : value) : res value :=
  match v with
  | VInt x => Ok (VInt (Z.abs x))
  | VAmt a => Ok (VAmt (amt_abs a))
  | VBal b => do r <- bal_fold (bal_add_amt ord) [] (map amt_abs b); Ok (VBal r)
  | _ => Err EBadOp
  end.

(* value_t::is_equal_to / is_less_than / is_greater_than on the modelled cells *)
Definition v_eqb (v w : value) : res bool :=
  match v, w with
  | VVoid, VVoid => Ok true
  | VVoid, _ => Ok false
  | VBool a, VBool b => Ok (Bool.eqb a b)
  | VInt x, VInt y => Ok (x =? y)
  | VInt x, VAmt b => Ok (amt_eqb b (amt_of_Z x))
  | VInt x, VBal c => Ok (bal_eqb_amt c (amt_of_Z x))
  | VAmt a, VInt y => Ok (Qeq_bool (aq a) (inject_Z y))   (* amount == long: compare(val) == 0, quantities only *)
  | VAmt a, VAmt b => Ok (amt_eqb a b)
  | VAmt a, VBal c => Ok (bal_eqb_amt c a)
  | VBal b, VInt y => Ok (bal_eqb_amt b (amt_of_Z y))
  | VBal b, VAmt a => Ok (bal_eqb_amt b a)
  | VBal b, VBal c => Ok (bal_eqb b c)
  | _, _ => Err EBadOp
  end.

Definition is_lt (c : comparison) : bool := match c with Lt => true | _ => false end.
Definition is_gt (c : comparison) : bool := match c with Gt => true | _ => false end.

(* commodity_t::compare_by_commodity for two different commodities: by base symbol;
   annotated commodities with equal base symbols are outside the modelled cells *)
Fixpoint base_sym (c : comm) : str :=
  match c with
  | [] => []
  | x :: c' => if x =? 126 then [] else x :: base_sym c'
  end.

Definition comm_name_lt (a b : amount) : res bool :=
  match acomm a, acomm b with
  | Some x, Some y =>
      match str_compare (base_sym x) (base_sym y) with
      | Lt => Ok true
      | Gt => Ok false
      | Eq => Err EBadOp
      end
  | _, _ => Err EBadOp
  end.

(* value_t::to_amount on a BALANCE (in_place_cast(AMOUNT), value.cc:1319-1340): the single
   entry, the amount 0 for an empty balance, an error for several commodities *)
Definition bal_to_amount (b : balance) : res amount :=
  match b with
  | [x] => Ok x
  | [] => Ok (amt_of_Z 0)
  | _ => Err EBadOp
  end.

Definition amt_lt_amt (a b : amount) : res bool :=
  if comm_eqb (acomm a) (acomm b) || negb (has_comm a) || negb (has_comm b)
  then do c <- amt_compare a b; Ok (is_lt c)
  else comm_name_lt a b.

(* balance_t::sorted_amounts (balance.cc:273-283): the non-null entries, stable-sorted by
   commodity_t::compare_by_commodity - base symbol first, then the whole key; the table has one
   entry per key, so no two entries compare equal.  (The model has no null amounts.) *)
Definition comm_key (a : amount) : str := match acomm a with Some c => c | None => [] end.

Definition comm_le (a b : amount) : bool :=
  match str_compare (base_sym (comm_key a)) (base_sym (comm_key b)) with
  | Lt => true
  | Gt => false
  | Eq => match str_compare (comm_key a) (comm_key b) with Gt => false | _ => true end
  end.

Fixpoint insert_sorted (a : amount) (l : list amount) : list amount :=
  match l with
  | [] => [a]
  | x :: l' => if comm_le a x then a :: l else x :: insert_sorted a l'
  end.

Definition sorted_amounts (b : balance) : list amount := fold_right insert_sorted [] b.

(* inside BALANCE < w the loop tests `*amount >= w`, which boost turns into
   !(w > *amount), i.e. value_t::is_greater_than on the INTEGER/AMOUNT cells
   (no ordering by commodity name there: different commodities are an error) *)
Definition v_gt_amt (w : value) (x : amount) : res bool :=
  match w with
  | VInt y => do c <- amt_compare x (amt_of_Z y); Ok (is_lt c)
  | VAmt a => do c <- amt_compare a x; Ok (is_gt c)
  | _ => Err EBadOp
  end.

Fixpoint bal_all_lt (b : list amount) (w : value) : res bool :=
  match b with
  | [] => Ok true
  | x :: b' => do l <- v_gt_amt w x; if l then bal_all_lt b' w else Ok false
  end.

(* value_t::is_less_than, BALANCE against INTEGER/AMOUNT (value.cc:976-989, as repaired by 55e6d28): the walk is over
   sorted_amounts - commodity order - and stops at the first entry that decides: an entry not below w answers
   `false`, an entry of another commodity than a commoditized w raises "different commodities"; `no_amounts`
   (nothing walked) answers `false` *)
Definition bal_lt_scalar (b : balance) (w : value) : res bool :=
  match sorted_amounts b with
  | [] => Ok false
  | s => bal_all_lt s w
  end.

(* inside BALANCE > w (value_t::is_greater_than, value.cc:1123-1136; reached from C++ callers that compare a value with
   an amount_t or a long, not from the expression operators, which boost routes through is_less_than) the loop tests
   `*amount <= w` = !(w < *amount): value_t::is_less_than on the INTEGER/AMOUNT cells, where two different
   commodities are ordered by name *)
Definition v_lt_amt (w : value) (x : amount) : res bool :=
  match w with
  | VInt y => do c <- amt_compare x (amt_of_Z y); Ok (is_gt c)
  | VAmt a => amt_lt_amt a x
  | _ => Err EBadOp
  end.

Fixpoint bal_all_gt (b : list amount) (w : value) : res bool :=
  match b with
  | [] => Ok true
  | x :: b' => do l <- v_lt_amt w x; if l then bal_all_gt b' w else Ok false
  end.

Definition bal_gt_scalar (b : balance) (w : value) : res bool :=
  match sorted_amounts b with
  | [] => Ok false
  | s => bal_all_gt s w
  end.

Definition v_ltb (v w : value) : res bool :=
  match v, w with
  | VBool a, VBool b => Ok (negb a && b)
  | VInt x, VInt y => Ok (x <? y)
  | VInt x, VAmt b => do c <- amt_compare b (amt_of_Z x); Ok (is_gt c)
  | VInt x, VBal c => do b <- bal_to_amount c; do k <- amt_compare b (amt_of_Z x); Ok (is_gt k)
  | VAmt a, VInt y => do c <- amt_compare a (amt_of_Z y); Ok (is_lt c)
  | VAmt a, VAmt b => amt_lt_amt a b
  | VAmt a, VBal c => do b <- bal_to_amount c; do k <- amt_compare b a; Ok (is_gt k)
  | VBal b, VInt _ | VBal b, VAmt _ => bal_lt_scalar b w
  | VBal b, VBal c => do x <- bal_to_amount c; do y <- bal_to_amount b;
                      do k <- amt_compare x y; Ok (is_gt k)
  | _, _ => Err EBadOp
  end.

(* report.cc top_amount (as repaired by /repo 195dbe5, finding F191): the first amount of a balance in commodity
   order, the value itself where there is none (and for the other modelled types; sequences are not modelled) *)
Definition top_amount (v : value) : value :=
  match v with
  | VBal b => match sorted_amounts b with [] => v | x :: _ => VAmt x end
  | _ => v
  end.

(* ------------------------------------------- expression trees over these cells *)

Inductive binop := OAdd | OSub | OMul | ODiv | OEq | OLt | OGt | OLe | OGe | ONe.

Inductive aexp : Type :=
| ELit (a : amount)          (* a literal as the tokenizer creates it (keep set) *)
| EInt (z : Z)               (* to_int(<integer literal>) *)
| ENeg (e : aexp)
| EAbs (e : aexp)
| EBin (o : binop) (l r : aexp).

Fixpoint aeval (ord : bool) (cp : comm -> Z) (e : aexp) : res value :=
  match e with
  | ELit a => Ok (VAmt a)
  | EInt z => Ok (VInt z)
  | ENeg e1 => do v <- aeval ord cp e1; v_neg v
  | EAbs e1 => do v <- aeval ord cp e1; v_abs ord v
  | EBin o l r =>
      do v <- aeval ord cp l;
      do w <- aeval ord cp r;
      match o with
      | OAdd => v_add ord v w
      | OSub => v_sub ord v w
      | OMul => v_mul cp v w
      | ODiv => v_div cp v w
      | OEq => do b <- v_eqb v w; Ok (VBool b)
      | ONe => do b <- v_eqb v w; Ok (VBool (negb b))
      | OLt => do b <- v_ltb v w; Ok (VBool b)
      | OGt => do b <- v_ltb w v; Ok (VBool b)              (* boost: x > y  := y < x   *)
      | OLe => do b <- v_ltb w v; Ok (VBool (negb b))       (* boost: x <= y := !(y < x) *)
      | OGe => do b <- v_ltb v w; Ok (VBool (negb b))       (* boost: x >= y := !(x < y) *)
      end
  end.
