(* Executable model of ledger's value-expression language:
     tokens            token.cc (the token kinds the parser distinguishes; `and`/`&`/`&&`,
                       `or`/`|`/`||`, `not`/`!`, `div`, `if`, `else` are spellings of one kind each)
     parse_*           parser.cc:38-549, the recursive-descent ladder, on explicit fuel
     compile           op.cc:89-231  (identifier resolution, definitions, lambda parameters,
                       constant folding)
     calc              op.cc:250-436 + calc_call/call_lambda/find_definition/calc_seq (op.cc:438-621)
     print             op.cc:657-875 (fully parenthesised; value_t::dump for literals)
   Values and their arithmetic are Model/Amount.v (value.cc cell by cell).
   Not modelled (never generated, assumptions recorded in the harness): strings, dates, regex
   masks (`/re/`, =~), member lookup (`.`), bare sequences `(a, b)` as values, and the
   per-SCOPE symbol tables (they only matter for an identifier used before its definition
   inside a function body).
   The model works on the token list (the generator hands the same tokens to the model and,
   spelled out with varying spellings and white space, to ledger). *)
From LedgerV Require Import Base.Prelude Base.Round Model.Amount.
Local Open Scope Z_scope.

(* ------------------------------------------------------------------ tokens *)

Inductive tok : Type :=
| TVal (v : value)        (* VALUE: a literal amount, true, false *)
| TIdent (s : str)        (* IDENT *)
| TLParen | TRParen
| TExclam                 (* !  not *)
| TMinus | TPlus | TStar
| TSlash                  (* / in operator context *)
| TKwDiv                  (* div *)
| TEqual | TNequal | TLess | TLessEq | TGreater | TGreaterEq
| TAnd                    (* &  &&  and *)
| TOr                     (* |  ||  or *)
| TQuery | TColon | TKwIf | TKwElse
| TComma | TSemi | TArrow | TAssign.

(* ------------------------------------------------------------------ op tree *)

Inductive kind1 := KNot | KNeg.
Inductive kind2 :=
| KMul | KDiv | KAdd | KSub | KEq | KLt | KLte | KGt | KGte
| KAnd | KOr | KQuery | KColon | KCons | KSeq | KDefine | KLambda | KCall.

Inductive builtin := BToInt | BAbs | BNull.

Inductive op : Type :=
| OValue (v : value)
| OIdent (s : str) (def : option op)      (* left() = the definition found by compile *)
| OPlug                                   (* marks a lambda parameter *)
| OFunc (f : builtin)                     (* FUNCTION *)
| OScope (body : op)
| OUn (k : kind1) (l : op)
| OBin (k : kind2) (l : op) (r : option op).

(* values at run time: a value_t, or an expression (value_t of type ANY holding an op) *)
Inductive xval : Type :=
| XV (v : value)
| XFun (o : op).

(* value_t::operator bool; amounts and balances by the DISPLAY-zero test *)
Definition v_truth (cp : comm -> Z) (v : value) : bool :=
  match v with
  | VVoid => false
  | VBool b => b
  | VInt z => negb (z =? 0)
  | VAmt a => negb (is_zero cp a)
  | VBal b => negb (bal_is_zero cp b)
  end.

Definition x_truth (cp : comm -> Z) (x : xval) : bool :=
  match x with XV v => v_truth cp v | XFun _ => true end.

(* value_t::in_place_not (parse-time folding of `! literal`): VOID is an error there *)
Definition v_not_inplace (cp : comm -> Z) (v : value) : res value :=
  match v with
  | VVoid => Err EBadOp
  | _ => Ok (VBool (negb (v_truth cp v)))
  end.

(* ------------------------------------------------------------------ parser *)
(* Every function returns the node (None = the C++ null pointer) and the unread tokens;
   push_token is "do not consume".  `single` is PARSE_SINGLE.  A `/` met where a term is
   expected starts a regular expression in the C++ tokenizer: not modelled, an error here. *)

Definition presult := res (option op * list tok).

Definition mul_op (t : tok) : option kind2 :=
  match t with TStar => Some KMul | TSlash => Some KDiv | TKwDiv => Some KDiv | _ => None end.
Definition add_op (t : tok) : option kind2 :=
  match t with TPlus => Some KAdd | TMinus => Some KSub | _ => None end.
(* parse_logic_expr: (kind, negate) *)
Definition logic_op (t : tok) : option (kind2 * bool) :=
  match t with
  | TEqual => Some (KEq, false) | TNequal => Some (KEq, true)
  | TLess => Some (KLt, false) | TLessEq => Some (KLte, false)
  | TGreater => Some (KGt, false) | TGreaterEq => Some (KGte, false)
  | _ => None
  end.
Definition and_op (t : tok) : option kind2 := match t with TAnd => Some KAnd | _ => None end.
Definition or_op (t : tok) : option kind2 := match t with TOr => Some KOr | _ => None end.

(* the five left-associative binary rungs share one loop *)
Inductive blevel := LMul | LAdd | LLogic | LAnd | LOr.

Definition level_op (lv : blevel) (t : tok) : option (kind2 * bool) :=
  match lv with
  | LMul => option_map (fun k => (k, false)) (mul_op t)
  | LAdd => option_map (fun k => (k, false)) (add_op t)
  | LLogic => logic_op t
  | LAnd => option_map (fun k => (k, false)) (and_op t)
  | LOr => option_map (fun k => (k, false)) (or_op t)
  end.

Definition mk_bin (k : kind2) (neg : bool) (l r : op) : op :=
  if neg then OUn KNot (OBin k l (Some r)) else OBin k l (Some r).

Section Parser.
Variable cp : comm -> Z.

Fixpoint parse_value_term (n : nat) (single : bool) (ts : list tok) {struct n} : presult :=
  match n with O => Err EOutOfFuel | S n' =>
  match ts with
  | TVal v :: r => Ok (Some (OValue v), r)
  | TIdent s :: r => Ok (Some (OIdent s None), r)
  | TLParen :: r =>
      do x <- parse_value_expr n' false r;
      (match snd x with
       | TRParen :: r2 => Ok (fst x, r2)
       | _ => Err EOther
       end)
  | TSlash :: _ => Err EOther
  | _ => Ok (None, ts)
  end end

with parse_call_expr (n : nat) (single : bool) (ts : list tok) {struct n} : presult :=
  match n with O => Err EOutOfFuel | S n' =>
  do x <- parse_value_term n' single ts;
  match fst x with
  | None => Ok x
  | Some nd => if single then Ok x else call_loop n' nd (snd x)
  end end

with call_loop (n : nat) (nd : op) (ts : list tok) {struct n} : presult :=
  match n with O => Err EOutOfFuel | S n' =>
  match ts with
  | TLParen :: _ =>
      do x <- parse_value_expr n' true ts;
      call_loop n' (OBin KCall nd (fst x)) (snd x)
  | _ => Ok (Some nd, ts)
  end end

(* parse_dot_expr: no `.` token in the modelled alphabet, so it is parse_call_expr *)
with parse_unary_expr (n : nat) (single : bool) (ts : list tok) {struct n} : presult :=
  match n with O => Err EOutOfFuel | S n' =>
  match ts with
  | TExclam :: r =>
      do x <- parse_call_expr n' single r;
      (match fst x with
       | None => Err EOther
       | Some (OValue v) => do b <- v_not_inplace cp v; Ok (Some (OValue b), snd x)
       | Some t => Ok (Some (OUn KNot t), snd x)
       end)
  | TMinus :: r =>
      do x <- parse_call_expr n' single r;
      (match fst x with
       | None => Err EOther
       | Some (OValue v) => do b <- v_neg v; Ok (Some (OValue b), snd x)
       | Some t => Ok (Some (OUn KNeg t), snd x)
       end)
  | _ => parse_call_expr n' single ts
  end end

(* parse_mul_expr, parse_add_expr, parse_logic_expr, parse_and_expr, parse_or_expr *)
with parse_bin (n : nat) (lv : blevel) (single : bool) (ts : list tok) {struct n} : presult :=
  match n with O => Err EOutOfFuel | S n' =>
  do x <- (match lv with
           | LMul => parse_unary_expr n' single ts
           | LAdd => parse_bin n' LMul single ts
           | LLogic => parse_bin n' LAdd single ts
           | LAnd => parse_bin n' LLogic single ts
           | LOr => parse_bin n' LAnd single ts
           end);
  match fst x with
  | None => Ok x
  | Some nd => if single then Ok x else bin_loop n' lv nd (snd x)
  end end

with bin_loop (n : nat) (lv : blevel) (nd : op) (ts : list tok) {struct n} : presult :=
  match n with O => Err EOutOfFuel | S n' =>
  match ts with
  | t :: r =>
      match level_op lv t with
      | Some (k, neg) =>
          do x <- (match lv with
                   | LMul => parse_unary_expr n' false r
                   | LAdd => parse_bin n' LMul false r
                   | LLogic => parse_bin n' LAdd false r
                   | LAnd => parse_bin n' LLogic false r
                   | LOr => parse_bin n' LAnd false r
                   end);
          (match fst x with
           | None => Err EOther                 (* "operator not followed by argument" *)
           | Some rh => bin_loop n' lv (mk_bin k neg nd rh) (snd x)
           end)
      | None => Ok (Some nd, ts)
      end
  | [] => Ok (Some nd, ts)
  end end

with parse_querycolon_expr (n : nat) (single : bool) (ts : list tok) {struct n} : presult :=
  match n with O => Err EOutOfFuel | S n' =>
  do x <- parse_bin n' LOr single ts;
  match fst x with
  | None => Ok x
  | Some nd =>
    if single then Ok x else
    match snd x with
    | TQuery :: r =>
        do y <- parse_bin n' LOr false r;
        (match fst y, snd y with
         | Some a, TColon :: r2 =>
             do z <- parse_bin n' LOr false r2;
             (match fst z with
              | Some b => Ok (Some (OBin KQuery nd (Some (OBin KColon a (Some b)))), snd z)
              | None => Err EOther
              end)
         | _, _ => Err EOther
         end)
    | TKwIf :: r =>
        do y <- parse_bin n' LOr false r;
        (match fst y with
         | None => Err EOther
         | Some c =>
             match snd y with
             | TKwElse :: r2 =>
                 do z <- parse_bin n' LOr false r2;
                 (match fst z with
                  | Some b => Ok (Some (OBin KQuery c (Some (OBin KColon nd (Some b)))), snd z)
                  | None => Err EOther
                  end)
             | r2 => Ok (Some (OBin KQuery c (Some (OBin KColon nd (Some (OValue VVoid))))), r2)
             end
         end)
    | _ => Ok x
    end
  end end

(* parse_comma_expr: a, b, c  =>  CONS(a, CONS(b, CONS(c, -))); a trailing comma before `)`
   leaves CONS(a, -) *)
with parse_comma_expr (n : nat) (single : bool) (ts : list tok) {struct n} : presult :=
  match n with O => Err EOutOfFuel | S n' =>
  do x <- parse_querycolon_expr n' single ts;
  match fst x with
  | None => Ok x
  | Some nd =>
    if single then Ok x else
    match snd x with
    | TComma :: r =>
        do y <- comma_rest n' r;
        Ok (Some (OBin KCons nd (fst y)), snd y)
    | _ => Ok x
    end
  end end

(* after a comma: the chain that becomes the right child of the previous CONS *)
with comma_rest (n : nat) (ts : list tok) {struct n} : presult :=
  match n with O => Err EOutOfFuel | S n' =>
  match ts with
  | TRParen :: _ => Ok (None, ts)
  | TSlash :: _ => Err EOther
  | _ =>
      do x <- parse_querycolon_expr n' false ts;
      (match fst x with
       | None => Err EOther
       | Some e =>
           match snd x with
           | TComma :: r => do y <- comma_rest n' r; Ok (Some (OBin KCons e (fst y)), snd y)
           | r => Ok (Some (OBin KCons e None), r)
           end
       end)
  end end

with parse_lambda_expr (n : nat) (single : bool) (ts : list tok) {struct n} : presult :=
  match n with O => Err EOutOfFuel | S n' =>
  do x <- parse_comma_expr n' single ts;
  match fst x with
  | None => Ok x
  | Some nd =>
    if single then Ok x else
    match snd x with
    | TArrow :: r =>
        do y <- parse_querycolon_expr n' false r;
        (match fst y with
         | Some b => Ok (Some (OBin KLambda nd (Some (OScope b))), snd y)
         | None => Err EOther
         end)
    | _ => Ok x
    end
  end end

with parse_assign_expr (n : nat) (single : bool) (ts : list tok) {struct n} : presult :=
  match n with O => Err EOutOfFuel | S n' =>
  do x <- parse_lambda_expr n' single ts;
  match fst x with
  | None => Ok x
  | Some nd =>
    if single then Ok x else
    match snd x with
    | TAssign :: r =>
        do y <- parse_lambda_expr n' false r;
        (match fst y with
         | Some b => Ok (Some (OBin KDefine nd (Some (OScope b))), snd y)
         | None => Err EOther
         end)
    | _ => Ok x
    end
  end end

(* parse_value_expr: a; b; c  =>  SEQ(a, SEQ(b, c)) *)
with parse_value_expr (n : nat) (single : bool) (ts : list tok) {struct n} : presult :=
  match n with O => Err EOutOfFuel | S n' =>
  do x <- parse_assign_expr n' single ts;
  match fst x with
  | None => Ok x
  | Some nd =>
    if single then Ok x else
    match snd x with
    | TSemi :: r => do y <- seq_rest n' r; Ok (Some (OBin KSeq nd (fst y)), snd y)
    | _ => Ok x
    end
  end end

with seq_rest (n : nat) (ts : list tok) {struct n} : presult :=
  match n with O => Err EOutOfFuel | S n' =>
  do x <- parse_assign_expr n' false ts;
  match snd x with
  | TSemi :: r =>
      (match fst x with
       | None => Err EOther
       | Some e => do y <- seq_rest n' r; Ok (Some (OBin KSeq e (fst y)), snd y)
       end)
  | _ => Ok x
  end end.

(* expr_t::parser_t::parse: what follows the expression is silently dropped *)
Definition parse (n : nat) (ts : list tok) : res (option op) :=
  do x <- parse_value_expr n false ts; Ok (fst x).

End Parser.

(* fuel that suffices for a token list (14 rungs per token, generously) *)
Definition parse_fuel (ts : list tok) : nat := (40 * (length ts + 2))%nat.

(* ------------------------------------------------------------------ print *)
(* op_t::print to the token level.  Operators other than O_CALL, O_DEFINE and O_COLON are
   wrapped in parentheses, so a conditional prints `(c ? a : b)` (before /repo b45ea7d the
   O_COLON child was parenthesised too and the text `(c ? (a : b))` did not parse: F6).
   NULL_VALUE dumps as the word `null`, which is the name of a built-in returning NULL_VALUE. *)

Definition bin_tok (k : kind2) : list tok :=
  match k with
  | KMul => [TStar] | KDiv => [TSlash] | KAdd => [TPlus] | KSub => [TMinus]
  | KEq => [TEqual] | KLt => [TLess] | KLte => [TLessEq] | KGt => [TGreater] | KGte => [TGreaterEq]
  | KAnd => [TAnd] | KOr => [TOr] | KQuery => [TQuery] | KColon => [TColon]
  | KCons => [TComma] | KSeq => [TSemi] | KDefine => [TAssign] | KLambda => [TArrow]
  | KCall => []
  end.

Definition null_word : str := [110; 117; 108; 108].

Definition is_cons (o : op) : bool := match o with OBin KCons _ _ => true | _ => false end.

Definition is_seq (o : op) : bool := match o with OBin KSeq _ _ => true | _ => false end.

(* (text of the node, text of the node without the parentheses print_cons / print_seq
   leave out when they continue a chain) *)
Fixpoint pp (o : op) : list tok * list tok :=
  match o with
  | OValue VVoid => ([TIdent null_word], [TIdent null_word])
  | OValue v => ([TVal v], [TVal v])
  | OIdent s _ => ([TIdent s], [TIdent s])
  | OPlug => ([], [])
  | OFunc _ => ([], [])
  | OScope b => (fst (pp b), fst (pp b))
  | OUn KNot l => let t := TLParen :: TExclam :: fst (pp l) ++ [TRParen] in (t, t)
  | OUn KNeg l => let t := TLParen :: TMinus :: fst (pp l) ++ [TRParen] in (t, t)
  | OBin KCall l r =>
      let t := fst (pp l) ++
               match r with
               | None => [TLParen; TRParen]
               | Some a => if is_cons a then fst (pp a) else TLParen :: fst (pp a) ++ [TRParen]
               end in (t, t)
  | OBin KDefine l r =>
      let t := fst (pp l) ++ TAssign :: match r with Some b => fst (pp b) | None => [] end in (t, t)
  | OBin KCons l r =>
      let inner := fst (pp l) ++
                   match r with
                   | None => []
                   | Some x => TComma :: (if is_cons x then snd (pp x) else fst (pp x))
                   end in
      (TLParen :: inner ++ [TRParen], inner)
  | OBin KSeq l r =>
      let inner := fst (pp l) ++
                   match r with
                   | None => []
                   | Some x => TSemi :: (if is_seq x then snd (pp x) else fst (pp x))
                   end in
      (TLParen :: inner ++ [TRParen], inner)
  | OBin KColon l r =>
      let t := fst (pp l) ++ TColon :: match r with Some b => fst (pp b) | None => [] end in (t, t)
  | OBin k l r =>
      let t := TLParen :: fst (pp l) ++ bin_tok k ++
               match r with Some b => fst (pp b) | None => [] end ++ [TRParen] in (t, t)
  end.

Definition print (o : op) : list tok := fst (pp o).

(* What the text of a printed literal lexes back to: value_t::dump writes an amount
   between braces, and `{..}` is parsed PARSE_NO_MIGRATE: same quantity, as many decimals
   as were displayed, BIGINT_KEEP_PREC set. *)
Definition display_prec (cp : comm -> Z) (a : amount) : Z :=
  match acomm a with
  | Some c => if akeep a then Z.max (aprec a) (cp c) else cp c     (* amount.cc:577-589 *)
  | None => aprec a
  end.

(* stream_out_mpq: trailing zeros beyond zeros_prec (the commodity's precision, 0 without a
   commodity) are removed.  N is the scaled integer printed at p decimals. *)
Fixpoint trim_zeros (fuel : nat) (N p zp : Z) : Z * Z :=
  match fuel with
  | O => (N, p)
  | S f => if (zp <? p) && (N mod 10 =? 0) then trim_zeros f (N / 10) (p - 1) zp else (N, p)
  end.

(* (scaled integer, decimals) of the text amount_t::print writes *)
Definition amt_digits (cp : comm -> Z) (a : amount) : Z * Z :=
  let p := display_prec cp a in
  let q := Qred (aq a) in
  (* a quantity with at most p decimals prints exactly; otherwise the MPFR path of Base/Round.v *)
  let N := if (Qnum q * 10 ^ p) mod Zpos (Qden q) =? 0 then Qnum q * 10 ^ p / Zpos (Qden q)
           else print_scaled (Qnum q) (Zpos (Qden q)) p in
  trim_zeros (Z.to_nat p) N p (match acomm a with Some c => cp c | None => 0 end).

Definition q_of_scaled (N p : Z) : Q :=
  match (10 ^ p)%Z with Zpos d => Qred (Qmake N d) | _ => inject_Z N end.

Definition relit_value (cp : comm -> Z) (v : value) : value :=
  match v with
  | VAmt a => let d := amt_digits cp a in
              VAmt (mkAmt (q_of_scaled (fst d) (snd d)) (snd d) true (acomm a))
  | _ => v
  end.

Definition relit_tok (cp : comm -> Z) (t : tok) : tok :=
  match t with TVal v => TVal (relit_value cp v) | _ => t end.

Fixpoint relit (cp : comm -> Z) (o : op) : op :=
  match o with
  | OValue v => OValue (relit_value cp v)
  | OIdent s d => OIdent s d
  | OPlug => OPlug
  | OFunc f => OFunc f
  | OScope b => OScope (relit cp b)
  | OUn k l => OUn k (relit cp l)
  | OBin k l r => OBin k (relit cp l) (match r with Some x => Some (relit cp x) | None => None end)
  end.

(* ------------------------------------------------------------------ calc *)

Definition symtab := list (str * op).        (* session symbols, newest first *)
Definition frame := list (str * xval).       (* lambda arguments in scope, innermost first *)

Fixpoint lookup {A} (s : str) (l : list (str * A)) : option A :=
  match l with
  | [] => None
  | (k, x) :: l' => if str_eqb k s then Some x else lookup s l'
  end.

Definition to_int_name : str := [116; 111; 95; 105; 110; 116].
Definition abs_name : str := [97; 98; 115].
Definition builtin_of (s : str) : option builtin :=
  if str_eqb s to_int_name then Some BToInt
  else if str_eqb s abs_name then Some BAbs
  else if str_eqb s null_word then Some BNull else None.

(* parameter names of a lambda: a single IDENT or a CONS chain of IDENTs *)
Fixpoint param_names (fuel : nat) (o : option op) : res (list str) :=
  match fuel with O => Err EOutOfFuel | S f =>
  match o with
  | None => Ok []
  | Some OPlug => Ok []                         (* f() = ..: no parameter list *)
  | Some (OIdent s _) => Ok [s]
  | Some (OBin KCons (OIdent s _) r) => do l <- param_names f r; Ok (s :: l)
  | Some _ => Err EOther
  end end.

(* split_cons_expr: the argument expressions of a call *)
Fixpoint call_args (fuel : nat) (o : option op) : list op :=
  match fuel with O => [] | S f =>
  match o with
  | None => []
  | Some (OBin KCons l r) => l :: call_args f r
  | Some x => [x]
  end end.

Definition the_value (x : xval) : res value :=
  match x with XV v => Ok v | XFun _ => Err EBadOp end.

Definition x_bool (b : bool) : xval := XV (VBool b).

(* the INTEGER value of report_t::fn_to_int for an integral amount (the only arguments the
   generators write); other arguments are not modelled *)
Definition to_int_value (v : value) : res value :=
  match v with
  | VInt z => Ok (VInt z)
  | VAmt a => if Zpos (Qden (Qred (aq a))) =? 1 then Ok (VInt (Qnum (Qred (aq a)))) else Err EOther
  | _ => Err EOther
  end.

(* BALANCE < INTEGER/AMOUNT walks the unordered_map and stops at the first entry that is not
   below the operand; an entry of another commodity raises an error.  With both kinds of entry
   present the outcome depends on the hash-table order: the model answers with this marker
   (no error class of the C++ maps to it) and the correspondence check skips the case. *)
Definition E_order_dependent : err := ETimelogNoIn.

Definition is_ok_false (r : res bool) : bool := match r with Ok false => true | _ => false end.
Definition is_err {A} (r : res A) : bool := match r with Err _ => true | _ => false end.

Definition x_ltb (v w : value) : res bool :=
  match v, w with
  | VBal b, VInt _ | VBal b, VAmt _ =>
      let rs := map (v_gt_amt w) b in
      if existsb is_ok_false rs && existsb is_err rs then Err E_order_dependent
      else v_ltb v w
  | _, _ => v_ltb v w
  end.

Definition arith (ord : bool) (cp : comm -> Z) (k : kind2) (v w : value) : res value :=
  match k with
  | KAdd => v_add ord v w
  | KSub => v_sub ord v w
  | KMul => v_mul cp v w
  | KDiv => v_div cp v w
  | KEq => do b <- v_eqb v w; Ok (VBool b)
  | KLt => do b <- x_ltb v w; Ok (VBool b)
  | KGt => do b <- x_ltb w v; Ok (VBool b)
  | KLte => do b <- x_ltb w v; Ok (VBool (negb b))
  | KGte => do b <- x_ltb v w; Ok (VBool (negb b))
  | _ => Err EOther
  end.

Definition is_arith (k : kind2) : bool :=
  match k with
  | KAdd | KSub | KMul | KDiv | KEq | KLt | KGt | KLte | KGte => true
  | _ => false
  end.

Section Calc.
Variable ord : bool.
Variable cp : comm -> Z.

Fixpoint bind_params (ps : list str) (args : list xval) : res frame :=
  match ps with
  | [] => match args with [] => Ok [] | _ => Err EOther end      (* "Too few arguments" *)
  | p :: ps' =>
      match args with
      | [] => do f <- bind_params ps' []; Ok ((p, XV VVoid) :: f)
      | a :: args' => do f <- bind_params ps' args'; Ok ((p, a) :: f)
      end
  end.

(* args_scope.define: a later parameter of the same name replaces the earlier one *)
Definition frame_of (b : frame) : frame := rev b.

Fixpoint calc (n : nat) (tbl : symtab) (sc : frame) (o : op) {struct n} : res xval :=
  match n with O => Err EOutOfFuel | S n' =>
  match o with
  | OValue v => Ok (XV v)
  | OBin KDefine _ _ => Ok (XV VVoid)
  | OIdent s d =>
      (* lookup_ident *)
      match (match d with Some OPlug => None | x => x end) with
      | Some def => calc n' tbl sc def
      | None =>
          match lookup s sc with
          | Some x => Ok x
          | None =>
              match lookup s tbl with
              | Some def => calc n' tbl sc def
              | None => Err EOther                   (* Unknown identifier *)
              end
          end
      end
  | OPlug => Err EOther
  | OFunc BNull => Ok (XV VVoid)             (* fn_null takes no argument *)
  | OFunc _ => Err EOther
  | OScope b => calc n' tbl sc b
  | OBin KLambda _ _ => Ok (XFun o)
  | OBin KCall f a =>
      do fn <- find_def n' tbl sc f;
      (match fn with
       | OFunc BNull => Ok (XV VVoid)
       | OFunc b =>
           match call_args n' a with
           | x :: _ =>
               do xv <- calc n' tbl sc x;
               do v <- the_value xv;
               (match b with
                | BToInt => do r <- to_int_value v; Ok (XV r)
                | BAbs => do r <- v_abs ord v; Ok (XV r)
                | BNull => Ok (XV VVoid)
                end)
           | [] => Err EOther
           end
       | OBin KLambda ps body =>
           do names <- param_names n' (Some ps);
           do args <- calc_list n' tbl sc (firstn (length names) (call_args n' a));
           do fr <- bind_params names args;
           if Nat.ltb (length names) (length (call_args n' a)) then Err EOther else
           (match body with
            | Some (OScope b) => calc n' tbl (frame_of fr ++ sc) b
            | Some b => calc n' [] (frame_of fr) b
            | None => Err EOther
            end)
       | _ => Err EOther
       end)
  | OUn KNeg l => do x <- calc n' tbl sc l; do v <- the_value x; do r <- v_neg v; Ok (XV r)
  | OUn KNot l => do x <- calc n' tbl sc l; Ok (x_bool (negb (x_truth cp x)))
  | OBin KAnd l (Some r) =>
      do x <- calc n' tbl sc l;
      if x_truth cp x then calc n' tbl sc r else Ok (x_bool false)
  | OBin KOr l (Some r) =>
      do x <- calc n' tbl sc l;
      if x_truth cp x then Ok x else calc n' tbl sc r
  | OBin KQuery c (Some (OBin KColon a (Some b))) =>
      do x <- calc n' tbl sc c;
      if x_truth cp x then calc n' tbl sc a else calc n' tbl sc b
  | OBin KCons l None => calc n' tbl sc l           (* calc_cons without a right side *)
  | OBin KSeq l r =>
      do x <- calc n' tbl sc l;
      (match r with
       | None => Ok x
       | Some r' => calc n' tbl sc r'        (* a nested SEQ continues the chain *)
       end)
  | OBin k l (Some r) =>
      if is_arith k then
        do x <- calc n' tbl sc l;
        do y <- calc n' tbl sc r;
        do v <- the_value x;
        do w <- the_value y;
        do z <- arith ord cp k v w;
        Ok (XV z)
      else Err EOther
  | OBin _ _ None => Err EOther
  end end

with calc_list (n : nat) (tbl : symtab) (sc : frame) (l : list op) {struct n} : res (list xval) :=
  match n with O => Err EOutOfFuel | S n' =>
  match l with
  | [] => Ok []
  | x :: l' => do v <- calc n' tbl sc x; do vs <- calc_list n' tbl sc l'; Ok (v :: vs)
  end end

(* find_definition (op.cc:438-472) *)
with find_def (n : nat) (tbl : symtab) (sc : frame) (o : op) {struct n} : res op :=
  match n with O => Err EOutOfFuel | S n' =>
  match o with
  | OFunc _ => Ok o
  | OBin KLambda _ _ => Ok o
  | OIdent s d =>
      match (match d with Some OPlug => None | x => x end) with
      | Some def => find_def n' tbl sc def
      | None =>
          match lookup s sc with
          | Some (XFun f) => find_def n' tbl sc f
          | Some (XV _) => Err EBadOp              (* Cannot call .. as a function *)
          | None =>
              match lookup s tbl with
              | Some def => find_def n' tbl sc def
              | None => Err EOther
              end
          end
      end
  | OValue _ => Err EBadOp
  | _ =>
      do x <- calc n' tbl sc o;
      (match x with
       | XFun f => find_def n' tbl sc f
       | XV _ => Err EBadOp
       end)
  end end.

End Calc.

(* ------------------------------------------------------------------ compile *)
(* op_t::compile.  All scopes on the compile-time chain receive every definition
   (bind_scope_t::define writes to parent and grandchild), and the innermost one is consulted
   first, so the chain behaves as ONE table, newest definition first: `tbl`.  `ps` are the
   lambda parameters in scope (param_scope chain).  The boolean result is "a new node was
   made" (the C++ compares pointers), which decides whether constants are folded. *)

Section Compile.
Variable ord : bool.
Variable cp : comm -> Z.

Definition is_value (o : op) : bool := match o with OValue _ => true | _ => false end.
(* the two branches of a conditional are not an operation on their own (op.cc:216-219) *)
Definition is_colon (k : kind2) : bool := match k with KColon => true | _ => false end.

Definition in_names (s : str) (ps : list str) : bool := existsb (str_eqb s) ps.

Definition wrap_xval (x : xval) : res op :=
  match x with XV v => Ok (OValue v) | XFun _ => Err EOther end.

Record cres := mkC { c_op : op; c_changed : bool; c_tbl : symtab }.

Fixpoint compile (n : nat) (tbl : symtab) (ps : list str) (o : op) {struct n} : res cres :=
  match n with O => Err EOutOfFuel | S n' =>
  match o with
  | OIdent s d =>
      let def := if in_names s ps then Some OPlug
                 else match builtin_of s with
                      | Some b => Some (OFunc b)
                      | None => lookup s tbl
                      end in
      (match def with
       | Some x => Ok (mkC (OIdent s (Some x)) true tbl)
       | None => Ok (mkC o (match d with Some _ => true | None => false end) tbl)
       end)
  | OValue _ | OPlug | OFunc _ => Ok (mkC o false tbl)
  | OScope b =>
      do c <- compile n' tbl ps b;
      if c_changed c then
        (if is_value (c_op c)
         then do x <- calc ord cp n' (c_tbl c) [] (OScope (c_op c));
              do w <- wrap_xval x; Ok (mkC w true (c_tbl c))
         else Ok (mkC (OScope (c_op c)) true (c_tbl c)))
      else Ok (mkC o false (c_tbl c))
  | OBin KDefine l r =>
      match l, r with
      | OIdent s _, Some body =>
          do c <- compile n' tbl ps body;
          Ok (mkC (OValue VVoid) true ((s, c_op c) :: c_tbl c))
      | OBin KCall (OIdent f _) params, Some body =>
          do c <- compile n' tbl ps (OBin KLambda
                                       (match params with Some p => p | None => OPlug end)
                                       (Some body));
          Ok (mkC (OValue VVoid) true ((f, c_op c) :: c_tbl c))
      | _, _ => Err EOther                          (* Invalid function definition *)
      end
  | OBin KLambda l r =>
      match r with
      | None => Err EOther
      | Some body =>
          do names <- param_names n' (Some l);
          do c <- compile n' tbl (names ++ ps) body;
          if c_changed c then Ok (mkC (OBin KLambda l (Some (c_op c))) true (c_tbl c))
          else Ok (mkC o false (c_tbl c))
      end
  | OUn k l =>
      do c <- compile n' tbl ps l;
      if c_changed c then
        (if is_value (c_op c)
         then do x <- calc ord cp n' (c_tbl c) [] (OUn k (c_op c));
              do w <- wrap_xval x; Ok (mkC w true (c_tbl c))
         else Ok (mkC (OUn k (c_op c)) true (c_tbl c)))
      else Ok (mkC o false (c_tbl c))
  | OBin k l r =>
      do c1 <- compile n' tbl ps l;
      (match r with
       | None =>
           if c_changed c1 then
             (if is_value (c_op c1)
              then do x <- calc ord cp n' (c_tbl c1) [] (OBin k (c_op c1) None);
                   do w <- wrap_xval x; Ok (mkC w true (c_tbl c1))
              else Ok (mkC (OBin k (c_op c1) None) true (c_tbl c1)))
           else Ok (mkC o false (c_tbl c1))
       | Some r' =>
           do c2 <- compile n' (c_tbl c1) ps r';
           if c_changed c1 || c_changed c2 then
             (if negb (is_colon k) && is_value (c_op c1) && is_value (c_op c2)
              then do x <- calc ord cp n' (c_tbl c2) [] (OBin k (c_op c1) (Some (c_op c2)));
                   do w <- wrap_xval x; Ok (mkC w true (c_tbl c2))
              else Ok (mkC (OBin k (c_op c1) (Some (c_op c2))) true (c_tbl c2)))
           else Ok (mkC o false (c_tbl c2))
       end)
  end end.

End Compile.

(* expr_t::calc: compile in the session scope, then calc *)
Definition eval (ord : bool) (cp : comm -> Z) (n : nat) (tbl : symtab) (o : op) : res (xval * symtab) :=
  do c <- compile ord cp n tbl [] o;
  do x <- calc ord cp n (c_tbl c) [] (c_op c);
  Ok (x, c_tbl c).

(* text -> value: parse, compile, calc (what `eval TEXT` does) *)
Definition run (ord : bool) (cp : comm -> Z) (tbl : symtab) (ts : list tok) : res (option xval) :=
  do t <- parse cp (parse_fuel ts) ts;
  match t with
  | None => Ok None
  | Some o => do r <- eval ord cp (1000 + 50 * length ts)%nat tbl o; Ok (Some (fst r))
  end.
