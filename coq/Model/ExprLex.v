(* Executable model of the expression tokenizer, token.cc:
     reserved_tok / word_prefix   expr_t::token_t::parse_reserved_word (token.cc:39-129): up to
                                  src_token_word_max LETTERS are read and compared with the word table
                                  (regenerated from the source: Gen/TokenWords.v) - so `falsely` is the
                                  word `false` followed by the identifier `ly`
     ident_of                     parse_ident (token.cc:131-141): letters and `_`, at most 255
     default_tok                  the `default:` arm of next (token.cc:382-452): reserved word, else
                                  amount_t::parse with PARSE_SOFT_FAIL (Model/AmountText.v: split_amount +
                                  scan_quantity, the streaming reader of C04), else an identifier
     next_tok                     expr_t::token_t::next (token.cc:143-455), one token; the flag is
                                  PARSE_OP_CONTEXT
     ctx_after                    which context parser.cc asks the NEXT token in: every read after a complete
                                  term (VALUE, IDENT, `)`) passes tflags.plus_flags(PARSE_OP_CONTEXT)
                                  (parser.cc:86,111,190,220,252,321,348,374,445,482,506,532); every read after an
                                  operator, `(`, `,` or at the start passes tflags (parser.cc:44,136,455)
     lex_prefix                   the tokens up to the first failing read, and that failure: ledger reads
                                  tokens on demand, and parser_t::parse (parser.cc:554-570) silently drops what
                                  follows a complete expression - a failure behind the point where the parser
                                  stops is never met
     parse_text                   parser_t::parse on the TEXT
   Not modelled (each is a lexing failure here, never generated): string literals '..' "..", date
   literals [..], regular-expression masks (`/` in terminal context with a closing `/`), `.`, =~ and !~,
   annotations inside {..}, commodities with the decimal-comma style, backslash escapes. *)
From LedgerV Require Import Base.Prelude Base.Round Model.Amount Model.AmountText Model.Expr Gen.TokenWords.
Local Open Scope Z_scope.

Definition is_alpha (c : Z) : bool := ((65 <=? c) && (c <=? 90)) || ((97 <=? c) && (c <=? 122)).
Definition is_ident_char (c : Z) : bool := is_alpha c || (c =? 95).

(* READ_INTO_(in, buf, n, c, length, cond): at most n characters satisfying cond *)
Fixpoint take_max (n : nat) (f : Z -> bool) (s : str) : str * str :=
  match n, s with
  | S n', c :: s' => if f c then let (a, b) := take_max n' f s' in (c :: a, b) else ([], s)
  | _, _ => ([], s)
  end.

Definition kind_tok (k : Z) : option tok :=
  if k =? 1 then Some TAnd else if k =? 2 then Some TKwDiv else if k =? 3 then Some TKwElse
  else if k =? 4 then Some (TVal (VBool false)) else if k =? 5 then Some TKwIf
  else if k =? 6 then Some TOr else if k =? 7 then Some TExclam
  else if k =? 8 then Some (TVal (VBool true)) else None.

Fixpoint word_kind (w : str) (tbl : list (str * Z)) : option tok :=
  match tbl with
  | [] => None
  | (x, k) :: tbl' => if str_eqb w x then kind_tok k else word_kind w tbl'
  end.

Definition word_prefix (s : str) : str * str := take_max (Z.to_nat src_token_word_max) is_alpha s.

(* parse_reserved_word: Some = result 1 *)
Definition reserved_tok (s : str) : option (tok * str) :=
  match s with
  | [] => None
  | c :: _ =>
      if existsb (Z.eqb c) src_token_word_first then
        let (w, r) := word_prefix s in
        match word_kind w src_token_words with Some t => Some (t, r) | None => None end
      else None
  end.

Definition ident_of (s : str) : str * str := take_max 255 is_ident_char s.

(* amount_t::parse leaves quantity = n / 10^prec; PARSE_NO_MIGRATE sets keep_precision *)
Definition lit_tok (keep : bool) (pa : parsed_amount) : tok :=
  TVal (VAmt (mkAmt (Qred (Qmake (pa_num pa) (Z.to_pos (10 ^ pa_prec pa)))) (pa_prec pa) keep
                    (match pa_sym pa with [] => None | sy => Some sy end))).

Definition default_tok (s : str) : res (tok * str) :=
  match reserved_tok s with
  | Some x => Ok x
  | None =>
      match split_amount s with
      | Ok _ =>                         (* a quantity was read: any later failure is thrown *)
          do pa <- parse_amount_text false s; Ok (lit_tok false pa, pa_rest pa)
      | Err _ =>                        (* soft failure: rewind, parse_ident *)
          match s with
          | c :: _ => if is_ident_char c then let (w, r) := ident_of s in Ok (TIdent w, r) else Err EOther
          | [] => Err EOther
          end
      end
  end.

(* where the stream stands after amount_t::parse inside {..}: parse_symbol (commodity.cc:349-352) and
   annotation_t::parse rewind over the white space they skipped when they find nothing, so after a quantity
   without commodity the stream stands right behind the last digit *)
Definition brace_rest (s : str) (ap : amount_parts) : str :=
  match ap_sym ap with
  | [] =>
      let s1 := skip_ws s in
      let s2 := match s1 with 45 :: t => skip_ws t | _ => s1 end in
      match s2 with
      | c :: _ => if is_digit c then snd (read_quantity s2) else ap_rest ap
      | [] => ap_rest ap
      end
  | _ => ap_rest ap
  end.

(* one character c was read; c2 following it makes the two-character token t2 *)
Definition two (c2 : Z) (t2 t1 : tok) (r : str) : res (option (tok * str)) :=
  match r with
  | c' :: r' => if c' =? c2 then Ok (Some (t2, r')) else Ok (Some (t1, r))
  | [] => Ok (Some (t1, r))
  end.

Definition next_tok (opctx : bool) (s0 : str) : res (option (tok * str)) :=
  match skip_ws s0 with
  | [] => Ok None
  | c :: r =>
      if c =? 38 then two 38 TAnd TAnd r                        (* & && *)
      else if c =? 124 then two 124 TOr TOr r                   (* | || *)
      else if c =? 40 then Ok (Some (TLParen, r))
      else if c =? 41 then Ok (Some (TRParen, r))
      else if c =? 91 then Err EOther                           (* [date]: not modelled *)
      else if (c =? 39) || (c =? 34) then Err EOther            (* strings: not modelled *)
      else if c =? 123 then                                     (* {amount} *)
        do ap <- split_amount r;
        do pa <- parse_amount_text false r;
        match brace_rest r ap with
        | 125 :: r' => Ok (Some (lit_tok true pa, r'))
        | _ => Err EOther                (* `{8 }`: no white space is skipped before the `}` *)
        end
      else if c =? 33 then                                      (* ! != !~ *)
        match r with
        | 61 :: r' => Ok (Some (TNequal, r'))
        | 126 :: _ => Err EOther
        | _ => Ok (Some (TExclam, r))
        end
      else if c =? 45 then two 62 TArrow TMinus r               (* - -> *)
      else if c =? 43 then Ok (Some (TPlus, r))
      else if c =? 42 then Ok (Some (TStar, r))
      else if c =? 63 then Ok (Some (TQuery, r))
      else if c =? 58 then Ok (Some (TColon, r))
      else if c =? 47 then                                      (* / *)
        if opctx then Ok (Some (TSlash, r))
        else Err EOther                 (* terminal context: a mask up to the next `/`, or "Missing '/'" *)
      else if c =? 61 then                                      (* = == =~ *)
        match r with
        | 126 :: _ => Err EOther
        | 61 :: r' => Ok (Some (TEqual, r'))
        | _ => Ok (Some (TAssign, r))
        end
      else if c =? 60 then two 61 TLessEq TLess r
      else if c =? 62 then two 61 TGreaterEq TGreater r
      else if c =? 46 then Err EOther                           (* DOT: not modelled *)
      else if c =? 44 then Ok (Some (TComma, r))
      else if c =? 59 then Ok (Some (TSemi, r))
      else do x <- default_tok (c :: r); Ok (Some x)
  end.

Definition ctx_after (t : tok) : bool :=
  match t with TVal _ | TIdent _ | TRParen => true | _ => false end.

Fixpoint lex_fuel (n : nat) (opctx : bool) (s : str) : list tok * option err :=
  match n with
  | O => ([], Some EOutOfFuel)
  | S n' =>
      match next_tok opctx s with
      | Err e => ([], Some e)
      | Ok None => ([], None)
      | Ok (Some (t, r)) => let (ts, e) := lex_fuel n' (ctx_after t) r in (t :: ts, e)
      end
  end.

(* every token takes at least one character: fuel = length of the text + 1 *)
Definition lex_prefix (s : str) : list tok * option err := lex_fuel (S (length s)) false s.

Definition lex (s : str) : res (list tok) :=
  match lex_prefix s with (ts, None) => Ok ts | (_, Some e) => Err e end.

(* parser_t::parse on the text: a failing read is met only if the parser asks for that token, i.e. if
   it consumed every token before it *)
Definition parse_text (cp : comm -> Z) (s : str) : res (option op) :=
  let (ts, e) := lex_prefix s in
  do x <- parse_value_expr cp (parse_fuel ts) false ts;
  match e, snd x with
  | Some e', [] => Err e'
  | _, _ => Ok (fst x)
  end.

(* the tokens the parser saw (for compile/calc of the same text) *)
Definition text_tokens (s : str) : list tok := fst (lex_prefix s).
