(* The date of a subtotal row: subtotal_posts::report_subtotal (src/filters.cc) walks the postings gathered for a group
   and keeps the earliest and the latest date it has seen; the earliest dates the row (and orders the rows under
   --sort date), the latest is shown in its label.  Dates are integers that order like the calendar. *)
From LedgerV Require Import Base.Prelude.
Local Open Scope Z_scope.

(*  if (! range_start || date < *range_start) range_start = date;
    if (! range_finish || date > *range_finish) range_finish = date;  *)
Definition range_step (r : option (Z * Z)) (d : Z) : option (Z * Z) :=
  match r with
  | None => Some (d, d)
  | Some (s, f) => Some ((if d <? s then d else s), (if f <? d then d else f))
  end.

Definition date_range (ds : list Z) : option (Z * Z) := fold_left range_step ds None.

(* the groups of --by-payee (and of any report that subtotals per label): the dates of the postings carrying the label *)
Fixpoint dates_of (label : str) (ps : list (str * Z)) : list Z :=
  match ps with
  | [] => []
  | (l, d) :: ps' => if str_eqb l label then d :: dates_of label ps' else dates_of label ps'
  end.

Definition group_range (label : str) (ps : list (str * Z)) : option (Z * Z) := date_range (dates_of label ps).
