(* How the postings of the journal reach account_t::posts (property C05).
     xact_base_t::finalize, "Add a pointer to each posting to their related accounts"   xact.cc:411-435
     account_t::add_post                                                              account.cc:128-153
     account_t::add_deferred_post / apply_deferred_posts                               account.cc:155-183
     item_t::id (the UUID tag, else the sequence number as decimal text)               item.h:137-145
     the call master->apply_deferred_posts() at the end of the parse                   textual.cc:2165
   The register walks xact->posts (the journal in file order: `map jp_post js` below); the balance
   report sums account->posts (account_t::amount, Model/Totals.v `own`).  A posting written with
   its account in angle brackets (POST_DEFERRED) is NOT handed to account_t::add_post by finalize:
   it is remembered in the account's map  id -> list of postings  and appended to account->posts
   when the whole file has been read.  `account_view js` is the journal as the accounts see it;
   the driver evaluates every balance quantity on it and every register quantity on the file order.
   The three facts about the source the functions branch on are regenerated on every run
   (Gen/DeferredPosts.v). *)
From LedgerV Require Import Base.Prelude Base.Round Model.Amount Model.Totals Gen.DeferredPosts.
Local Open Scope Z_scope.

Record jpost : Type := mkJpost {
  jp_post     : posting;
  jp_deferred : bool;          (* POST_DEFERRED: the account was written <Account> *)
  jp_id       : str            (* xact->id(): the UUID tag of the transaction, else its sequence number *)
}.

(* deferred_posts_map_t = std::map<string, posts_list>: an association list kept in key order *)
Definition dmap := list (str * list jpost).

(* account_t::add_deferred_post(uuid, post):
     i = find(uuid); if (i == end) { lst = [post]; insert(uuid, lst) } else i->second.push_back(post) *)
Fixpoint add_deferred (id : str) (p : jpost) (m : dmap) : dmap :=
  match m with
  | [] => [(id, if src_deferred_new_id_keeps_post then [p] else [])]
  | (k, l) :: m' =>
      match str_compare id k with
      | Eq => (k, if src_deferred_known_id_appends then l ++ [p] else l) :: m'
      | Lt => (id, if src_deferred_new_id_keeps_post then [p] else []) :: m
      | Gt => (k, l) :: add_deferred id p m'
      end
  end.

(* one account while the file is read: posts (add_post pushes back) and the deferred map *)
Record acct_state : Type := mkAcct { as_posts : list jpost; as_deferred : dmap }.

(* the branch of finalize for one posting of this account *)
Definition finalize_post (s : acct_state) (j : jpost) : acct_state :=
  if jp_deferred j && src_finalize_defers_by_xact_id
  then mkAcct (as_posts s) (add_deferred (jp_id j) j (as_deferred s))
  else mkAcct (as_posts s ++ [j]) (as_deferred s).

(* account_t::apply_deferred_posts for this account: every list of the map, in key order *)
Definition apply_deferred (s : acct_state) : list jpost :=
  as_posts s ++ (if src_deferred_apply_adds_every_post then flat_map snd (as_deferred s) else []).

Definition to_acct (a : path) (j : jpost) : bool := path_eqb (p_acct (jp_post j)) a.

(* account->posts of account a when the reports start *)
Definition acct_final (a : path) (js : list jpost) : list jpost :=
  apply_deferred (fold_left finalize_post (filter (to_acct a) js) (mkAcct [] [])).

Definition jaccts (js : list jpost) : list path :=
  nodup path_dec (map (fun j => p_acct (jp_post j)) js).

(* the postings of the journal as the accounts hold them, account by account *)
Definition account_view (js : list jpost) : list posting :=
  flat_map (fun a => map jp_post (acct_final a js)) (jaccts js).

(* the balance of account a over what reached the accounts / the register over the file *)
Definition bal_total_of (ord : bool) (o : opts) (js : list jpost) (a : path) : res value :=
  total_of ord o (account_view js) a.

Definition reg_rows_of (ord : bool) (o : opts) (js : list jpost) : res (list row) :=
  reg_rows ord o (map jp_post js).
