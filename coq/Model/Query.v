(* Executable model of the command-line query lexer and parser (query.cc:50-548, query.h).
   Transcribed branch by branch:
   - lexer state: the argument list from `begin` on (head = the argument being read), the unread
     rest of that argument (arg_i .. arg_end), whether arg_i is still at the argument's first
     byte (the `=` rule, query.cc:140), consume_whitespace, consume_next_arg, multiple_args,
     token_cache (UNKNOWN = empty);
   - next_token / push_token / peek_token;
   - parse_query_term / parse_unary_expr / parse_and_expr / parse_or_expr / parse_query_expr.
   The C++ recursion is mirrored with fuel (the nesting depth and the loop counts are bounded
   by the number of input bytes; `parse` supplies that bound).
   `ext` stands for the value-expression parser that `expr ARG` hands ARG to (expr_t(string),
   property C15's subject); it is a parameter of the model.
   Out of the fragment: show / only / bold / for / since / until sections (the model answers
   Err EOther when one follows the limit predicate), empty arguments and NUL bytes.
   Definitions only; proofs are in Proofs/QueryProofs.v. *)
From LedgerV Require Import Base.Prelude Model.Filter.
Local Open Scope Z_scope.

Inductive tok : Type :=
| TUnknown | TLParen | TRParen | TNot | TAnd | TOr | TEq
| TCode | TPayee | TNote | TAccount | TMeta | TExpr
| TShow | TOnly | TBold | TFor | TSince | TUntil
| TTerm (s : str) | TEnd.

Record lexst : Type := mkL {
  l_args  : list str;   (* [begin, end): head is the current argument *)
  l_cur   : str;        (* [arg_i, arg_end) *)
  l_pos0  : bool;       (* arg_i is at the first byte of the argument *)
  l_cws   : bool;       (* consume_whitespace *)
  l_cna   : bool;       (* consume_next_arg *)
  l_multi : bool;       (* multiple_args *)
  l_cache : tok         (* token_cache; TUnknown = empty *)
}.

Definition init_lex (multi : bool) (argv : list str) : lexst :=
  mkL argv (match argv with a :: _ => a | [] => [] end) true false false multi TUnknown.

Definition set_cur (st : lexst) (cur : str) : lexst :=
  mkL (l_args st) cur false (l_cws st) (l_cna st) (l_multi st) (l_cache st).
Definition set_cws (st : lexst) (b : bool) : lexst :=
  mkL (l_args st) (l_cur st) (l_pos0 st) b (l_cna st) (l_multi st) (l_cache st).
Definition set_cna (st : lexst) (b : bool) : lexst :=
  mkL (l_args st) (l_cur st) (l_pos0 st) (l_cws st) b (l_multi st) (l_cache st).
Definition set_cache (st : lexst) (t : tok) : lexst :=
  mkL (l_args st) (l_cur st) (l_pos0 st) (l_cws st) (l_cna st) (l_multi st) t.
Definition set_arg (st : lexst) (args : list str) (cur : str) : lexst :=
  mkL args cur true (l_cws st) (l_cna st) (l_multi st) (l_cache st).

Definition is_expr_ctx (ctx : tok) : bool := match ctx with TExpr => true | _ => false end.

Definition is_ws (c : Z) : bool := (c =? 32) || (c =? 9) || (c =? 13) || (c =? 10).
Definition is_quote (c : Z) : bool := (c =? 39) || (c =? 34) || (c =? 47).
(* ( & | ! @ # % = *)
Definition is_delim (c : Z) : bool :=
  (c =? 40) || (c =? 38) || (c =? 124) || (c =? 33) || (c =? 64) || (c =? 35) || (c =? 37) || (c =? 61).

(* query_t::lexer_t::unbalanced_braces (query.cc:40-48) *)
Fixpoint unbal_from (bal : Z) (s : str) : bool :=
  match s with
  | [] => negb (bal =? 0)
  | c :: s' =>
      if c =? 40 then unbal_from (bal + 1) s'
      else if c =? 41 then (if bal - 1 <? 0 then true else unbal_from (bal - 1) s')
      else unbal_from bal s'
  end.
Definition unbalanced (s : str) : bool := unbal_from 0 s.

(* quoted pattern (query.cc:74-98): returns the pattern and the unread rest *)
Fixpoint scan_pat (closing : Z) (s : str) (acc : str) : res (str * str) :=
  match s with
  | [] => Err EOther                                   (* Expected closing at end of pattern *)
  | c :: s' =>
      if c =? 92 then
        match s' with
        | [] => Err EOther                             (* Unexpected '\' at end of pattern *)
        | c2 :: s'' => scan_pat closing s'' (acc ++ [c2])
        end
      else if c =? closing then Ok (acc, s')
      else scan_pat closing s' (acc ++ [c])
  end.

(* the identifier loop (query.cc:153-192): ident, unread rest, reached the end of the argument *)
Fixpoint ident_loop (ws_stop ctx_expr cn : bool) (acc s : str) : str * str * bool :=
  match s with
  | [] => (acc, [], true)
  | c :: s' =>
      if is_ws c then
        if ws_stop then (acc, s, false) else ident_loop ws_stop ctx_expr cn (acc ++ [c]) s'
      else if c =? 41 then
        let cn' := cn || unbalanced acc in
        if negb cn' then (acc, s, false)
        else ident_loop ws_stop ctx_expr cn' (acc ++ [c]) s'
      else if is_delim c then
        if negb cn && negb ctx_expr then (acc, s, false)
        else ident_loop ws_stop ctx_expr cn (acc ++ [c]) s'
      else ident_loop ws_stop ctx_expr cn (acc ++ [c]) s'
  end.

Definition kw_and : str := [97;110;100].
Definition kw_or : str := [111;114].
Definition kw_not : str := [110;111;116].
Definition kw_code : str := [99;111;100;101].
Definition kw_desc : str := [100;101;115;99].
Definition kw_payee : str := [112;97;121;101;101].
Definition kw_note : str := [110;111;116;101].
Definition kw_tag : str := [116;97;103].
Definition kw_meta : str := [109;101;116;97].
Definition kw_data : str := [100;97;116;97].
Definition kw_show : str := [115;104;111;119].
Definition kw_only : str := [111;110;108;121].
Definition kw_bold : str := [98;111;108;100].
Definition kw_for : str := [102;111;114].
Definition kw_since : str := [115;105;110;99;101].
Definition kw_until : str := [117;110;116;105;108].
Definition kw_expr : str := [101;120;112;114].

(* test_ident (query.cc:194-233) *)
Definition classify (st : lexst) (ident : str) : tok * lexst :=
  if str_eqb ident kw_and then (TAnd, st)
  else if str_eqb ident kw_or then (TOr, st)
  else if str_eqb ident kw_not then (TNot, st)
  else if str_eqb ident kw_code then (TCode, st)
  else if str_eqb ident kw_desc then (TPayee, st)
  else if str_eqb ident kw_payee then (TPayee, st)
  else if str_eqb ident kw_note then (TNote, st)
  else if str_eqb ident kw_tag then (TMeta, st)
  else if str_eqb ident kw_meta then (TMeta, st)
  else if str_eqb ident kw_data then (TMeta, st)
  else if str_eqb ident kw_show then (TShow, st)
  else if str_eqb ident kw_only then (TOnly, st)
  else if str_eqb ident kw_bold then (TBold, st)
  else if str_eqb ident kw_for then (TFor, st)
  else if str_eqb ident kw_since then (TSince, st)
  else if str_eqb ident kw_until then (TUntil, st)
  else if str_eqb ident kw_expr then (TExpr, set_cna st true)
  else (TTerm ident, st).

(* next_token from `resume:` on (query.cc:68-237) for a non-exhausted argument.
   None = the argument ran out while skipping white space: next_token starts over. *)
Fixpoint lex_cur (ctx : tok) (st : lexst) (cur : str) (pos0 : bool) : option (res (tok * lexst)) :=
  match cur with
  | [] => None
  | c :: s' =>
      if is_quote c then
        Some (match scan_pat c s' [] with
              | Err e => Err e
              | Ok (pat, rest) =>
                  match pat with
                  | [] => Err EOther                    (* Match pattern is empty *)
                  | _ => Ok (TTerm pat, set_cur st rest)
                  end
              end)
      else if l_multi st && l_cna st then
        Some (Ok (TTerm cur, set_cur (set_cna st false) []))
      else if c =? 0 then Some (Err EOther)
      else if is_ws c then lex_cur ctx st s' false
      else if c =? 40 then
        Some (Ok (TLParen, set_cur (if is_expr_ctx ctx then set_cws st true else st) s'))
      else if c =? 41 then
        Some (Ok (TRParen, set_cur (if is_expr_ctx ctx then set_cws st false else st) s'))
      else if c =? 38 then Some (Ok (TAnd, set_cur st s'))
      else if c =? 124 then Some (Ok (TOr, set_cur st s'))
      else if c =? 33 then Some (Ok (TNot, set_cur st s'))
      else if c =? 64 then Some (Ok (TPayee, set_cur st s'))
      else if c =? 35 then Some (Ok (TCode, set_cur st s'))
      else if c =? 37 then Some (Ok (TMeta, set_cur st s'))
      else if c =? 61 then Some (Ok (if pos0 then TNote else TEq, set_cur st s'))
      else
        let cn := c =? 92 in
        let body := if cn then s' else cur in
        let ws_stop := negb (l_multi st) && negb (l_cws st) && negb (l_cna st) in
        match ident_loop ws_stop (is_expr_ctx ctx) cn [] body with
        | (ident, rest, at_end) =>
            let st1 := set_cur st rest in
            let st2 := if at_end then set_cws st1 false else st1 in
            Some (Ok (classify st2 ident))
        end
  end.

(* arg_i == arg_end (query.cc:59-66): step to the next argument or report END_REACHED *)
Fixpoint next_adv (ctx : tok) (st : lexst) (args : list str) : res (tok * lexst) :=
  match args with
  | [] => Ok (TEnd, set_arg st [] [])
  | _ :: t =>
      match t with
      | [] => Ok (TEnd, set_arg st [] [])
      | a :: _ =>
          match a with
          | [] => Err EOther                            (* empty argument: reads past the end *)
          | _ => match lex_cur ctx (set_arg st t a) a true with
                 | Some r => r
                 | None => next_adv ctx st t
                 end
          end
      end
  end.

Definition next_token (ctx : tok) (st : lexst) : res (tok * lexst) :=
  match l_cache st with
  | TUnknown =>
      match l_cur st with
      | [] => next_adv ctx st (l_args st)
      | cur => match lex_cur ctx st cur (l_pos0 st) with
               | Some r => r
               | None => next_adv ctx st (l_args st)
               end
      end
  | t => Ok (t, set_cache st TUnknown)
  end.

Definition push_token (t : tok) (st : lexst) : lexst := set_cache st t.

Definition peek_token (ctx : tok) (st : lexst) : res (tok * lexst) :=
  match l_cache st with
  | TUnknown => match next_token ctx st with
                | Ok (t, st1) => Ok (t, set_cache st1 t)
                | Err e => Err e
                end
  | t => Ok (t, st)
  end.

Notation "'dos' ( x , s ) <- r ; k" :=
  (match r with Ok (x, s) => k | Err e => Err e end)
  (at level 200, x name, s name, r at level 100, k at level 200).

Definition PR := res (option expr * lexst).

Section Parser.
Variable ext : str -> res expr.      (* the value-expression parser applied to `expr ARG` *)

(* parse_unary_expr (query.cc:356-381) over a given parse_query_term *)
Definition p_unary_of (term : tok -> lexst -> PR) (ctx : tok) (st : lexst) : PR :=
  dos (t, st1) <- next_token ctx st;
  match t with
  | TNot =>
      dos (n, st2) <- term ctx st1;
      match n with
      | None => Err EOther                 (* not operator not followed by argument *)
      | Some e => Ok (Some (ENot e), st2)
      end
  | _ => term ctx (push_token t st1)
  end.

(* the while(true) loop of parse_and_expr (query.cc:387-401) *)
Fixpoint and_loop (unary : tok -> lexst -> PR) (n : nat) (ctx : tok) (node : expr) (st : lexst)
  : res (expr * lexst) :=
  match n with
  | O => Err EOutOfFuel
  | S n' =>
      dos (t, st1) <- next_token ctx st;
      match t with
      | TAnd =>
          dos (r, st2) <- unary ctx st1;
          match r with
          | None => Err EOther             (* and operator not followed by argument *)
          | Some e => and_loop unary n' ctx (EAnd node e) st2
          end
      | _ => Ok (node, push_token t st1)
      end
  end.

Definition p_and_of (unary : tok -> lexst -> PR) (n : nat) (ctx : tok) (st : lexst) : PR :=
  dos (u, st1) <- unary ctx st;
  match u with
  | None => Ok (None, st1)
  | Some node => dos (e, st2) <- and_loop unary n ctx node st1; Ok (Some e, st2)
  end.

(* parse_or_expr (query.cc:407-429) *)
Fixpoint or_loop (pand : tok -> lexst -> PR) (n : nat) (ctx : tok) (node : expr) (st : lexst)
  : res (expr * lexst) :=
  match n with
  | O => Err EOutOfFuel
  | S n' =>
      dos (t, st1) <- next_token ctx st;
      match t with
      | TOr =>
          dos (r, st2) <- pand ctx st1;
          match r with
          | None => Err EOther             (* or operator not followed by argument *)
          | Some e => or_loop pand n' ctx (EOr node e) st2
          end
      | _ => Ok (node, push_token t st1)
      end
  end.

Definition p_or_of (pand : tok -> lexst -> PR) (n : nat) (ctx : tok) (st : lexst) : PR :=
  dos (u, st1) <- pand ctx st;
  match u with
  | None => Ok (None, st1)
  | Some node => dos (e, st2) <- or_loop pand n ctx node st1; Ok (Some e, st2)
  end.

(* the juxtaposition loop of parse_query_expr (query.cc:437-446): adjacent or-expressions are or-ed *)
Fixpoint seq_loop (por : tok -> lexst -> PR) (n : nat) (ctx : tok) (lim : option expr) (st : lexst)
  : PR :=
  match n with
  | O => Err EOutOfFuel
  | S n' =>
      dos (x, st1) <- por ctx st;
      match x with
      | None => Ok (lim, st1)
      | Some e => seq_loop por n' ctx (Some (match lim with None => e | Some l => EOr l e end)) st1
      end
  end.

Definition match_of_ctx (ctx : tok) (s : str) : res expr :=
  match ctx with
  | TAccount => Ok (EMatch (EIdent IAccount) s)
  | TPayee   => Ok (EMatch (EIdent IPayee) s)
  | TCode    => Ok (EMatch (EIdent ICode) s)
  | TNote    => Ok (EMatch (EIdent INote) s)
  | _ => Err EOther
  end.

(* parse_query_term (query.cc:245-354); a parenthesis recurses into parse_query_expr(ctx, true) *)
Fixpoint p_term (fuel : nat) (ctx : tok) (st : lexst) : PR :=
  match fuel with
  | O => Err EOutOfFuel
  | S f =>
      dos (t, st1) <- next_token ctx st;
      match t with
      | TShow | TOnly | TBold | TFor | TSince | TUntil | TEnd => Ok (None, push_token t st1)
      | TCode | TPayee | TNote | TAccount | TMeta | TExpr =>
          dos (n, st2) <- p_term f t st1;
          match n with
          | None => Err EOther             (* operator not followed by argument *)
          | Some _ => Ok (n, st2)
          end
      | TTerm s =>
          match ctx with
          | TExpr => match ext s with Ok e => Ok (Some e, st1) | Err e => Err e end
          | TMeta =>
              dos (t2, st2) <- peek_token ctx st1;
              match t2 with
              | TEq =>
                  dos (t3, st3) <- next_token ctx st2;
                  dos (t4, st4) <- next_token ctx st3;
                  match t4 with
                  | TTerm v => Ok (Some (EHasTag s (Some v)), st4)
                  | _ => Err EOther        (* Metadata equality operator not followed by term *)
                  end
              | _ => Ok (Some (EHasTag s None), st2)
              end
          | _ => match match_of_ctx ctx s with Ok e => Ok (Some e, st1) | Err e => Err e end
          end
      | TLParen =>
          dos (n, st2) <- seq_loop (p_or_of (p_and_of (p_unary_of (p_term f)) f) f) f ctx None st1;
          dos (t3, st3) <- next_token ctx st2;
          match t3 with
          | TRParen => Ok (n, st3)
          | _ => Err EOther                (* Missing ')' *)
          end
      | _ => Ok (None, push_token t st1)
      end
  end.

Definition p_unary (f : nat) := p_unary_of (p_term f).
Definition p_and (f : nat) := p_and_of (p_unary f) f.
Definition p_or (f : nat) := p_or_of (p_and f) f.
Definition p_expr (f : nat) (ctx : tok) (st : lexst) : PR := seq_loop (p_or f) f ctx None st.

Definition total_len (argv : list str) : nat :=
  fold_right (fun a n => (length a + n + 12)%nat) 14%nat argv.

(* query_t::parse_args -> parser_t::parse -> parse_query_expr(TOK_ACCOUNT, false): the limit
   predicate (QUERY_LIMIT).  Tokens that cannot continue the query end it silently
   (query.cc:537-538 `goto done`). *)
Definition parse (multi : bool) (argv : list str) : res (option expr) :=
  match argv with
  | [] => Ok None
  | _ =>
      let n := total_len argv in
      dos (lim, st) <- p_expr n TAccount (init_lex multi argv);
      dos (t, st') <- peek_token TAccount st;
      match t with
      | TShow | TOnly | TBold | TFor | TSince | TUntil => Err EOther   (* outside the fragment *)
      | _ => Ok lim
      end
  end.

End Parser.

(* ---- specification side: query trees, their intended expression, and how they are written ----
   A query tree is written one token per argument, with the parentheses the documented
   precedence (not > and > or > juxtaposition, all left-associative) requires and no others;
   `sp` picks the spelling of an operator or field selector (word / symbol). *)
Inductive qfield : Type := QAccount | QPayee | QCode | QNote.

Inductive query : Type :=
| QTerm (f : qfield) (sp : bool) (pat : str)
| QNot  (sp : bool) (q : query)
| QAnd  (sp : bool) (a b : query)
| QOr   (sp : bool) (a b : query)
| QJux  (a b : query).                 (* juxtaposition: a b *)

Definition fid (f : qfield) : ident :=
  match f with QAccount => IAccount | QPayee => IPayee | QCode => ICode | QNote => INote end.

Fixpoint to_expr (q : query) : expr :=
  match q with
  | QTerm f _ p => EMatch (EIdent (fid f)) p
  | QNot _ a => ENot (to_expr a)
  | QAnd _ a b => EAnd (to_expr a) (to_expr b)
  | QOr _ a b => EOr (to_expr a) (to_expr b)
  | QJux a b => EOr (to_expr a) (to_expr b)
  end.

Definition stok : Type := (tok * bool)%type.

Definition wrap (b : bool) (l : list stok) : list stok :=
  if b then (TLParen, false) :: l ++ [(TRParen, false)] else l.

Definition sel (f : qfield) : tok :=
  match f with QAccount => TAccount | QPayee => TPayee | QCode => TCode | QNote => TNote end.

(* lvl: 0 juxtaposition sequence, 1 or-expression, 2 and-expression, 3 unary, 4 term *)
Fixpoint tr (lvl : nat) (q : query) : list stok :=
  match q with
  | QTerm QAccount _ p => [(TTerm p, false)]
  | QTerm f sp p => [(sel f, sp); (TTerm p, false)]
  | QNot sp a => wrap (3 <? lvl)%nat ((TNot, sp) :: tr 4 a)
  | QAnd sp a b => wrap (2 <? lvl)%nat (tr 2 a ++ (TAnd, sp) :: tr 3 b)
  | QOr sp a b => wrap (1 <? lvl)%nat (tr 1 a ++ (TOr, sp) :: tr 2 b)
  | QJux a b => wrap (0 <? lvl)%nat (tr 0 a ++ tr 1 b)
  end.

(* how a token is spelled as one command-line argument *)
Definition spell (t : stok) : str :=
  match t with
  | (TLParen, _) => [40]
  | (TRParen, _) => [41]
  | (TNot, sp) => if sp then [33] else kw_not
  | (TAnd, sp) => if sp then [38] else kw_and
  | (TOr, sp) => if sp then [124] else kw_or
  | (TPayee, sp) => if sp then [64] else kw_payee
  | (TCode, sp) => if sp then [35] else kw_code
  | (TNote, sp) => if sp then [61] else kw_note
  | (TTerm w, _) => w
  | _ => []
  end.

Definition render (q : query) : list str := map spell (tr 0 q).

(* a pattern that can be written bare: no white space, quote, operator or escape byte, and
   not a reserved word *)
Definition plainb (c : Z) : bool :=
  negb (is_quote c) && negb (is_ws c) && negb (is_delim c) &&
  negb (c =? 0) && negb (c =? 41) && negb (c =? 92).

Definition is_kw (s : str) : bool :=
  str_eqb s kw_and || str_eqb s kw_or || str_eqb s kw_not || str_eqb s kw_code ||
  str_eqb s kw_desc || str_eqb s kw_payee || str_eqb s kw_note || str_eqb s kw_tag ||
  str_eqb s kw_meta || str_eqb s kw_data || str_eqb s kw_show || str_eqb s kw_only ||
  str_eqb s kw_bold || str_eqb s kw_for || str_eqb s kw_since || str_eqb s kw_until ||
  str_eqb s kw_expr.

Definition word_ok (w : str) : bool :=
  match w with [] => false | _ => forallb plainb w && negb (is_kw w) end.

Fixpoint query_ok (q : query) : bool :=
  match q with
  | QTerm _ _ p => word_ok p
  | QNot _ a => query_ok a
  | QAnd _ a b | QOr _ a b | QJux a b => query_ok a && query_ok b
  end.
