(* Automated transactions: auto_xact_t::extend_xact (xact.cc:694-892) with the quick
   account-only matcher post_pred (xact.cc:638-680) and its memo, xact_base_t::verify
   (xact.cc:425-472), and the journal loop that applies the rules known SO FAR to every
   transaction after finalize (journal.cc:365-380 add_xact, 445-449 extend_xact; the rule
   list grows in file order, textual.cc:585-683).
   Built on Model/Xact.v: postings, finalize, the pool.
   Predicates: account / payee masks restricted to literal, case-insensitive substrings,
   `amount < LIT`, `amount > LIT`, the constants true / false, and ! & | == ?: over those.
   Which operators the quick matcher handles is read from the source on every run
   (Gen/PostPred.v): an operator whose case is absent there falls to the throw.
   Not modelled: rule lines with a cost, `$account` / %(format) account names, deferred notes,
   assert/check/expr lines of a rule, amount expressions. *)
From LedgerV Require Import Base.Prelude Base.Round Gen.AutoXactRoot Gen.PostPred Model.Amount Model.Xact.
Local Open Scope Z_scope.

Inductive pstate := SUncleared | SCleared | SPending.          (* item_t::state_t *)

(* ------------------------------------------------------------------ predicates *)

(* mask_t is always compiled icase; generators only use literal alphanumeric patterns *)
Definition lower (c : Z) : Z := if (65 <=? c) && (c <=? 90) then c + 32 else c.

Fixpoint prefix_ci (pat s : str) : bool :=
  match pat, s with
  | [], _ => true
  | _ :: _, [] => false
  | x :: pat', y :: s' => (lower x =? lower y) && prefix_ci pat' s'
  end.

Fixpoint substr_ci (pat s : str) : bool :=
  prefix_ci pat s || match s with [] => false | _ :: s' => substr_ci pat s' end.

Inductive pred : Type :=
| PAcct (s : str)              (* account =~ /s/ *)
| PPayee (s : str)             (* payee =~ /s/ *)
| PAmtLt (a : amount)          (* amount < a *)
| PAmtGt (a : amount)          (* amount > a *)
| PNot (p : pred)
| PAnd (p q : pred)
| POr (p q : pred)
| PConst (b : bool)            (* the tokens `true` / `false`: a VALUE node holding a boolean *)
| PEq (p q : pred)             (* p == q *)
| PQuery (c p q : pred).       (* c ? p : q *)

(* get_amount (post.cc): a null amount reads as the integer 0 *)
Definition post_amount_value (p : post) : value :=
  match p_amt p with Some a => VAmt a | None => VInt 0 end.

(* predicate_t::real_calc = expr_t::calc(...).to_boolean(), op.cc O_MATCH / O_LT / O_GT /
   O_NOT / O_AND / O_OR (the last two short-circuit) / VALUE / O_EQ (both sides are evaluated, left
   first; every node of this fragment yields a boolean value and value_t::is_equal_to compares two
   booleans by `==`) / O_QUERY with its O_COLON (only the chosen branch is evaluated) *)
Fixpoint pred_eval (payee : str) (p : post) (e : pred) : res bool :=
  match e with
  | PAcct s => Ok (substr_ci s (p_acct p))
  | PPayee s => Ok (substr_ci s payee)
  | PAmtLt a => v_ltb (post_amount_value p) (VAmt a)
  | PAmtGt a => v_ltb (VAmt a) (post_amount_value p)            (* boost: x > y := y < x *)
  | PNot q => do b <- pred_eval payee p q; Ok (negb b)
  | PAnd q r => do b <- pred_eval payee p q; if b then pred_eval payee p r else Ok false
  | POr q r => do b <- pred_eval payee p q; if b then Ok true else pred_eval payee p r
  | PConst b => Ok b
  | PEq q r => do a <- pred_eval payee p q; do b <- pred_eval payee p r; Ok (Bool.eqb a b)
  | PQuery c q r => do b <- pred_eval payee p c; if b then pred_eval payee p q else pred_eval payee p r
  end.

(* post_pred: None = `throw_(calc_error, "Unhandled operator")`.  A case is taken as transcribed
   here only when the source has it in exactly that form (Gen/PostPred.src_post_pred, regenerated
   on every run); an operator without a case reaches `default: break;` and the throw.
   O_MATCH is handled for `account =~ /mask/` only (payee =~ breaks out to the throw); O_EQ calls
   post_pred on both sides (a throw on either side leaves the function); O_QUERY evaluates the
   condition and the chosen branch only. *)
Definition pp_ok (o : pp_op) : bool :=
  match src_post_pred o with PpAsTranscribed => src_post_pred_frame | _ => false end.

Fixpoint quick_eval (p : post) (e : pred) : option bool :=
  match e with
  | PAcct s => if pp_ok PpMatchAccount then Some (substr_ci s (p_acct p)) else None
  | PNot q => if pp_ok PpNot then match quick_eval p q with Some b => Some (negb b) | None => None end else None
  | PAnd q r => if pp_ok PpAnd then
                  match quick_eval p q with
                  | Some true => quick_eval p r
                  | Some false => Some false
                  | None => None
                  end
                else None
  | POr q r => if pp_ok PpOr then
                 match quick_eval p q with
                 | Some true => Some true
                 | Some false => quick_eval p r
                 | None => None
                 end
               else None
  | PConst b => if pp_ok PpValue then Some b else None
  | PEq q r => if pp_ok PpEq then
                 match quick_eval p q, quick_eval p r with
                 | Some a, Some b => Some (Bool.eqb a b)
                 | _, _ => None
                 end
               else None
  | PQuery c q r => if pp_ok PpQuery then
                      match quick_eval p c with
                      | Some true => quick_eval p q
                      | Some false => quick_eval p r
                      | None => None
                      end
                    else None
  | PPayee _ | PAmtLt _ | PAmtGt _ => None
  end.

(* the predicates the quick matcher can answer in full: nothing but the account is looked at *)
Fixpoint acct_only (e : pred) : bool :=
  match e with
  | PAcct _ | PConst _ => true
  | PNot q => acct_only q
  | PAnd q r | POr q r | PEq q r => acct_only q && acct_only r
  | PQuery c q r => acct_only c && acct_only q && acct_only r
  | PPayee _ | PAmtLt _ | PAmtGt _ => false
  end.

(* ------------------------------------------------------------------ rules *)

Record rule_line : Type := mkLine {
  rl_acct : str;
  rl_kind : pkind;
  rl_amt : option amount;      (* as parse_post read it: no commodity = multiplier *)
  rl_state : pstate            (* a `*` / `!` mark written on the rule line *)
}.

Record rule : Type := mkRule { r_pred : pred; r_lines : list rule_line }.

(* auto_xact_t::try_quick_match and memoized_results (keyed by account full name) *)
Record rstate : Type := mkRS { rs_quick : bool; rs_memo : list (str * bool) }.

Definition rs_init : rstate := mkRS true [].

Fixpoint memo_find (a : str) (m : list (str * bool)) : option bool :=
  match m with
  | [] => None
  | (k, b) :: m' => if str_eqb k a then Some b else memo_find a m'
  end.

(* xact.cc:708-739 *)
Definition match_post (r : rule) (rs : rstate) (payee : str) (p : post) : res bool * rstate :=
  if rs_quick rs then
    match memo_find (p_acct p) (rs_memo rs) with
    | Some b => (Ok b, rs)
    | None =>
        match quick_eval p (r_pred r) with
        | Some b => (Ok b, mkRS true ((p_acct p, b) :: rs_memo rs))
        | None => (pred_eval payee p (r_pred r), mkRS false (rs_memo rs))
        end
    end
  else (pred_eval payee p (r_pred r), rs).

(* a posting together with its clearing state *)
Record xpost : Type := mkX { x_post : post; x_state : pstate }.

(* xact.cc:766-875 for one rule line: the amount (multiplied when the rule's amount has no
   commodity, else as written), the rule line's account and flags, ITEM_GENERATED, and the
   state of the rule line unless the transaction is cleared *)
Definition instantiate (cp : comm -> Z) (xstate : pstate) (ip : post) (l : rule_line) : res xpost :=
  match rl_amt l with
  | None => Err EBadAmount          (* Automated transaction's posting has no amount *)
  | Some ra =>
      do amt <- (match acomm ra with
                 | None => match p_amt ip with
                           | Some ia => Ok (amt_mul cp ia ra)
                           | None => Err ENullAmt            (* cannot multiply an uninitialized amount *)
                           end
                 | Some _ => Ok ra
                 end);
      Ok (mkX (mkPost (rl_acct l) (rl_kind l) (Some amt) None None false true false)
              (match xstate with SCleared => SCleared | _ => rl_state l end))
  end.

Definition inst_lines (cp : comm -> Z) (xstate : pstate) (ip : post) (ls : list rule_line) : res (list xpost) :=
  map_res (instantiate cp xstate ip) ls.

(* xact.cc:703-708: a posting made by an automated transaction carries ITEM_GENERATED without
   POST_CALCULATED and is never matched; the postings finalize makes for the further
   commodities of an elided amount carry both flags and are the user's own *)
Definition rule_made (p : post) : bool := p_generated p && negb (p_calculated p).

(* the loop over the snapshot `initial_posts` *)
Fixpoint extend_loop (cp : comm -> Z) (r : rule) (payee : str) (xstate : pstate)
         (init : list xpost) (rs : rstate) : res (list xpost) * rstate :=
  match init with
  | [] => (Ok [], rs)
  | ip :: rest =>
      if rule_made (x_post ip) then extend_loop cp r payee xstate rest rs
      else
        match match_post r rs payee (x_post ip) with
        | (Err e, rs1) => (Err e, rs1)
        | (Ok false, rs1) => extend_loop cp r payee xstate rest rs1
        | (Ok true, rs1) =>
            match inst_lines cp xstate (x_post ip) (r_lines r) with
            | Err e => (Err e, rs1)
            | Ok new =>
                let (r2, rs2) := extend_loop cp r payee xstate rest rs1 in
                (do n2 <- r2; Ok (new ++ n2), rs2)
            end
        end
  end.

(* xact_base_t::verify: the balance of cost-or-amount over the postings that must balance
   (Xact.scan_posts is that loop), the same-commodity cost check, the display-zero test *)
Definition same_comm_cost (p : post) : bool :=
  match p_amt p, p_cost p with
  | Some a, Some c => comm_eqb (acomm a) (acomm c)
  | _, _ => false
  end.

Definition verify (ord : bool) (cp : comm -> Z) (ps : list post) : res unit :=
  do sn <- scan_posts ord ps 0 VVoid None;
  if existsb same_comm_cost ps then Err ECostSameComm
  else if negb (v_is_zero cp (fst sn)) then Err EUnbalanced
  else Ok tt.

Definition x_must_balance (x : xpost) : bool := must_balance (x_post x).

Definition extend (ord : bool) (cp : comm -> Z) (r : rule) (rs : rstate) (payee : str) (xstate : pstate)
           (ps : list xpost) : res (list xpost) * rstate :=
  let (rn, rs') := extend_loop cp r payee xstate ps rs in
  (do new <- rn;
   let ps' := ps ++ new in
   if existsb x_must_balance new
   then do _ <- verify ord cp (map x_post ps'); Ok ps'
   else Ok ps',
   rs').

(* journal_t::extend_xact: every rule known so far, in file order; an exception ends it *)
Fixpoint extend_all (ord : bool) (cp : comm -> Z) (rules : list (rule * rstate)) (payee : str)
         (xstate : pstate) (ps : list xpost) : res (list xpost) * list (rule * rstate) :=
  match rules with
  | [] => (Ok ps, [])
  | (r, rs) :: rest =>
      match extend ord cp r rs payee xstate ps with
      | (Err e, rs') => (Err e, (r, rs') :: rest)
      | (Ok ps', rs') =>
          let (out, rest') := extend_all ord cp rest payee xstate ps' in
          (out, (r, rs') :: rest')
      end
  end.

(* ------------------------------------------------------------------ the journal *)

(* finalize replaces the amount of a posting that has a cost by the same amount in the
   commodity annotated with the computed per-unit price and the transaction's date
   (xact.cc:286-340 over pool.cc:236-320).  Amounts generated from such a posting inherit that
   commodity and are kept apart from plain ones by verify's balance.  The key is the base
   symbol, `~`, then the per-unit price (numerator, denominator, price commodity): the pool
   identifies annotated commodities by exactly that (the date is the transaction's). *)
Definition annot_key (cp : comm -> Z) (a cost : amount) : comm :=
  let q := if is_zero cp a then aq cost else (aq cost / aq a)%Q in
  let pu := Qred (if Qnum q <? 0 then (- q)%Q else q) in
  match acomm a with
  | Some k => k ++ [126] ++ [Qnum pu; Zpos (Qden pu)] ++ comm_key cost
  | None => []
  end.

Definition annotate_cost (cp : comm -> Z) (p : post) : post :=
  match p_amt p, p_cost p with
  | Some a, Some c =>
      if is_annotated a || negb (has_comm a) then p
      else mkPost (p_acct p) (p_kind p) (Some (mkAmt (aq a) (aprec a) (akeep a) (Some (annot_key cp a c))))
                  (p_cost p) (p_lotprice p) (p_calculated p) (p_generated p) (p_cost_calculated p)
  | _, _ => p
  end.

Record txn : Type := mkTxn { t_payee : str; t_state : pstate; t_posts : list post }.

(* ---- account names.  Postings and rule lines reach the model with the FULL account name they
   resolve to at their place in the file: master account (--master-account), the enclosing
   `apply account` names, one step of alias expansion (journal_t::register_account called by
   parse_post with top_account(); textual.cc automated_xact_directive passes the same root for
   the lines of a rule: Gen/AutoXactRoot.v).  The harness computes those names.
   What the model does itself: extend_xact registers the rule line's account AGAIN, by its full
   name, from the journal's root (xact.cc `journal->register_account(account->fullname(),
   new_post, journal->master)`), which runs one more step of alias expansion with the aliases in
   force when the TRANSACTION is read (journal.cc expand_aliases, recursive_aliases off). *)
Definition aliases := list (str * str).      (* alias name -> full name of its target *)

Fixpoint alias_find (n : str) (al : aliases) : option str :=
  match al with
  | [] => None
  | (k, t) :: al' => if str_eqb k n then Some t else alias_find n al'
  end.

(* account_alias_directive: insert, or replace the target of an existing alias *)
Fixpoint alias_set (n t : str) (al : aliases) : aliases :=
  match al with
  | [] => [(n, t)]
  | (k, v) :: al' => if str_eqb k n then (k, t) :: al' else (k, v) :: alias_set n t al'
  end.

(* the text before the first `:` and the rest (starting with the colon) *)
Fixpoint split_colon (s : str) : option (str * str) :=
  match s with
  | [] => None
  | c :: s' => if c =? 58 then Some ([], s)
               else match split_colon s' with
                    | Some (a, b) => Some (c :: a, b)
                    | None => None
                    end
  end.

(* expand_aliases, one round: the whole name, else its first component *)
Definition realias (al : aliases) (full : str) : str :=
  match alias_find full al with
  | Some t => t
  | None => match split_colon full with
            | Some (first, rest) => match alias_find first al with
                                    | Some t => t ++ rest
                                    | None => full
                                    end
            | None => full
            end
  end.

(* the alias table AS THE SECOND REGISTRATION SEES IT.  Whether extend_xact registers the line's
   account with alias expansion active is read from the source on every run
   (Gen/AutoXactRoot.src_extend_realias): active (finding F120) = every alias directive read so far;
   switched off around the call (the repair) = the table stays as it started (empty) *)
Definition alias_seen (n t : str) (al : aliases) : aliases :=
  match src_extend_realias with
  | ReAliasNever => al
  | _ => alias_set n t al
  end.

Definition realias_line (al : aliases) (l : rule_line) : rule_line :=
  mkLine (realias al (rl_acct l)) (rl_kind l) (rl_amt l) (rl_state l).

Definition realias_rule (al : aliases) (r : rule) : rule :=
  mkRule (r_pred r) (map (realias_line al) (r_lines r)).

Inductive directive : Type :=
| DRule (r : rule)
| DTxn (t : txn)
| DAlias (n t : str).       (* alias N=TARGET, the target by its full name *)

Inductive xoutcome : Type :=
| XAccepted (ps : list xpost)
| XIgnored.

(* parsing a rule teaches the pool the commoditized amounts written on its lines *)
Definition learn_rule (pl : pool) (r : rule) : pool :=
  fold_left (fun acc l => match rl_amt l with
                          | Some a => match acomm a with
                                      | Some c => if akeep a then acc else pool_learn acc (base_sym c) (aprec a)
                                      | None => acc
                                      end
                          | None => acc
                          end) (r_lines r) pl.

Definition lift (st : pstate) (ps : list post) : list xpost := map (fun p => mkX p st) ps.

Fixpoint process (ord : bool) (pl : pool) (al : aliases) (rules : list (rule * rstate)) (ds : list directive)
  : list (res xoutcome) :=
  match ds with
  | [] => []
  | DRule r :: ds' => process ord (learn_rule pl r) al (rules ++ [(r, rs_init)]) ds'
  | DAlias n t :: ds' => process ord pl (alias_seen n t al) rules ds'
  | DTxn t :: ds' =>
      let pl' := learn_posts pl (t_posts t) in
      let cp := cp_of pl' in
      match finalize ord cp None (t_posts t) with
      | Ok (Accepted ps) =>
          let (out, rules') :=
            extend_all ord cp (map (fun rr => (realias_rule al (fst rr), snd rr)) rules) (t_payee t) (t_state t)
                       (lift (t_state t) (map (annotate_cost cp) ps)) in
          (do xs <- out; Ok (XAccepted xs))
            :: process ord pl' al (combine (map fst rules) (map snd rules')) ds'
      | Ok Ignored => Ok XIgnored :: process ord pl' al rules ds'
      | Err e => Err e :: process ord pl' al rules ds'
      end
  end.
