(* Model of the SEMANTIC decisions of print_xact (print.cc:44-72, 103-129, 201-303), of what the
   journal reader makes of the lines print emits (textual.cc parse_post 1439-1817: state mark,
   absent amount = elided posting, `@ u` -> cost u * amount, `@@ t` -> cost t (negated for a
   negative amount), `= a` -> assigned amount), and of posts_as_equity::report_subtotal
   (filters.cc:1081-1141).
   Layout: only the rule that separates account and amount (account_width, sep_blanks) is modelled;
   not modelled (glue): where a note is placed, the order in which
   std::map iterates accounts in the equity report (the theorems are per account). *)
From LedgerV Require Import Base.Prelude Base.Round Model.Amount Model.AmountText Model.Xact.
Local Open Scope Z_scope.

(* ------------------------------------------------------------------ what print looks at *)

Inductive pstate := SUncleared | SCleared | SPending.      (* item_t::state_t *)

Definition pstate_eqb (a b : pstate) : bool :=
  match a, b with
  | SUncleared, SUncleared | SCleared, SCleared | SPending, SPending => true
  | _, _ => false
  end.

(* facts about a posting that finalize (Model/Xact.v) does not carry but print reads *)
Record extra : Type := mkExtra {
  e_state : pstate;             (* post->state(), after parse_post's inheritance from the xact *)
  e_given : option amount;      (* post->given_cost: the TOTAL cost as parse_post stored it *)
  e_in_full : bool;             (* POST_COST_IN_FULL   `@@` *)
  e_cost_virtual : bool;        (* POST_COST_VIRTUAL   `(@)` `(@@)` *)
  e_assigned : option amount    (* post->assigned_amount *)
}.

Definition no_extra (s : pstate) : extra := mkExtra s None false false None.

Definition xpost : Type := (post * extra)%type.

(* postings finalize adds after the written ones take over a state: the balancing posting of the
   bucket rule (xact.cc:214-218, a single written posting) gets the _state of the first posting, the state
   of the posting it balances; the ITEM_GENERATED postings of a multi-commodity null fill copy the
   null posting's details (print skips those, so their state never shows).  Both are modelled as
   the state of the FIRST written posting: exact for the bucket posting, unobserved for the others *)
Fixpoint attach_from (s : pstate) (ps : list post) (es : list extra) : list xpost :=
  match ps with
  | [] => []
  | p :: ps' =>
      match es with
      | e :: es' => (p, e) :: attach_from s ps' es'
      | [] => (p, no_extra s) :: attach_from s ps' []
      end
  end.

Definition attach (ps : list post) (es : list extra) : list xpost :=
  attach_from (match es with e :: _ => e_state e | [] => SUncleared end) ps es.

(* ------------------------------------------------------------------ what the reader gets back *)

(* stream_out_mpq strips trailing zeros of the fraction down to zeros_prec digits *)
Fixpoint trim_scaled (fuel : nat) (N p zp : Z) : Z * Z :=
  match fuel with
  | O => (N, p)
  | S f => if (zp <? p) && (N mod 10 =? 0) then trim_scaled f (N / 10) (p - 1) zp else (N, p)
  end.

(* amount_t::print followed by amount_t::parse: the number is rounded to the display precision
   (Base/Round.v print_scaled), zeros are trimmed down to the commodity's precision, and the
   reader counts the decimals that are left; the commodity (with a written lot annotation)
   survives; keep_precision is a property of how the text is read, set by the caller *)
Definition read_back (cp : comm -> Z) (a : amount) : amount :=
  let q := Qred (aq a) in
  let p := display_precision cp a in
  let zp := zeros_prec cp a in
  let N := print_scaled (Qnum q) (Zpos (Qden q)) p in
  let (N', p') := trim_scaled (Z.to_nat (p - zp)) N p zp in
  mkAmt (Qred (Qmake N' (Z.to_pos (10 ^ p')))) p' false (acomm a).

(* value_t::print (value.cc:2026-2036): an amount that DISPLAYS as zero is written as a bare 0 *)
Definition read_back_value (cp : comm -> Z) (a : amount) : amount :=
  if is_zero cp a then mkAmt 0 0 false None else read_back cp a.

(* ------------------------------------------------------------------ print's decisions *)

Inductive costmark := CPerUnit | CTotal.

Record pline : Type := mkLine {
  l_acct : str;
  l_kind : pkind;
  l_mark : pstate;                                  (* `* `, `! ` or nothing before the account *)
  l_amt : option amount;                            (* None: no amount text on the line *)
  l_lot : option amount;                            (* the written {price} that travels with the amount *)
  l_cost : option (costmark * bool * amount);       (* @ / @@, (virtual), the amount after it *)
  l_assigned : option amount                        (* `= a` *)
}.

(* post_has_simple_amount (print.cc:44-72); amount_expr is not modelled (never generated) *)
Definition simple_amount (x : xpost) : bool :=
  let (p, e) := x in
  negb (p_calculated p)
  && match p_amt p with Some _ => true | None => false end
  && match e_assigned e with Some _ => false | None => true end
  && negb (match p_cost p with Some _ => negb (p_cost_calculated p) | None => false end).

Definition amt_comm (p : post) : option comm :=
  match p_amt p with Some a => acomm a | None => None end.

(* format_account_name (print.cc:103-110): a posting's mark is written whenever its state differs
   from the transaction's; the transaction's own mark covers the postings that share it *)
Definition mark_of (xs : pstate) (e : extra) : pstate :=
  if pstate_eqb (e_state e) xs then SUncleared else e_state e.

(* the elision test of print.cc:230-236: two postings, this is the second, BOTH must balance,
   both have simple amounts, of one commodity *)
Definition elides (count index : nat) (first x : xpost) : bool :=
  Nat.eqb count 2 && Nat.eqb index 2 && must_balance (fst x) && must_balance (fst first)
  && simple_amount x && simple_amount first && comm_eqb (amt_comm (fst first)) (amt_comm (fst x)).

(* one posting line; None = the posting is not printed at all (ITEM_GENERATED without --generated).
   count = xact.posts.size(), index = 1-based position, first = *xact.posts.begin() *)
Definition decide_post (cp : comm -> Z) (xs : pstate) (count index : nat) (first : xpost) (x : xpost)
  : res (option pline) :=
  let (p, e) := x in
  if p_generated p then Ok None
  else if p_calculated p then
    Ok (Some (mkLine (p_acct p) (p_kind p) (mark_of xs e) None None None None))
  else
    match p_amt p with
    | None => Ok (Some (mkLine (p_acct p) (p_kind p) (mark_of xs e) None None None None))
    | Some a =>
        let elide := elides count index first x in
        let shown := if elide then None else Some (read_back_value cp a) in
        do cost <-
          (match e_given e with
           | Some g =>
               if p_calculated p || p_cost_calculated p then Ok None
               else if e_in_full e then Ok (Some (CTotal, e_cost_virtual e, read_back cp (amt_abs g)))
               else if is_realzero a then      (* no per-unit price can be recovered from a zero amount *)
                 Ok (Some (CTotal, e_cost_virtual e, read_back cp (amt_abs g)))
               else do u <- amt_div cp g a;
                    Ok (Some (CPerUnit, e_cost_virtual e, read_back cp (amt_abs u)))
           | None => Ok None
           end);
        Ok (Some (mkLine (p_acct p) (p_kind p) (mark_of xs e) shown
                         (if elide then None else p_lotprice p) cost
                         (match e_assigned e with Some s => Some (read_back cp s) | None => None end)))
    end.

Fixpoint decide_from (cp : comm -> Z) (xs : pstate) (count : nat) (first : xpost) (index : nat)
         (l : list xpost) : res (list pline) :=
  match l with
  | [] => Ok []
  | x :: l' =>
      do o <- decide_post cp xs count index first x;
      do r <- decide_from cp xs count first (S index) l';
      Ok (match o with Some ln => ln :: r | None => r end)
  end.

Definition decide (cp : comm -> Z) (xs : pstate) (l : list xpost) : res (list pline) :=
  match l with
  | [] => Ok []
  | first :: _ => decide_from cp xs (length l) first 1 l
  end.

(* ------------------------------------------------------------------ layout of a posting line *)
(* print.cc:188-198 (account column), 216-223 and 242-245 (the amount right-justified in 12
   columns), 249-258 (the gap is topped up to two blanks), 280-287 (padding is written only in
   front of a non-empty trailer).  Lengths are in characters (unistring), the account name includes
   its state mark and its () or [] *)
Definition account_width (name_lens : list Z) : Z := fold_left Z.max name_lens 36.

(* number of blanks between the account name and the amount.  amt_len = 0 stands for "no amount text"
   (print leaves the second amount of a simple pair out): nothing follows the name, not even the top-up
   blanks (print.cc `! amt.empty() &&`, repaired in /repo 73eebeb, finding F50) *)
Definition sep_blanks (width name_len amt_len : Z) : Z :=
  let slip := width - name_len in
  if amt_len =? 0 then 0
  else
    let amt_slip := Z.max 0 (12 - amt_len) in
    slip + (if slip + amt_slip <? 2 then 2 - (slip + amt_slip) else 0) + amt_slip.

(* a posting whose amount finalize calculated is written as its account name alone (print.cc:288-290):
   no padding at all; every other posting goes through the trailer *)
Definition posting_blanks (calculated : bool) (width name_len amt_len : Z) : Z :=
  if calculated then 0 else sep_blanks width name_len amt_len.

(* which transactions reach print_xacts at all: the posting chain in front of it drops every
   posting whose amount displays as zero unless --empty is given (display_filter_posts,
   filters.cc:537-586), and a transaction is printed when one of its postings arrives *)
Definition xact_printed (cp : comm -> Z) (ps : list post) : bool :=
  existsb (fun p => match p_amt p with Some a => negb (is_zero cp a) | None => false end) ps.

(* ------------------------------------------------------------------ the reader on such lines *)

Definition with_keep (a : amount) : amount := mkAmt (aq a) (aprec a) true (acomm a).

(* parse_post: a posting without its own mark inherits the transaction's state *)
Definition read_state (xs mark : pstate) : pstate :=
  match mark with SUncleared => xs | m => m end.

Definition reread_line (cp : comm -> Z) (xs : pstate) (ln : pline) : xpost :=
  let given :=
    match l_cost ln, l_amt ln with
    | Some (CPerUnit, _, u), Some a => Some (cost_per_unit cp (with_keep u) a)
    | Some (CTotal, _, t), Some a => Some (cost_total (with_keep t) a)
    | _, _ => None
    end in
  (mkPost (l_acct ln) (l_kind ln) (l_amt ln) given (l_lot ln) false false false,
   mkExtra (read_state xs (l_mark ln)) given
           (match l_cost ln with Some (CTotal, _, _) => true | _ => false end)
           (match l_cost ln with Some (_, v, _) => v | None => false end)
           (l_assigned ln)).

Definition reread (cp : comm -> Z) (xs : pstate) (ls : list pline) : list xpost :=
  map (reread_line cp xs) ls.

(* print, read the text again, finalize: the postings of the re-read transaction *)
Definition print_reread (ord : bool) (cp : comm -> Z) (xs : pstate) (l : list xpost) : res outcome :=
  do ls <- decide cp xs l;
  finalize ord cp None (map fst (reread cp xs ls)).

(* ------------------------------------------------------------------ journals with assigned amounts *)
(* Xact.run_journal lets the pool learn from every posting amount it is given.  With `= AMOUNT` clauses two
   things differ (textual.cc:1655-1665, 1741-1753): the assigned amount itself is parsed without
   PARSE_NO_MIGRATE and teaches the commodity its decimals, while the amount ledger COMPUTES for a balance
   assignment is not parsed at all and teaches nothing (it may carry more decimals than the commodity
   displays).  So each transaction comes with its learning view: the amounts that were parsed *)
Fixpoint run_journal_l (ord : bool) (bucket : option str) (pl : pool) (xs : list (list post * list post))
  : list (res outcome) :=
  match xs with
  | [] => []
  | (lx, x) :: xs' =>
      let pl' := learn_posts pl lx in
      finalize ord (cp_of pl') bucket x :: run_journal_l ord bucket pl' xs'
  end.

(* ------------------------------------------------------------------ equity *)

(* the opening-balances postings for ONE account: posts_as_equity keeps, per account, the sum of
   the (annotation-stripped) amounts reported for it as a value; report_subtotal emits one posting
   per commodity entry that does not display as zero, and nothing when the whole value displays as
   zero.  `amts` are that account's amounts in report order. *)
Fixpoint sum_value (ord : bool) (v : value) (amts : list amount) : res value :=
  match amts with
  | [] => Ok v
  | a :: amts' => do v' <- add_or_set ord v a; sum_value ord v' amts'
  end.

Definition equity_amounts (cp : comm -> Z) (v : value) : list amount :=
  if v_is_zero cp v then []
  else match v with
       | VBal b => filter (fun a => negb (is_zero cp a)) (sorted_amounts b)
       | VAmt a => [a]
       | VInt z => [amt_of_Z z]
       | _ => []
       end.

Definition equity_account (ord : bool) (cp : comm -> Z) (acct : str) (kind : pkind) (amts : list amount)
  : res (list post) :=
  do v <- sum_value ord VVoid amts;
  Ok (map (fun a => mkPost acct kind (Some a) None None false false false) (equity_amounts cp v)).

(* the equity transaction is written by print_xact like any other: what the reader gets back *)
Definition equity_account_reread (ord : bool) (cp : comm -> Z) (acct : str) (kind : pkind) (amts : list amount)
  : res (list post) :=
  do ps <- equity_account ord cp acct kind amts;
  Ok (map (fun p => mkPost (p_acct p) (p_kind p)
                           (match p_amt p with Some a => Some (read_back_value cp a) | None => None end)
                           None None false false false) ps).
