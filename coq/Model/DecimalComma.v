(* --decimal-comma (session.h: commodity_t::decimal_comma_by_default = true) in the amount reader and printer.
   The option enters at three sites of amount.cc, transcribed on every run into Gen/DecimalComma.v:
     amount_t::parse      bool decimal_comma_style = (decimal_comma_by_default || commodity().has_flags(DECIMAL_COMMA))
     stream_out_mpq       the decimal point is written ',' when (decimal_comma_by_default || comm has DECIMAL_COMMA)
     stream_out_mpq       the thousands mark is written '.' under the same condition, ',' otherwise
   and what the reader's style ends as is what the commodity learns (if (decimal_comma_style) comm_flags |= ...).
   The reader proper (scan_step .. parse_amount_text) and the printer proper (quantity_text, amount_text) are those of
   Model/AmountText.v; here the SESSION decides with which decimal-comma bit they run.  A commodity-less amount is
   printed through the null commodity (amount_t::print hands `comm` over unconditionally), so it gets the session's
   decimal mark too, and never a thousands mark (nothing teaches the null commodity). *)
From LedgerV Require Import Base.Prelude Base.Round Model.Amount Model.AmountText Gen.DecimalComma.
Local Open Scope Z_scope.

(* dcd: decimal_comma_by_default; flag: the commodity has COMMODITY_STYLE_DECIMAL_COMMA *)
Definition dc_eval (c : dc_cond) (dcd flag : bool) : bool :=
  match c with
  | DcDefaultOrFlag => dcd || flag
  | DcFlagOnly => flag
  | DcDefaultOnly => dcd
  | DcUnrecognised => false
  end.

(* the reader's initial decimal_comma_style *)
Definition reader_dc (dcd flag : bool) : bool := dc_eval src_dc_reader_init dcd flag.

(* the byte stream_out_mpq writes for the decimal point of the buffer, and for a thousands mark *)
Definition printed_point (dcd flag : bool) : Z :=
  let '(c, y, n) := src_dc_print_point in
  if dc_eval c dcd flag then y else if n =? 0 then 46 else n.

Definition printed_mark (dcd flag : bool) : Z :=
  let '(c, y, n) := src_dc_print_mark in
  if dc_eval c dcd flag then y else n.

(* does the printer write the decimal-comma forms for this commodity in this session? *)
Definition printed_dc (dcd flag : bool) : bool :=
  let '(c, _, _) := src_dc_print_point in dc_eval c dcd flag.

(* the style amount_t::print effectively uses *)
Definition session_style (dcd : bool) (st : style) : style :=
  mkStyle (st_suffixed st) (st_separated st) (st_thousands st) (printed_dc dcd (st_decimal_comma st)).

Definition amount_text_session (dcd : bool) (cp : comm -> Z) (st : style) (a : amount) : str :=
  amount_text cp (session_style dcd st) a.

Definition value_column_text_session (dcd : bool) (cp : comm -> Z) (st : style) (a : amount) : str :=
  value_column_text cp (session_style dcd st) a.

(* "Remove commas and periods" (amount_t::parse, after the scan):
     while ( *p) { if ( *p == ',' || *p == '.') { p++; continue; } *t++ = *p++; }
   Every mark is skipped, whatever follows it; the text then goes to mpq_set_str, which refuses anything but an optional
   '-' and digits, and a refusal is an amount_error ("Invalid quantity in amount").  Before the repair a mark was skipped
   and the NEXT character copied whatever it was, so of two adjacent marks the second survived, mpq_set_str refused the
   text and its status was ignored: `1.,2 EUR` was accepted as 0 EUR with one decimal.  Now the scan decides alone: it
   takes `1.,2` as 1,2 (a decimal comma after an empty thousands group) and `1,.2` as 1.2.  (parse_quantity gives
   trailing marks back, so the text never ends in one.) *)
Definition is_mark (c : Z) : bool := (c =? 46) || (c =? 44).

Fixpoint strip_marks (s : str) : str :=
  match s with
  | [] => []
  | c :: t => if is_mark c then strip_marks t else c :: strip_marks t
  end.

Definition drop_minus (quant : str) : str := match quant with 45 :: t => t | _ => quant end.

Definition set_str_accepts (quant : str) : bool := forallb is_digit (strip_marks (drop_minus quant)).

(* amount_t::parse in a session: flag = what the commodity named in the text has learned so far *)
Definition parse_amount_text_session (dcd flag : bool) (s : str) : res parsed_amount :=
  do ap <- split_amount s;
  do pa <- parse_amount_text (reader_dc dcd flag) s;
  if set_str_accepts (ap_quant ap) then Ok pa else Err EBadAmount.

(* the quantity text written with the bytes of the two printer sites (instead of quantity_text's own 44/46):
   Proofs/DecimalCommaProofs.v shows it is quantity_text at session_style *)
Definition quantity_text_sites (dcd : bool) (st : style) (thousands_ok neg : bool) (N p zp : Z) : str :=
  let a := Z.abs N in
  let pn := Z.to_nat p in
  let ds := pad_left (S pn) (digits a) in
  let k := (length ds - pn)%nat in
  let ip := firstn k ds in
  let fp := trim_fraction (skipn k ds) zp in
  let ip' := if thousands_ok && st_thousands st
             then group3 ip (printed_mark dcd (st_decimal_comma st)) else ip in
  (if neg then [45] else []) ++ ip' ++
  (match fp with [] => [] | _ => printed_point dcd (st_decimal_comma st) :: fp end).
