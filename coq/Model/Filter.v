(* Executable model of the posting filter (C07).
   - posting record as the evaluator sees it (post.cc get_* / item.cc get_* wrappers);
   - the predicate fragment of the value-expression language: identifiers account / payee /
     code / note / amount / date / cleared / pending / virtual / real, constants, `=~` against a
     mask, has_tag(mask[, mask]), the comparisons == < <= > >=, and `! & |`
     (op.cc:328-352 O_MATCH / O_EQ .. O_GTE, op.cc:375-391 O_NOT / O_AND / O_OR);
   - value_t::operator bool (value.cc:83-129), value_t::is_equal_to / is_less_than
     (value.cc:792-1040) for the cells these values can reach;
   - predicate_t::real_calc (predicate.h:86-92) and filter_posts::operator() (filters.h:343-349);
   - the way --limit / --begin / --end / the command-line query are combined into one
     predicate (report.h:443-456 begin_, 655-670 end_, 747-752 limit_; chain.cc:53-60).
   A regular expression is a literal pattern: case-insensitive (ASCII) substring search
   (mask.cc:45-54 boost::regex::icase + regex_search), a generator restriction.
   Definitions only; proofs are in Proofs/FilterProofs.v. *)
From LedgerV Require Import Base.Prelude.
Local Open Scope Z_scope.

(* ---- amounts and values ---- *)
Record amt : Type := mkA {
  a_q    : Q;      (* exact quantity (reduced) *)
  a_comm : str     (* commodity symbol, [] = no commodity *)
}.

Inductive value : Type :=
| VVoid
| VBool (b : bool)
| VAmt  (a : amt)
| VStr  (s : str)
| VDate (d : Z)          (* days since the epoch *)
| VMask (m : str).

Inductive pstate : Type := SUncleared | SCleared | SPending.

Definition tagmap := list (str * option str).   (* item_t::string_map in map order *)

Record posting : Type := mkP {
  p_id      : Z;             (* identity only: the line the posting begins on *)
  p_account : str;           (* account_t::fullname *)
  p_payee   : str;           (* post_t::payee() *)
  p_code    : option str;    (* xact->code *)
  p_note    : option str;    (* post.note *)
  p_xnote   : option str;    (* xact->note *)
  p_tags    : tagmap;        (* post.metadata *)
  p_xtags   : tagmap;        (* xact->metadata *)
  p_amount  : amt;
  p_date    : option Z;      (* post._date *)
  p_xdate   : Z;             (* xact->date() *)
  p_state   : pstate;        (* item_t::state() of the posting *)
  p_virtual : bool           (* POST_VIRTUAL *)
}.

(* ---- masks: literal pattern, case-insensitive substring ---- *)
Definition lower (c : Z) : Z := if (65 <=? c) && (c <=? 90) then c + 32 else c.

Fixpoint prefix_ci (p s : str) : bool :=
  match p, s with
  | [], _ => true
  | _ :: _, [] => false
  | a :: p', b :: s' => (lower a =? lower b) && prefix_ci p' s'
  end.

Fixpoint contains_ci (p s : str) : bool :=
  prefix_ci p s || match s with [] => false | _ :: s' => contains_ci p s' end.

(* ---- expressions ---- *)
Inductive ident : Type :=
| IAccount | IPayee | ICode | INote | IAmount | IDate
| ICleared | IPending | IVirtual | IReal | IUncleared | IActual.

Inductive cmpop : Type := CEq | CLt | CLe | CGt | CGe.

Inductive expr : Type :=
| EIdent  (i : ident)
| EConst  (txt : str) (v : value)       (* txt = the text op_t::print writes for it *)
| EMatch  (l : expr) (pat : str)        (* (l =~ /pat/) *)
| EHasTag (pat : str) (vpat : option str)
| ECmp    (op : cmpop) (l r : expr)
| ENot    (e : expr)
| EAnd    (l r : expr)
| EOr     (l r : expr).

(* ---- identifiers (post.cc:156-199, item.cc:240-266) ---- *)
Definition opt_app (a b : option str) : option str :=
  match a, b with
  | None, None => None
  | _, _ => Some ((match a with Some x => x | None => [] end) ++
                  (match b with Some y => y | None => [] end))
  end.

(* post_t::date() without xdata / --aux-date: own date, else the transaction's *)
Definition post_date (p : posting) : Z :=
  match p_date p with Some d => d | None => p_xdate p end.

Definition eval_ident (i : ident) (p : posting) : value :=
  match i with
  | IAccount => VStr (p_account p)
  | IPayee   => VStr (p_payee p)
  | ICode    => match p_code p with Some c => VStr c | None => VVoid end
  | INote    => match opt_app (p_note p) (p_xnote p) with Some n => VStr n | None => VVoid end
  | IAmount  => VAmt (p_amount p)
  | IDate    => VDate (post_date p)
  | ICleared => VBool (match p_state p with SCleared => true | _ => false end)
  | IPending => VBool (match p_state p with SPending => true | _ => false end)
  | IVirtual => VBool (p_virtual p)
  | IReal    => VBool (negb (p_virtual p))
  | IUncleared => VBool (match p_state p with SUncleared => true | _ => false end)
  | IActual  => VBool true     (* item.cc get_actual: journal postings are neither generated nor temporary *)
  end.

(* ---- value_t::operator bool (value.cc:83-129).  An amount is true when it is not zero;
   posting amounts never carry more decimals than their commodity displays and constants
   without commodity are tested exactly, so amount_t::is_zero is the exact test here. ---- *)
Definition truth (v : value) : res bool :=
  match v with
  | VVoid   => Ok false
  | VBool b => Ok b
  | VAmt a  => Ok (negb (Qnum (a_q a) =? 0))
  | VStr s  => Ok (match s with [] => false | _ => true end)
  | VDate _ => Ok true
  | VMask _ => Err EBadOp
  end.

(* value_t::to_string for the left operand of =~ *)
Definition to_string (v : value) : res str :=
  match v with
  | VStr s => Ok s
  | VVoid  => Ok []
  | _      => Err EBadOp
  end.

(* ---- comparisons ---- *)
Definition q_ltb (a b : Q) : bool := Qnum a * Zpos (Qden b) <? Qnum b * Zpos (Qden a).
Definition q_eqb (a b : Q) : bool := Qnum a * Zpos (Qden b) =? Qnum b * Zpos (Qden a).

Definition nocomm (a : amt) : bool := match a_comm a with [] => true | _ => false end.

(* value_t::is_less_than, AMOUNT x AMOUNT (value.cc:953-959): by quantity when the
   commodities agree or one side has none, else by commodity symbol
   (commodity_t::compare_by_commodity, unannotated) *)
Definition amt_ltb (a b : amt) : bool :=
  if str_eqb (a_comm a) (a_comm b) || nocomm a || nocomm b
  then q_ltb (a_q a) (a_q b)
  else match str_compare (a_comm a) (a_comm b) with Lt => true | _ => false end.

Definition value_lt (a b : value) : res bool :=
  match a, b with
  | VBool x, VBool y => Ok (negb x && y)
  | VDate x, VDate y => Ok (x <? y)
  | VAmt x,  VAmt y  => Ok (amt_ltb x y)
  | VStr x,  VStr y  => Ok (match str_compare x y with Lt => true | _ => false end)
  | _, _ => Err EBadOp
  end.

(* value_t::is_equal_to; amount_t::operator== compares commodity and quantity *)
Definition value_eq (a b : value) : res bool :=
  match a, b with
  | VVoid, VVoid => Ok true
  | VVoid, _ => Ok false
  | VBool x, VBool y => Ok (Bool.eqb x y)
  | VDate x, VDate y => Ok (x =? y)
  | VAmt x,  VAmt y  => Ok (str_eqb (a_comm x) (a_comm y) && q_eqb (a_q x) (a_q y))
  | VStr x,  VStr y  => Ok (str_eqb x y)
  | VMask x, VMask y => Ok (str_eqb x y)
  | _, _ => Err EBadOp
  end.

(* boost::less_than_comparable: x > y is y < x, x <= y is !(y < x), x >= y is !(x < y) *)
Definition value_cmp (op : cmpop) (a b : value) : res bool :=
  match op with
  | CEq => value_eq a b
  | CLt => value_lt a b
  | CGt => value_lt b a
  | CLe => do r <- value_lt b a; Ok (negb r)
  | CGe => do r <- value_lt a b; Ok (negb r)
  end.

(* ---- has_tag (item.cc:58-73, post.cc:52-61): some tag whose name matches; when a value is asked
   for, some tag whose name matches AND whose value matches - a name match whose value does not
   match (or that has no value) is passed over and the scan goes on (repaired by 27e3f7d, F207;
   before, the first valued tag whose name matched decided) ---- *)
Fixpoint tag_scan (tp : str) (vp : option str) (tags : tagmap) : bool :=
  match tags with
  | [] => false
  | (k, v) :: t =>
      if contains_ci tp k then
        match vp with
        | None => true
        | Some vm => match v with
                     | Some vs => if contains_ci vm vs then true else tag_scan tp vp t
                     | None => tag_scan tp vp t
                     end
        end
      else tag_scan tp vp t
  end.

Definition has_tag (tp : str) (vp : option str) (p : posting) : bool :=
  tag_scan tp vp (p_tags p) || tag_scan tp vp (p_xtags p).

(* ---- evaluation (op.cc calc) ---- *)
Fixpoint eval (e : expr) (p : posting) : res value :=
  match e with
  | EIdent i => Ok (eval_ident i p)
  | EConst _ v => Ok v
  | EMatch l pat => do v <- eval l p; do s <- to_string v; Ok (VBool (contains_ci pat s))
  | EHasTag tp vp => Ok (VBool (has_tag tp vp p))
  | ECmp op l r => do a <- eval l p; do b <- eval r p; do c <- value_cmp op a b; Ok (VBool c)
  | ENot x => do v <- eval x p; do b <- truth v; Ok (VBool (negb b))
  | EAnd l r => do v <- eval l p; do b <- truth v;
                if b then eval r p else Ok (VBool false)
  | EOr l r => do v <- eval l p; do b <- truth v;
               if b then Ok v else eval r p
  end.

(* predicate_t::real_calc: the value's truth *)
Definition pred (e : expr) (p : posting) : res bool :=
  do v <- eval e p; truth v.

(* filter_posts over the journal's postings in order; an evaluation error aborts the report *)
Fixpoint filter_posts (e : expr) (l : list posting) : res (list posting) :=
  match l with
  | [] => Ok []
  | p :: t =>
      do b <- pred e p;
      do r <- filter_posts e t;
      Ok (if b then p :: r else r)
  end.

(* total variant used in the statements: an erroring posting counts as not selected *)
Definition predb (e : expr) (p : posting) : bool :=
  match pred e p with Ok b => b | Err _ => false end.

(* ---- how the report builds its single limit predicate ---- *)
(* report.h:747-752: each further --limit and-s:  (old)&(new) *)
Fixpoint and_all (acc : expr) (l : list expr) : expr :=
  match l with
  | [] => acc
  | e :: t => and_all (EAnd acc e) t
  end.

Definition combine_limits (l : list expr) : option expr :=
  match l with
  | [] => None
  | e :: t => Some (and_all e t)
  end.

(* report.h:443-456 / 655-670: --begin D is date>=[D], --end D is date<[D] *)
Definition begin_pred (txt : str) (d : Z) : expr := ECmp CGe (EIdent IDate) (EConst txt (VDate d)).
Definition end_pred   (txt : str) (d : Z) : expr := ECmp CLt (EIdent IDate) (EConst txt (VDate d)).

(* chain.cc:53-60: no limit = every posting passes *)
Definition report_posts (limits : list expr) (l : list posting) : res (list posting) :=
  match combine_limits limits with
  | None => Ok l
  | Some e => filter_posts e l
  end.

(* ---- the sources of the limit predicate (report.h).  Every one of them calls
   limit_.on(whence, TEXT); option_t::on (option.h:150-160) runs the limit_ handler
   (report.h:747-752: `if (handled) value = "(" + value + ")&(" + str + ")"`) and, when the
   handler left the value alone (the first contribution), assigns TEXT.  So the accumulated
   predicate is the left-nested conjunction of the contributions in the order they were made. ---- *)
Definition limit_on (acc : option expr) (e : expr) : option expr :=
  match acc with
  | None => Some e                 (* not handled yet: value = str *)
  | Some v => Some (EAnd v e)      (* (value)&(str) *)
  end.

Definition limit_acc (l : list expr) : option expr := fold_left limit_on l None.

(* the text the handler builds, from the pieces the translator reads out of report.h
   (Gen/LimitCombine.v): tag 0 = a literal, 1 = the old value, 2 = the new condition *)
Fixpoint limit_text (pieces : list (Z * str)) (value cond : str) : str :=
  match pieces with
  | [] => []
  | (tag, lit) :: t =>
      (if tag =? 0 then lit else if tag =? 1 then value else if tag =? 2 then cond else [])
        ++ limit_text t value cond
  end.

Inductive contrib : Type :=
| KLimit (e : expr)                    (* --limit EXPR *)
| KBegin (txt : str) (d : Z)           (* -b D : date>=[D]            report.h:446-456 *)
| KEnd (txt : str) (d : Z)             (* -e D : date<[D]             report.h:658-672 *)
| KCleared                             (* -C : cleared                report.h:495-497 *)
| KUncleared                           (* -U : uncleared|pending      report.h:1046-1048 *)
| KPending                             (* --pending : pending         report.h:847-849 *)
| KReal                                (* -R : real                   report.h:918-920 *)
| KActual                              (* -L : actual                 report.h:395-397 *)
| KCurrent (txt : str).                (* -c : date<=today            report.h:543-545 *)

(* `today` (report.h:214-216 fn_today) is report_t::terminus, which --now sets (report.h:794-797)
   and which every -e / --end overwrites with its date (report.h:667): the last one given wins *)
Definition today_of (now : Z) (opts : list contrib) : Z :=
  fold_left (fun t k => match k with KEnd _ d => d | _ => t end) opts now.

Definition contrib_expr (today : Z) (k : contrib) : expr :=
  match k with
  | KLimit e => e
  | KBegin txt d => begin_pred txt d
  | KEnd txt d => end_pred txt d
  | KCleared => EIdent ICleared
  | KUncleared => EOr (EIdent IUncleared) (EIdent IPending)
  | KPending => EIdent IPending
  | KReal => EIdent IReal
  | KActual => EIdent IActual
  | KCurrent txt => ECmp CLe (EIdent IDate) (EConst txt (VDate today))
  end.

Definition is_begin (k : contrib) : bool := match k with KBegin _ _ => true | _ => false end.
Definition is_end (k : contrib) : bool := match k with KEnd _ _ => true | _ => false end.

(* report_t::normalize_period (report.cc:272-292), after all options: the bounds of the -p period
   (as the period parser resolves the joined -p texts) become limits unless -b / -e was given *)
Definition period_limits (opts : list contrib) (period : option (str * Z) * option (str * Z)) : list expr :=
  (match fst period with
   | Some (txt, d) => if existsb is_begin opts then [] else [begin_pred txt d]
   | None => []
   end) ++
  (match snd period with
   | Some (txt, d) => if existsb is_end opts then [] else [end_pred txt d]
   | None => []
   end).

(* options in command-line order, then the period, then the command-line query
   (report.cc:294-300 parse_query_args runs when the command executes) *)
Definition all_limits (now : Z) (opts : list contrib) (period : option (str * Z) * option (str * Z))
           (query : option expr) : list expr :=
  map (contrib_expr (today_of now opts)) opts ++ period_limits opts period ++
  match query with Some q => [q] | None => [] end.

Definition report_with (now : Z) (opts : list contrib) (period : option (str * Z) * option (str * Z))
           (query : option expr) (l : list posting) : res (list posting) :=
  match limit_acc (all_limits now opts period query) with
  | None => Ok l
  | Some e => filter_posts e l
  end.

(* ---- op_t::print of this fragment, in the shape the query parser's tree prints ---- *)
Definition ident_name (i : ident) : str :=
  match i with
  | IAccount => [97;99;99;111;117;110;116]
  | IPayee   => [112;97;121;101;101]
  | ICode    => [99;111;100;101]
  | INote    => [110;111;116;101]
  | IAmount  => [97;109;111;117;110;116]
  | IDate    => [100;97;116;101]
  | ICleared => [99;108;101;97;114;101;100]
  | IPending => [112;101;110;100;105;110;103]
  | IVirtual => [118;105;114;116;117;97;108]
  | IReal    => [114;101;97;108]
  | IUncleared => [117;110;99;108;101;97;114;101;100]
  | IActual  => [97;99;116;117;97;108]
  end.

Definition cmp_name (op : cmpop) : str :=
  match op with
  | CEq => [61;61] | CLt => [60] | CLe => [60;61] | CGt => [62] | CGe => [62;61]
  end.

Fixpoint print_expr (e : expr) : str :=
  match e with
  | EIdent i => ident_name i
  | EConst txt _ => txt
  | EMatch l pat => [40] ++ print_expr l ++ [32;61;126;32;47] ++ pat ++ [47;41]
  | EHasTag tp None => [104;97;115;95;116;97;103;40;47] ++ tp ++ [47;41]
  | EHasTag tp (Some vp) =>
      [104;97;115;95;116;97;103;40;40;40;47] ++ tp ++ [47;44;32;47] ++ vp ++ [47;41;41;41]
  | ECmp op l r => [40] ++ print_expr l ++ [32] ++ cmp_name op ++ [32] ++ print_expr r ++ [41]
  | ENot x => [40;33;32] ++ print_expr x ++ [41]
  | EAnd l r => [40] ++ print_expr l ++ [32;38;32] ++ print_expr r ++ [41]
  | EOr l r => [40] ++ print_expr l ++ [32;124;32] ++ print_expr r ++ [41]
  end.
