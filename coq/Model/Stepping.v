(* C11 (d): the period stepping of date_interval_t::stabilize (times.cc:1184-1307) and
   date_duration_t::add (times.h:179-195), over day numbers.

   What is modelled, exactly:
   * a date is its day number (Z); `start < date` is the comparison of the C++ loop;
   * DAYS and WEEKS steps are exact: d + n and d + 7 n;
   * MONTHS / QUARTERS / YEARS steps add k = n, 3 n, 12 n calendar months.  boost's month
     arithmetic (end-of-month snapping included) moves a date forward by between 28 k and 31 k
     days; the model takes the number of days from an arbitrary function `ms d k` and every
     theorem assumes only the lower bound 28 k <= ms d k (no calendar is modelled here; the
     calendar itself belongs to C13/C14);
   * the quantity n of `every n <unit>` is what date_parser_t::parse accepts: an unsigned
     short, rejected when zero iff the source has the guard (Gen/SafetyGuards.src_period_zero_guard);
   * the catch-up loop `while (start < date) { next = this; ++next; if (next.start and
     next.start <= date) this = next; else break; }` with explicit fuel (Err EOutOfFuel when
     it runs out): termination of the C++ loop is the lemma that a fuel computed from the
     input suffices.
   Definitions only. *)
From LedgerV Require Import Base.Prelude.
Local Open Scope Z_scope.

Inductive quantum : Type := Days | Weeks | Months | Quarters | Years.

Definition months_of (q : quantum) (n : Z) : Z :=
  match q with Months => n | Quarters => 3 * n | Years => 12 * n | _ => 0 end.

(* date_duration_t::add *)
Definition add_dur (ms : Z -> Z -> Z) (q : quantum) (n : Z) (d : Z) : Z :=
  match q with
  | Days => d + n
  | Weeks => d + 7 * n
  | _ => d + ms d (months_of q n)
  end.

(* the calendar assumption used by the theorems *)
Definition month_step_ok (ms : Z -> Z -> Z) : Prop := forall d k, 1 <= k -> 28 * k <= ms d k.

(* date_parser_t::parse, TOK_EVERY TOK_INT: the token is an unsigned short *)
Definition accept_quantity (zero_guard : bool) (n : Z) : res Z :=
  if (n <? 0) || (65535 <? n) then Err EOther           (* not an unsigned short: lexer error *)
  else if zero_guard && (n =? 0) then Err EBadDate      (* "A repeating period must be at least one unit long" *)
  else Ok n.

(* the catch-up loop of stabilize; returns the interval start *)
Fixpoint catch_up (ms : Z -> Z -> Z) (q : quantum) (n : Z) (fuel : nat) (start date : Z) : res Z :=
  if start <? date then
    match fuel with
    | O => Err EOutOfFuel
    | S fuel' =>
        let next := add_dur ms q n start in
        if next <=? date then catch_up ms q n fuel' next date else Ok start
    end
  else Ok start.

(* number of iterations that always suffices *)
Definition catch_up_fuel (start date : Z) : nat := Z.to_nat (date - start).

(* the exact ms of a pure day-count step, used by the correspondence check on DAYS/WEEKS periods *)
Definition no_months (d k : Z) : Z := 28 * k.

Definition period_start (zero_guard : bool) (q : quantum) (n start date : Z) : res Z :=
  do n' <- accept_quantity zero_guard n;
  catch_up no_months q n' (catch_up_fuel start date) start date.
