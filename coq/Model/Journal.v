(* Journal-level aggregates over Model/Xact.v: the postings that reach the accounts and the
   per-account balances `bal --flat` reports (account_t::amount: the sum of the account's own
   postings, lots stripped unless --lots).  A set of files joined by `include` is processed as
   the concatenation of their transactions in inclusion order (textual.cc:753-843 shares one
   journal, pool and account tree between the instances). *)
From LedgerV Require Import Base.Prelude Base.Round Model.Amount Model.Xact.
Local Open Scope Z_scope.

Fixpoint accepted_posts (rs : list (res outcome)) : list post :=
  match rs with
  | [] => []
  | Ok (Accepted ps) :: rs' => ps ++ accepted_posts rs'
  | _ :: rs' => accepted_posts rs'
  end.

Definition strip_lot (a : amount) : amount :=
  mkAmt (aq a) (aprec a) (akeep a) (match acomm a with Some c => Some (base_sym c) | None => None end).

(* the balance of one account: its own postings summed in order, as account_t::amount does
   (value_t +=, starting from a null value) *)
Fixpoint account_balance (ord : bool) (acct : str) (ps : list post) (acc : value) : res value :=
  match ps with
  | [] => Ok acc
  | p :: ps' =>
      if str_eqb (p_acct p) acct then
        match p_amt p with
        | Some a => do acc' <- add_or_set ord acc (strip_lot a); account_balance ord acct ps' acc'
        | None => account_balance ord acct ps' acc
        end
      else account_balance ord acct ps' acc
  end.

Fixpoint accounts_of (ps : list post) (seen : list str) : list str :=
  match ps with
  | [] => rev seen
  | p :: ps' => if existsb (str_eqb (p_acct p)) seen then accounts_of ps' seen
                else accounts_of ps' (p_acct p :: seen)
  end.

Definition journal_balances (ord : bool) (bucket : option str) (xs : list (list post))
  : list (str * res value) :=
  let ps := accepted_posts (run_journal ord bucket [] xs) in
  map (fun a => (a, account_balance ord a ps VVoid)) (accounts_of ps []).

(* files: a tree of include directives; the transactions are read depth first *)
Inductive ftree : Type :=
| FXact (x : list post)
| FInclude (items : list ftree).

Fixpoint flatten (t : ftree) : list (list post) :=
  match t with
  | FXact x => [x]
  | FInclude items => flat_map flatten items
  end.

Definition process_files (ord : bool) (bucket : option str) (top : list ftree) : list (res outcome) :=
  run_journal ord bucket [] (flat_map flatten top).

(* the final display precision the pool has learned for a commodity *)
Definition final_pool (xs : list (list post)) : pool :=
  fold_left learn_posts xs [].
