(* Balance assertions and assignments: parse_post's `= AMOUNT` handling (textual.cc:1645-1769)
   over account_t::amount (account.cc:613-665), inside the journal loop: postings reach their
   accounts when their transaction is finalized, in file order; earlier postings of the same
   transaction are subtracted separately.  Lot annotations are stripped before comparing, so
   the model keeps stripped amounts (commodity key without the `~` part). *)
From LedgerV Require Import Base.Prelude Base.Round Model.Amount Model.Xact.
Local Open Scope Z_scope.

(* a posting as written: the Xact.post fields plus the optional assigned amount after `=` *)
Record wpost : Type := mkW {
  w_post : post;
  w_assigned : option amount
}.

(* what an account remembers of a posting that reached it *)
Record apost : Type := mkA { a_acct : str; a_virtual : bool; a_amt : amount }.

Definition strip (a : amount) : amount :=
  mkAmt (aq a) (aprec a) (akeep a) (match acomm a with Some c => Some (base_sym c) | None => None end).

Definition is_virtual (p : post) : bool := match p_kind p with PReal => false | _ => true end.

(* account_t::amount(real_only): the sum, in file order, of the postings of exactly this
   account (all of them, or the real ones only) *)
Fixpoint acct_total (ord : bool) (hist : list apost) (acct : str) (real_only : bool) (acc : value) : res value :=
  match hist with
  | [] => Ok acc
  | h :: hist' =>
      if str_eqb (a_acct h) acct && (negb real_only || negb (a_virtual h))
      then do acc' <- add_or_set ord acc (a_amt h); acct_total ord hist' acct real_only acc'
      else acct_total ord hist' acct real_only acc
  end.

(* earlier postings of the same transaction to the same account: an assertion on a real
   posting counts the real ones, one on a virtual posting counts all *)
Fixpoint sub_earlier (ord : bool) (earlier : list post) (acct : str) (virt : bool) (diff : balance) : res balance :=
  match earlier with
  | [] => Ok diff
  | p :: rest =>
      if str_eqb (p_acct p) acct && (virt || negb (is_virtual p))
      then match p_amt p with
           | Some a => do d <- bal_sub_amt ord diff (strip a); sub_earlier ord rest acct virt d
           | None => Err ENullAmt      (* Cannot strip annotations from an uninitialized amount *)
           end
      else sub_earlier ord rest acct virt diff
  end.

(* balance_t::commodity_amount(c) on a balance of stripped amounts *)
Definition restrict (diff : balance) (a : amount) : balance :=
  match acomm a with
  | Some _ => match bal_find (acomm a) diff with Some x => [x] | None => [] end
  | None => diff
  end.

Definition zero_of (a : amount) : amount := mkAmt 0 (aprec a) (akeep a) (acomm a).   (* amt - amt *)

(* the `= AMOUNT` clause of one posting.  Returns the posting with its amount resolved. *)
Definition resolve_assigned (ord : bool) (cp : comm -> Z) (permissive : bool)
           (hist : list apost) (earlier : list post) (w : wpost) : res post :=
  let p := w_post w in
  match w_assigned w with
  | None => Ok p
  | Some amt =>
      let virt := is_virtual p in
      do total <- acct_total ord hist (p_acct p) (negb virt) VVoid;
      do d1 <- (match total with
                | VAmt t => bal_sub_amt ord (bal_of_amt amt) t
                | VBal t => bal_sub ord (bal_of_amt amt) t
                | _ => Ok (bal_of_amt amt)
                end);
      do d2 <- sub_earlier ord earlier (p_acct p) virt d1;
      let d3 := restrict d2 amt in
      match p_amt p with
      | None =>                                   (* balance assignment *)
          if bal_is_zero cp d3
          then Ok (mkPost (p_acct p) (p_kind p) (Some (zero_of amt)) (p_cost p) (p_lotprice p)
                          (p_calculated p) (p_generated p) (p_cost_calculated p))
          else match d3 with
               | [x] => Ok (mkPost (p_acct p) (p_kind p) (Some x) (p_cost p) (p_lotprice p)
                                   (p_calculated p) (p_generated p) (p_cost_calculated p))
               | _ => Err EBadOp                  (* several commodities cannot be one amount *)
               end
      | Some a =>                                 (* balance assertion *)
          (* the posting itself counts, but only in the commodity the assertion is about *)
          do d4 <- (if negb (has_comm amt) || comm_eqb (acomm (strip a)) (acomm amt)
                    then bal_sub_amt ord d3 (strip a) else Ok d3);
          if negb permissive && negb (bal_is_zero cp d4) then Err EAssertOff else Ok p
      end
  end.

(* parse the postings of one transaction in order; the pool learns from every amount and
   assigned amount as it is read; stops at the first error *)
Fixpoint resolve_posts (ord : bool) (permissive : bool) (pl : pool) (hist : list apost)
         (earlier : list post) (ws : list wpost) : res (list post) * pool :=
  match ws with
  | [] => (Ok (rev earlier), pl)
  | w :: ws' =>
      let pl1 := learn_posts pl [w_post w] in
      let pl2 := match w_assigned w with
                 | Some a => match acomm a with
                             | Some c => pool_learn pl1 (base_sym c) (aprec a)
                             | None => pl1
                             end
                 | None => pl1
                 end in
      match resolve_assigned ord (cp_of pl2) permissive hist (rev earlier) w with
      | Ok p => resolve_posts ord permissive pl2 hist (p :: earlier) ws'
      | Err e => (Err e, pl2)
      end
  end.

Definition posts_to_history (ps : list post) : list apost :=
  fold_right (fun p acc => match p_amt p with
                           | Some a => mkA (p_acct p) (is_virtual p) (strip a) :: acc
                           | None => acc
                           end) [] ps.

(* the journal: transactions in file order; accepted ones add their postings to the accounts *)
Fixpoint run_journal_a (ord : bool) (permissive : bool) (pl : pool) (hist : list apost)
         (xs : list (list wpost)) : list (res outcome) :=
  match xs with
  | [] => []
  | x :: xs' =>
      let (r, pl') := resolve_posts ord permissive pl hist [] x in
      match r with
      | Err e => Err e :: run_journal_a ord permissive pl' hist xs'
      | Ok ps =>
          match finalize ord (cp_of pl') None ps with
          | Ok (Accepted ps') => Ok (Accepted ps') :: run_journal_a ord permissive pl' (hist ++ posts_to_history ps') xs'
          | other => other :: run_journal_a ord permissive pl' hist xs'
          end
      end
  end.

(* ---- automated transactions: what the rules add to an accepted transaction reaches the accounts together with it
   (journal_t::add_xact: finalize, then extend_xact; the postings made carry ITEM_GENERATED), so every LATER `= AMOUNT`
   counts them; the written assertions of the transaction itself were judged before, while its lines were read ---- *)
Section WithAutomated.
Variable ext : (comm -> Z) -> list post -> list post.

Fixpoint run_journal_x (ord permissive : bool) (pl : pool) (hist : list apost)
         (xs : list (list wpost)) : list (res outcome) :=
  match xs with
  | [] => []
  | x :: xs' =>
      let (r, pl') := resolve_posts ord permissive pl hist [] x in
      match r with
      | Err e => Err e :: run_journal_x ord permissive pl' hist xs'
      | Ok ps =>
          match finalize ord (cp_of pl') None ps with
          | Ok (Accepted ps') =>
              let all := ps' ++ ext (cp_of pl') ps' in
              Ok (Accepted all) :: run_journal_x ord permissive pl' (hist ++ posts_to_history all) xs'
          | other => other :: run_journal_x ord permissive pl' hist xs'
          end
      end
  end.
End WithAutomated.

(* ---- deferred postings `<Account>` (textual.cc parse_post: `*p == '<' && *(e - 1) == '>'` sets POST_DEFERRED and nothing
   else, so the posting is an ordinary REAL posting while its transaction is read and balanced: it must balance, and
   the loop over xact->posts subtracts it from a later `= AMOUNT` of the same transaction).  xact_base_t::finalize hands
   it to account_t::add_deferred_post instead of add_post, and journal_t::read_textual calls
   master->apply_deferred_posts() only when the file of one -f option has been read to its end (an included file is
   read inside the same instance): until then account_t::amount does not see it.  The postings finalize makes for an
   elided amount copy the flags of the elided posting (add_balancing_post: set_flags(null_post->flags() | ..)). ---- *)
Record dpost : Type := mkD { d_w : wpost; d_deferred : bool }.

Inductive jitem : Type :=
| JXact (x : list dpost)
| JEndOfFile.                     (* the end of the file of one -f option *)

(* the posting finalize fills: the first must-balance posting without an amount (scan_posts) *)
Fixpoint null_index (ps : list post) (i : nat) : option nat :=
  match ps with
  | [] => None
  | p :: r => if must_balance p && (match balancing_amount p with None => true | Some _ => false end)
              then Some i else null_index r (S i)
  end.

(* POST_DEFERRED of the n postings of a finalized transaction: the written ones keep theirs, the ones made for further
   commodities of the elided amount have the elided posting's *)
Definition flags_after (fl : list bool) (written : list post) (n : nat) : list bool :=
  fl ++ repeat (match null_index written 0 with Some i => nth i fl false | None => false end) (n - length fl).

(* (the postings add_post receives now, the ones add_deferred_post keeps); a posting without a flag is not deferred *)
Fixpoint split_deferred (fl : list bool) (ps : list post) : list post * list post :=
  match ps with
  | [] => ([], [])
  | p :: r =>
      let (a, b) := split_deferred (tl fl) r in
      if hd false fl then (a, p :: b) else (p :: a, b)
  end.

Section WithDeferred.
Variable ext : (comm -> Z) -> list post -> list post.

(* hist: what has reached the accounts; held: what the accounts keep in deferred_posts *)
Fixpoint run_journal_d (ord permissive : bool) (pl : pool) (hist held : list apost)
         (xs : list jitem) : list (res outcome) :=
  match xs with
  | [] => []
  | JEndOfFile :: xs' => run_journal_d ord permissive pl (hist ++ held) [] xs'
  | JXact x :: xs' =>
      let (r, pl') := resolve_posts ord permissive pl hist [] (map d_w x) in
      match r with
      | Err e => Err e :: run_journal_d ord permissive pl' hist held xs'
      | Ok ps =>
          match finalize ord (cp_of pl') None ps with
          | Ok (Accepted ps') =>
              let (now, later) := split_deferred (flags_after (map d_deferred x) ps (length ps')) ps' in
              Ok (Accepted (ps' ++ ext (cp_of pl') ps'))
                :: run_journal_d ord permissive pl' (hist ++ posts_to_history (now ++ ext (cp_of pl') ps'))
                                 (held ++ posts_to_history later) xs'
          | other => other :: run_journal_d ord permissive pl' hist held xs'
          end
      end
  end.
End WithDeferred.

(* ---- `apply account NAME` .. `end apply account` (textual.cc apply_account_directive: the stack receives
   top_account()->find_account(NAME); parse_post hands top_account() to journal_t::register_account, which - no alias
   being in force - returns master_account->find_account(name)): inside the block a posting written `name` belongs to
   the account  N1:..:Nk:name  (N1 the outermost block), and that account's total is what its `= AMOUNT` consults ---- *)
Definition qualify (stack : list str) (name : str) : str :=
  fold_right (fun n acc => n ++ 58 :: acc) name stack.

Definition rename_post (f : str -> str) (p : post) : post :=
  mkPost (f (p_acct p)) (p_kind p) (p_amt p) (p_cost p) (p_lotprice p) (p_calculated p) (p_generated p) (p_cost_calculated p).

Definition under (stack : list str) (x : list dpost) : list dpost :=
  map (fun d => mkD (mkW (rename_post (qualify stack) (w_post (d_w d))) (w_assigned (d_w d))) (d_deferred d)) x.

(* rules of the shape  = /^ACCOUNT$/  with lines  [PREFIX$account] MULT  or  [PREFIX] MULT  (a commodity-less amount
   multiplies the matched posting's; xact.cc extend_xact): one generated posting per line for every posting of exactly
   that account which no rule made *)
Record auto_line : Type := mkAL { al_prefix : str; al_use_acct : bool; al_kind : pkind; al_mult : amount }.
Record auto_rule : Type := mkAR { ar_match : str; ar_lines : list auto_line }.

Definition made_by_rule (p : post) : bool := p_generated p && negb (p_calculated p).

Definition auto_ext (rules : list auto_rule) (cp : comm -> Z) (ps : list post) : list post :=
  flat_map (fun r =>
    flat_map (fun p =>
      if made_by_rule p || negb (str_eqb (p_acct p) (ar_match r)) then []
      else match p_amt p with
           | Some ia => map (fun l => mkPost (al_prefix l ++ (if al_use_acct l then p_acct p else [])) (al_kind l)
                                             (Some (amt_mul cp ia (al_mult l))) None None false true false)
                            (ar_lines r)
           | None => []
           end) ps) rules.
