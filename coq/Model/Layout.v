(* C08: what a journal's LAYOUT - the same text in one file, cut over included files, or given as several files on the
   command line - does to the names its transactions are booked under (textual.cc, journal.cc).

   An account name is its list of ':'-separated segments (a segment is a number here, as in Model/Aliases.v).  The
   reader of one file (instance_t) owns an APPLY STACK; the entry at its bottom is the master account pushed by whoever
   reads the file: journal_t::read_textual for a file named on the command line (the master of the parse context: the
   root, or --master-account), include_directive for an included file (`top_account()` of the including file, so an
   `apply account` in force around an `include` reaches into the included file).  `apply account`/`apply tag` push,
   `end apply` pops - never the bottom entry (`apply_stack.size() <= 1` is an error), so an included file cannot end an
   `apply` of the file that includes it; the reader and its stack go away at the end of the file (instance_t::parse
   undoes every entry), so an `apply` left open in an included file ends with that file.  The alias table and the
   default account (`bucket`/`A`) live in the JOURNAL (context.journal->account_aliases / ->bucket): what an included
   file declares stays in force after it, in the including file and in the files named later on the command line.
   Tags in force: the file's own `apply tag` entries, then its parent's, and so on up (get_applications<string>).

   A posting's account (parse_post -> journal_t::register_account(name, post, top_account())): one round of alias
   expansion on the name as written (the whole name, else its first segment; --recursive-aliases is not modelled) gives
   an ABSOLUTE account; a name no alias matches is looked up under top_account().  The numbers and flags of
   Gen/LayoutScope.v are re-read from the source on every run; the model computes with them.
   Definitions only. *)
From LedgerV Require Import Base.Prelude Model.Aliases Gen.LayoutScope.
Local Open Scope Z_scope.

Inductive lentry : Type :=
| EAcct (a : aname)            (* application_t("account", acct) *)
| ETag (t : Z).                (* application_t("tag", ":t:") *)

Inductive litem : Type :=
| LXact (names : list aname)               (* a transaction: the account names of its postings as written *)
| LApplyAccount (n : aname)
| LApplyTag (t : Z)
| LEnd (kind : option bool)                (* `end apply account` = Some true, `end apply tag` = Some false, `end apply`/`end` = None *)
| LAlias (k : aname) (target : aname)      (* alias k=target *)
| LBucket (n : aname)                      (* bucket n  /  A n *)
| LInclude (items : list litem).           (* include FILE, the items of FILE *)

(* journal-wide state *)
Record gstate : Type := mkG { g_alias : alias_table; g_bucket : option aname; g_errs : nat }.

(* what a transaction is booked as *)
Record rxact : Type := mkRx { rx_accts : list aname; rx_bucket : option aname; rx_tags : list Z }.

Definition g0 : gstate := mkG [] None O.
Definition g_err (g : gstate) : gstate := mkG (g_alias g) (g_bucket g) (S (g_errs g)).

(* get_application<account_t *>: the first account entry of the file's own stack (there always is one: the bottom) *)
Fixpoint top_account (stk : list lentry) : aname :=
  match stk with
  | [] => []
  | EAcct a :: _ => a
  | ETag _ :: stk' => top_account stk'
  end.

Fixpoint tags_of (stk : list lentry) : list Z :=
  match stk with
  | [] => []
  | ETag t :: stk' => t :: tags_of stk'
  | EAcct _ :: stk' => tags_of stk'
  end.

(* journal_t::register_account without --recursive-aliases: one round of expand_aliases, else under the master *)
Definition resolve_name (m : alias_table) (top : aname) (n : aname) : aname :=
  match alias_lookup n m with
  | Some t => t
  | None =>
      match n with
      | f :: (_ :: _) =>
          match alias_lookup [f] m with
          | Some t => t ++ tl n
          | None => top ++ n
          end
      | _ => top ++ n
      end
  end.

Definition kind_of (e : lentry) : bool := match e with EAcct _ => true | ETag _ => false end.

(* `end apply NAME`: NAME, when given, must be the label of the newest entry *)
Definition end_matches (kind : option bool) (k : bool) : bool :=
  match kind with None => true | Some b => Bool.eqb b k end.
Definition label_matches (kind : option bool) (e : lentry) : bool := end_matches kind (kind_of e).

(* the master account pushed for an included file *)
Definition include_master (stk : list lentry) : aname :=
  if src_include_master =? 1 then top_account stk else [].

Section Items.
  Variable f : litem -> list lentry -> gstate -> list lentry * gstate * list rxact.
  Fixpoint read_list (l : list litem) (stk : list lentry) (g : gstate) : list lentry * gstate * list rxact :=
    match l with
    | [] => (stk, g, [])
    | i :: l' =>
        let '(s1, g1, o1) := f i stk g in
        let '(s2, g2, o2) := read_list l' s1 g1 in
        (s2, g2, o1 ++ o2)
    end.
End Items.

(* one directive: ptags = the tags in force in the files above this one *)
Fixpoint read_item (ptags : list Z) (it : litem) (stk : list lentry) (g : gstate)
  : list lentry * gstate * list rxact :=
  match it with
  | LXact names =>
      (stk, g, [mkRx (map (resolve_name (g_alias g) (top_account stk)) names) (g_bucket g) (tags_of stk ++ ptags)])
  | LApplyAccount n => (EAcct (top_account stk ++ n) :: stk, g, [])
  | LApplyTag t => (ETag t :: stk, g, [])
  | LEnd kind =>
      if Z.of_nat (length stk) <=? src_end_apply_keep then (stk, g_err g, [])
      else match stk with
           | e :: rest => if label_matches kind e then (rest, g, []) else (stk, g_err g, [])
           | [] => (stk, g_err g, [])
           end
  | LAlias k target =>
      let t := top_account stk ++ target in
      if str_eqb k t then (stk, g_err g, [])
      else (stk, mkG ((k, t) :: g_alias g) (g_bucket g) (g_errs g), [])
  | LBucket n => (stk, mkG (g_alias g) (Some (top_account stk ++ n)) (g_errs g), [])
  | LInclude items =>
      let r := read_list (read_item (tags_of stk ++ ptags)) items [EAcct (include_master stk)] g in
      (stk, snd (fst r), snd r)
  end.

Definition read_items (ptags : list Z) := read_list (read_item ptags).

(* the files named on the command line, in order: each read by a reader of its own, all into one journal *)
Fixpoint read_files (master : aname) (files : list (list litem)) (g : gstate) : gstate * list rxact :=
  match files with
  | [] => (g, [])
  | fl :: files' =>
      let r := read_items [] fl [EAcct (if src_file_master =? 1 then master else [])] g in
      let r' := read_files master files' (snd (fst r)) in
      (fst r', snd r ++ snd r')
  end.

Definition read_journal (master : aname) (files : list (list litem)) : gstate * list rxact :=
  read_files master files g0.

(* a piece of a file that can be cut out into a file of its own: it ends every `apply` it begins and no other *)
Fixpoint closed_from (ks : list bool) (l : list litem) : bool :=
  match l with
  | [] => match ks with [] => true | _ => false end
  | LApplyAccount _ :: l' => closed_from (true :: ks) l'
  | LApplyTag _ :: l' => closed_from (false :: ks) l'
  | LEnd kind :: l' =>
      match ks with
      | [] => false
      | k :: ks' => end_matches kind k && closed_from ks' l'
      end
  | _ :: l' => closed_from ks l'
  end.
Definition closed (l : list litem) : bool := closed_from [] l.

(* no directive but transactions and includes, at any depth *)
Fixpoint plain_item (it : litem) : bool :=
  match it with
  | LXact _ => true
  | LInclude items => forallb plain_item items
  | _ => false
  end.

(* the names of the transactions of plain items, in reading order (Journal.flatten) *)
Fixpoint names_of (it : litem) : list (list aname) :=
  match it with
  | LXact names => [names]
  | LInclude items => flat_map names_of items
  | _ => []
  end.
