(* The file-name part of an `include` path is a glob: `?` stands for any one byte, `*` for any run of bytes (an empty one
   too), every other byte for itself (mask_t::assign_glob, src/mask.cc, turns it into a regular expression anchored at
   both ends; character classes `[..]` are not modelled). *)
From LedgerV Require Import Base.Prelude.
Local Open Scope Z_scope.

Inductive gtok : Type := GLit (c : Z) | GAny | GStar.

Fixpoint gmatch (p : list gtok) (s : str) : bool :=
  match p with
  | [] => match s with [] => true | _ => false end
  | GLit c :: p' => match s with x :: s' => Z.eqb x c && gmatch p' s' | [] => false end
  | GAny :: p' => match s with _ :: s' => gmatch p' s' | [] => false end
  | GStar :: p' =>
      (fix star (s : str) : bool :=
         gmatch p' s || match s with _ :: s' => star s' | [] => false end) s
  end.

(* the pattern as written: 63 `?`, 42 `*`, a backslash takes the next byte literally *)
Fixpoint glob_of (pat : str) : list gtok :=
  match pat with
  | [] => []
  | c :: t =>
      if Z.eqb c 63 then GAny :: glob_of t
      else if Z.eqb c 42 then GStar :: glob_of t
      else if Z.eqb c 92 then match t with c2 :: t2 => GLit c2 :: glob_of t2 | [] => [GLit c] end
      else GLit c :: glob_of t
  end.

Definition include_matches (pat name : str) : bool := gmatch (glob_of pat) name.
