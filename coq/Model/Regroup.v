(* Executable model of the posting handlers that reorder or merge postings
   (filters.cc, compare.cc, value.cc:2185-2213) composed in the order in which
   chain.cc:108-273 builds the chain.  A posting that reaches the register travels

     filter (limit)  ->  day_of_week_posts | by_payee_posts  |  subtotal_posts
                     ->  collapse_posts (--collapse, --depth N)
                     ->  sort_posts (--sort)
                     ->  calc_posts (running total)
                     ->  truncate_xacts (--head / --tail)  ->  format

   Amount arithmetic is the C03 model (Model/Amount.v: v_add is value_t::operator+=,
   add_or_set_value is v_add started from VVoid).  Commodities are unannotated
   symbols.  A transaction is known to the handlers only through its address
   (`post->xact`), which is modelled by an integer identity `pxact`. *)
From LedgerV Require Import Base.Prelude Base.Round Model.Amount Gen.ByPayeeLabel.
Local Open Scope Z_scope.

(* the payee text of the (possibly temporary) transaction a posting belongs to:
   a journal payee; "- <date>" written by subtotal_posts::report_subtotal for the last
   value date of the range; the weekday name ("%As") written by day_of_week_posts *)
Inductive payee : Type :=
| PName (s : str)
| PFmt (s : str) (d : Z)   (* strftime(s) for the date d: by_payee_posts hands the payee name
                              to report_subtotal as a date format (finding F70) *)
| PUntil (d : Z)
| PDow (k : Z).

Record post : Type := mkPost {
  pxact  : Z;       (* identity of post->xact *)
  pdate  : Z;       (* post_t::date(), days since 1970-01-01 *)
  pvdate : Z;       (* post_t::value_date() *)
  ppayee : payee;   (* post_t::payee(): the posting's own payee (a `; Payee: NAME` tag on the
                       posting, else the same tag on its transaction) if there is one, else
                       the payee of its transaction.  This is what %(payee), payee queries,
                       --sort payee and by_payee_posts use; the harness feeds it per posting *)
  pxpayee : payee;  (* post->xact->payee: what collapse_posts copies to its temporary xact *)
  pacct  : str;     (* reported_account()->fullname() *)
  pvirt  : bool;    (* POST_VIRTUAL *)
  pstate : Z;       (* 0 uncleared, 1 cleared, 2 pending *)
  pamt   : value    (* VAmt: post.amount; VBal: xdata.compound_value (POST_EXT_COMPOUND) *)
}.

(* ------------------------------------------------------------------ the limit predicate *)

Fixpoint is_prefix (a b : str) : bool :=
  match a, b with
  | [], _ => true
  | x :: a', y :: b' => (x =? y) && is_prefix a' b'
  | _ :: _, [] => false
  end.

(* an account query made of literal characters: substring search *)
Fixpoint str_contains (needle hay : str) : bool :=
  is_prefix needle hay ||
  match hay with
  | [] => false
  | _ :: hay' => str_contains needle hay'
  end.

Record filt : Type := mkFilt {
  f_real  : bool;          (* --real: "real" *)
  f_state : Z;             (* 0 none; 1 --cleared; 2 --pending; 3 --uncleared *)
  f_query : option str;    (* account pattern *)
  f_payee : option str     (* payee pattern (@NAME): matched against post_t::payee() *)
}.

Definition keep_post (f : filt) (p : post) : bool :=
  (negb (f_real f) || negb (pvirt p)) &&
  (match f_state f with
   | 1 => pstate p =? 1
   | 2 => pstate p =? 2
   | 3 => negb (pstate p =? 1)
   | _ => true
   end) &&
  (match f_query f with
   | Some q => str_contains q (pacct p)
   | None => true
   end) &&
  (match f_payee f with
   | Some q => match ppayee p with PName s => str_contains q s | _ => false end
   | None => true
   end).

(* ------------------------------------------------- transactions as seen in the stream *)

(* collapse_posts::operator() and truncate_xacts::flush delimit transactions by a change
   of post->xact between consecutive postings; `cur` are the component posts so far *)
Fixpoint runs_from (cur : list post) (x : Z) (l : list post) : list (list post) :=
  match l with
  | [] => [cur]
  | p :: l' => if pxact p =? x then runs_from (cur ++ [p]) x l'
               else cur :: runs_from [p] (pxact p) l'
  end.

Definition runs (l : list post) : list (list post) :=
  match l with
  | [] => []
  | p :: l' => runs_from [p] (pxact p) l'
  end.

(* earliest date() and latest value_date() of the component posts *)
Fixpoint min_date (d : Z) (l : list post) : Z :=
  match l with
  | [] => d
  | p :: l' => min_date (if pdate p <? d then pdate p else d) l'
  end.

Fixpoint max_vdate (d : Z) (l : list post) : Z :=
  match l with
  | [] => d
  | p :: l' => max_vdate (if d <? pvdate p then pvdate p else d) l'
  end.

Definition range_start (l : list post) : Z :=
  match l with [] => 0 | p :: l' => min_date (pdate p) l' end.
Definition range_finish (l : list post) : Z :=
  match l with [] => 0 | p :: l' => max_vdate (pvdate p) l' end.

(* identities of temporary transactions: journal transactions are 3*i, the ones made by
   collapse_posts 3*g+1, the ones made by subtotal_posts 3*b+2 - all different *)
Definition xid_collapse (g : Z) : Z := 3 * g + 1.
Definition xid_subtotal (b : Z) : Z := 3 * b + 2.

(* ------------------------------------------------------------------- subtotal_posts *)

(* values_map: std::map<string, acct_value_t>, sorted by account name;
   an entry is (value, is_virtual) *)
Definition values_map := list (str * (value * bool)).

(* subtotal_posts::operator(): a new entry, or add_or_set_value on the existing one.  (Only
   posts_as_equity - the equity command - refuses an account posted to both virtually and
   really: /repo 58fd328; the is_virtual of an entry is that of its first posting.) *)
Fixpoint sub_insert (k : str) (v : value) (virt : bool) (m : values_map) : res values_map :=
  match m with
  | [] => Ok [(k, (v, virt))]
  | (k', (v', virt')) :: m' =>
      match str_compare k k' with
      | Lt => Ok ((k, (v, virt)) :: m)
      | Eq => do s <- v_add false v' v; Ok ((k', (s, virt')) :: m')
      | Gt => do r <- sub_insert k v virt m'; Ok ((k', (v', virt')) :: r)
      end
  end.

(* `value_t amount(POST_EXT_COMPOUND ? xdata.compound_value : post.amount)` (/repo 790ae5e): a
   posting made by another subtotalling handler for a multi-commodity value counts with that value *)
Definition post_amount (p : post) : res value :=
  match pamt p with
  | VAmt a => Ok (VAmt a)
  | VBal b => Ok (VBal b)
  | _ => Err EBadOp
  end.

Fixpoint sub_feed (m : values_map) (l : list post) : res values_map :=
  match l with
  | [] => Ok m
  | p :: l' => do a <- post_amount p;
               do m' <- sub_insert (pacct p) a (pvirt p) m;
               sub_feed m' l'
  end.

(* report_subtotal: one generated posting per entry, in key order *)
Definition sub_report (py : payee) (xid : Z) (comps : list post) (m : values_map) : list post :=
  map (fun e => mkPost xid (range_start comps) (range_finish comps) py py (fst e)
                       false 0 (fst (snd e))) m.

Definition subtotal_group (py : list post -> payee) (xid : Z) (comps : list post) : res (list post) :=
  match comps with
  | [] => Ok []                       (* component_posts.empty(): nothing is reported *)
  | _ => do m <- sub_feed [] comps; Ok (sub_report (py comps) xid comps m)
  end.

Definition subtotal (l : list post) : res (list post) :=
  subtotal_group (fun c => PUntil (range_finish c)) (xid_subtotal 0) l.

(* ------------------------------------------- by_payee_posts and day_of_week_posts *)

(* payee_subtotals: std::map<string, subtotal_posts> keyed by post.payee() (NOT by the
   transaction's payee: a posting that names its own payee is summed under that name);
   each entry is represented by the postings it has been fed, in order *)
Fixpoint bucket_insert (k : str) (p : post) (m : list (str * list post)) : list (str * list post) :=
  match m with
  | [] => [(k, [p])]
  | (k', ps) :: m' =>
      match str_compare k k' with
      | Lt => (k, [p]) :: m
      | Eq => (k', ps ++ [p]) :: m'
      | Gt => (k', ps) :: bucket_insert k p m'
      end
  end.

Definition payee_text (p : post) : res str :=
  match ppayee p with
  | PName s => Ok s
  | _ => Err EBadOp
  end.

Fixpoint payee_buckets (m : list (str * list post)) (l : list post) : res (list (str * list post)) :=
  match l with
  | [] => Ok m
  | p :: l' => do k <- payee_text p; payee_buckets (bucket_insert k p m) l'
  end.

Fixpoint report_buckets {K} (py : K -> list post -> payee) (b : Z) (m : list (K * list post)) : res (list post) :=
  match m with
  | [] => Ok []
  | (k, ps) :: m' =>
      do r <- subtotal_group (py k) (xid_subtotal b) ps;
      do rs <- report_buckets py (b + 1) m';
      Ok (r ++ rs)
  end.

(* The payee of a bucket's temporary transaction.  by_payee_posts::flush calls
   report_subtotal(pair.first.c_str()): the payee name arrives as spec_fmt and is run through
   format_date(range_finish, FMT_CUSTOM, name), i.e. std::strftime into a 128-byte buffer
   (times.cc:74-79).  A name without '%' and shorter than 127 bytes comes out unchanged;
   otherwise the label is the formatted text (and undefined from 127 bytes on).  How the
   source does it is read from the source on every run (Gen/ByPayeeLabel.v): once the name
   is copied literally the label is the name. *)
Fixpoint has_percent (s : str) : bool :=
  match s with
  | [] => false
  | c :: s' => (c =? 37) || has_percent s'
  end.

Definition payee_label (mode : payee_label_mode) (k : str) (comps : list post) : payee :=
  match mode with
  | LabelStrftime =>
      if has_percent k || (127 <=? Z.of_nat (length k)) then PFmt k (range_finish comps) else PName k
  | _ => PName k
  end.

Definition by_payee_mode (mode : payee_label_mode) (l : list post) : res (list post) :=
  match mode with
  | LabelUnknown => Err EOther
  | _ => do m <- payee_buckets [] l; report_buckets (payee_label mode) 0 m
  end.

Definition by_payee (l : list post) : res (list post) := by_payee_mode src_by_payee_label l.

(* boost day_of_week(): 0 = Sunday; 1970-01-01 was a Thursday *)
Definition day_of_week (d : Z) : Z := (d + 4) mod 7.

(* days_of_the_week[7]: posting lists; flush() walks i = 0..6 *)
Definition dow_bucket (i : Z) (l : list post) : list post :=
  filter (fun p => day_of_week (pdate p) =? i) l.

Definition day_of_week_posts (l : list post) : res (list post) :=
  report_buckets (fun k _ => PDow k) 0 (map (fun i => (i, dow_bucket i l)) [0; 1; 2; 3; 4; 5; 6]).

(* ------------------------------------------------------------------- collapse_posts *)

Definition total_name : str := [60; 84; 111; 116; 97; 108; 62].   (* "<Total>" *)

(* the ancestor of an account at depth <= n (n >= 1): its first n segments *)
Fixpoint take_segs (n : nat) (s : str) : str :=
  match s with
  | [] => []
  | c :: s' =>
      if c =? 58
      then match n with
           | S (S m) => c :: take_segs (S m) s'
           | _ => []
           end
      else c :: take_segs n s'
  end.

(* find_totals: the <Total> account, or the posting's account cut at collapse_depth *)
Definition totals_key (depth : Z) (p : post) : str :=
  if depth =? 0 then total_name else take_segs (Z.to_nat depth) (pacct p).

(* totals: std::map<account_t *, value_t, compare_account_names> - iterated in the order of
   the accounts' full names (filters.h:431-442; before /repo 9907b66 in address order) *)
Fixpoint totals_add (k : str) (v : value) (m : list (str * value)) : res (list (str * value)) :=
  match m with
  | [] => Ok [(k, v)]            (* add_or_set_value on a fresh (null) entry *)
  | (k', v') :: m' =>
      match str_compare k k' with
      | Lt => Ok ((k, v) :: m)
      | Eq => do s <- v_add false v' v; Ok ((k', s) :: m')
      | Gt => do r <- totals_add k v m'; Ok ((k', v') :: r)
      end
  end.

Fixpoint totals_feed (depth : Z) (m : list (str * value)) (l : list post) : res (list (str * value)) :=
  match l with
  | [] => Ok m
  | p :: l' => do m' <- totals_add (totals_key depth p) (pamt p) m; totals_feed depth m' l'
  end.

(* xact.payee = last_xact->payee: the transaction's payee, not the posting's *)
Definition last_payee (l : list post) : payee :=
  match rev l with p :: _ => pxpayee p | [] => PName [] end.

(* report_subtotal for the component posts of one transaction (display and only
   predicates are absent: displayed_count = count) *)
Definition collapse_group (depth : Z) (g : Z) (comps : list post) : res (list post) :=
  match comps with
  | [p] => if depth =? 0 then Ok [p]                       (* the posting itself *)
           else do m <- totals_feed depth [] comps;
                Ok (map (fun e => mkPost (xid_collapse g) (range_start comps) (range_finish comps)
                                         (last_payee comps) (last_payee comps) (fst e) false 0 (snd e)) m)
  | _ => do m <- totals_feed depth [] comps;
         Ok (map (fun e => mkPost (xid_collapse g) (range_start comps) (range_finish comps)
                                  (last_payee comps) (last_payee comps) (fst e) false 0 (snd e)) m)
  end.

Fixpoint collapse_runs (depth : Z) (g : Z) (rs : list (list post)) : res (list post) :=
  match rs with
  | [] => Ok []
  | r :: rs' => do o <- collapse_group depth g r;
                do os <- collapse_runs depth (g + 1) rs';
                Ok (o ++ os)
  end.

Definition collapse (depth : Z) (l : list post) : res (list post) :=
  collapse_runs depth 0 (runs l).

(* ------------------------------------------------------------------------ sort_posts *)

Inductive skey : Type := SDate | SPayee | SAccount | SAmount.

(* a sort value after .simplified(): INTEGER 0 for a zero amount is a number without
   commodity; KBal: a balance ("don't even try to sort balance values") *)
Inductive kval : Type :=
| KDate (d : Z)
| KStr (s : str)
| KAmt (c : option comm) (q : Q)
| KBal
| KBad.

Definition key_val (k : skey) (p : post) : kval :=
  match k with
  | SDate => KDate (pdate p)
  | SPayee => match ppayee p with PName s => KStr s | _ => KBad end
  | SAccount => KStr (pacct p)
  | SAmount => match simplify (pamt p) with
               | VInt z => KAmt None (inject_Z z)
               | VAmt a => KAmt (acomm a) (aq a)
               | VBal _ => KBal
               | _ => KBad
               end
  end.

Definition is_kbal (k : kval) : bool := match k with KBal => true | _ => false end.
Definition is_kbad (k : kval) : bool := match k with KBad => true | _ => false end.
Definition no_comm (c : option comm) : bool := match c with None => true | Some _ => false end.
Definition sym_of (c : option comm) : str := match c with Some s => s | None => [] end.

(* value_t::is_less_than on DATE/DATE, STRING/STRING and the INTEGER/AMOUNT cells:
   amounts of one commodity (or when one side has none) compare by quantity, amounts of
   two commodities by commodity_t::compare_by_commodity, i.e. by symbol *)
Definition k_cmp (a b : kval) : comparison :=
  match a, b with
  | KDate x, KDate y => Z.compare x y
  | KStr x, KStr y => str_compare x y
  | KAmt c q, KAmt c' q' =>
      if comm_eqb c c' || no_comm c || no_comm c' then Qcompare q q'
      else str_compare (sym_of c) (sym_of c')
  | _, _ => Eq
  end.

Definition k_lt (a b : kval) : bool := match k_cmp a b with Lt => true | _ => false end.

(* sort_value_is_less_than (value.cc:2185-2213) on the sort values of two postings;
   `x > y` between values is boost's `y < x` *)
Fixpoint post_lt (ks : list (bool * skey)) (a b : post) : bool :=
  match ks with
  | [] => false
  | (inv, k) :: ks' =>
      let x := key_val k a in
      let y := key_val k b in
      if is_kbal x || is_kbal y then post_lt ks' a b
      else if k_lt x y then negb inv
      else if k_lt y x then inv
      else post_lt ks' a b
  end.

(* std::stable_sort is specified in Proofs/RegroupProofs.v (is_stable_sort); the
   executable stand-in is a stable insertion sort, proved to meet the specification *)
Section Sort.
  Context {A : Type}.
  Variable lt : A -> A -> bool.

  Fixpoint insert (x : A) (s : list A) : list A :=
    match s with
    | [] => [x]
    | y :: t => if lt y x then y :: insert x t else x :: y :: t
    end.

  Fixpoint isort (l : list A) : list A :=
    match l with
    | [] => []
    | x :: l' => insert x (isort l')
    end.
End Sort.

Definition keys_ok (ks : list (bool * skey)) (p : post) : bool :=
  forallb (fun k => negb (is_kbad (key_val (snd k) p))) ks.

Definition sort_posts (ks : list (bool * skey)) (l : list post) : res (list post) :=
  if forallb (keys_ok ks) l then Ok (isort (post_lt ks) l) else Err EBadOp.

(* Is the order of the amounts among these postings a strict weak order?  It is when no
   amount lacks a commodity (a zero amount counts as lacking one: it is simplified to
   INTEGER 0), or when at most one commodity occurs; otherwise the comparator can be
   cyclic ($5 < -1 EUR < 0 < $5) and std::stable_sort's result is unspecified. *)
Inductive adom : Type := DAll | DOne (c : comm).

Definition amt_in_dom (d : adom) (k : kval) : bool :=
  match k with
  | KAmt c _ => match d with
                | DAll => negb (no_comm c)
                | DOne c0 => no_comm c || comm_eqb c (Some c0)
                end
  | KBal | KBad => false
  | _ => true
  end.

Definition post_in_dom (ks : list (bool * skey)) (d : adom) (p : post) : bool :=
  forallb (fun k => amt_in_dom d (key_val (snd k) p)) ks.

Fixpoint first_comm (l : list post) : option comm :=
  match l with
  | [] => None
  | p :: l' => match key_val SAmount p with
               | KAmt (Some c) _ => Some c
               | _ => first_comm l'
               end
  end.

Definition sort_determined (ks : list (bool * skey)) (l : list post) : bool :=
  forallb (post_in_dom ks DAll) l ||
  match first_comm l with
  | Some c => forallb (post_in_dom ks (DOne c)) l
  | None => forallb (post_in_dom ks (DOne [])) l
  end.

(* ---------------- subtotal_posts fed by another subtotalling handler (--by-payee --subtotal,
   --dow --subtotal; the same happens behind a period option): the same handler once more, on the
   rows of the first one, multi-commodity rows counted with their whole value *)
Definition xid_resubtotal : Z := xid_subtotal (-1).

Definition resubtotal (l : list post) : res (list post) :=
  subtotal_group (fun c => PUntil (range_finish c)) xid_resubtotal l.

(* ------------------------------------------------------------------------ calc_posts *)

(* xdata.total = previous total; add_or_set_value(total, visited_value) *)
Fixpoint calc (tot : value) (l : list post) : res (list (post * value)) :=
  match l with
  | [] => Ok []
  | p :: l' => do t <- v_add false tot (pamt p);
               do r <- calc t l';
               Ok ((p, t) :: r)
  end.

(* -------------------------------------------------------------------- truncate_xacts *)

Section Truncate.
  Context {A : Type}.
  Variable xact : A -> Z.
  Variables head tail : Z.

  (* operator(): postings are stored until (tail_count == 0 && head_count > 0 &&
     xacts_seen >= head_count), after which the handler is `completed`.
     `last` = last_xact (None = NULL), `seen` = xacts_seen *)
  Fixpoint trunc_store (last : option Z) (seen : Z) (l : list A) : list A :=
    match l with
    | [] => []
    | p :: l' =>
        let seen' := match last with
                     | Some x => if xact p =? x then seen else seen + 1
                     | None => seen
                     end in
        if (tail =? 0) && (0 <? head) && (head <=? seen') then []
        else p :: trunc_store (Some (xact p)) seen' l'
    end.

  (* flush(), first loop: l = number of transactions among the stored postings *)
  Fixpoint count_changes (x : Z) (l : list A) : Z :=
    match l with
    | [] => 0
    | p :: l' => (if xact p =? x then 0 else 1) + count_changes (xact p) l'
    end.

  Definition trunc_print (l i : Z) : bool :=
    (if head =? 0 then false
     else if 0 <? head then i <? head else (- head) <=? i) ||
    (if tail =? 0 then false
     else if 0 <? tail then l - i <=? tail else (- tail) <? l - i).

  (* flush(), second loop: i = index of the posting's transaction *)
  Fixpoint trunc_emit (l : Z) (x : Z) (i : Z) (ps : list A) : list A :=
    match ps with
    | [] => []
    | p :: ps' =>
        let i' := if xact p =? x then i else i + 1 in
        if trunc_print l i' then p :: trunc_emit l (xact p) i' ps'
        else trunc_emit l (xact p) i' ps'
    end.

  Definition trunc_flush (ps : list A) : list A :=
    match ps with
    | [] => []
    | p :: _ => trunc_emit (count_changes (xact p) ps + 1) (xact p) 0 ps
    end.

  Definition truncate (l : list A) : list A := trunc_flush (trunc_store None 0 l).
End Truncate.

(* --------------------------------------------------------------------- the whole chain *)

Inductive grouping : Type := GNone | GSubtotal | GByPayee | GDow
  | GByPayeeSub | GDowSub.   (* --by-payee --subtotal, --dow --subtotal: chain.cc puts subtotal_posts behind *)

Record opts : Type := mkOpts {
  o_filt     : filt;
  o_group    : grouping;
  o_collapse : option Z;                 (* Some depth: --collapse (0) or --depth N *)
  o_sort     : option (list (bool * skey));
  o_head     : option Z;
  o_tail     : option Z
}.

Definition stage_group (g : grouping) (l : list post) : res (list post) :=
  match g with
  | GNone => Ok l
  | GSubtotal => subtotal l
  | GByPayee => by_payee l
  | GDow => day_of_week_posts l
  | GByPayeeSub => do r <- by_payee l; resubtotal r
  | GDowSub => do r <- day_of_week_posts l; resubtotal r
  end.

Definition stage_collapse (c : option Z) (l : list post) : res (list post) :=
  match c with
  | None => Ok l
  | Some d => collapse d l
  end.

Definition stage_sort (s : option (list (bool * skey))) (l : list post) : res (list post) :=
  match s with
  | None => Ok l
  | Some ks => sort_posts ks l
  end.

Definition zopt (o : option Z) : Z := match o with Some z => z | None => 0 end.

Definition stage_truncate (h t : option Z) (rows : list (post * value)) : list (post * value) :=
  match h, t with
  | None, None => rows
  | _, _ => truncate (fun r => pxact (fst r)) (zopt h) (zopt t) rows
  end.

(* the postings that reach sort_posts, and whether their order under the keys is determined *)
Definition before_sort (o : opts) (l : list post) : res (list post) :=
  do g <- stage_group (o_group o) (filter (keep_post (o_filt o)) l);
  stage_collapse (o_collapse o) g.

Definition report (o : opts) (l : list post) : res (list (post * value)) :=
  do c <- before_sort o l;
  do s <- stage_sort (o_sort o) c;
  do rows <- calc VVoid s;
  Ok (stage_truncate (o_head o) (o_tail o) rows).

Definition report_determined (o : opts) (l : list post) : bool :=
  match o_sort o, before_sort o l with
  | Some ks, Ok c => sort_determined ks c
  | _, _ => true
  end.
