(* C11 (a): the bounded-copy discipline of ledger's fixed `char NAME[N]` buffers.
   A `site` is one (buffer, statement that writes through it) pair; the list of sites is
   regenerated from /repo/src on every run (Gen/BufferSites.v, harness/translators/c11_buffers.py).
   `extent w n` is the number of bytes the statement stores, terminator included, when the text
   it copies has n characters; `outcome w n` is what the surrounding code then does (the whole
   token was read / the input is rejected with an error / the token was cut silently).
   Definitions only; proofs are in Proofs/BuffersProofs.v. *)
From LedgerV Require Import Base.Prelude.
From Coq Require String.
Local Open Scope Z_scope.

Inductive write : Type :=
| ReadInto (M : Z)            (* READ_INTO(in, buf, M, c, cond): at most M characters, then a NUL *)
| ReadIntoSigned (M : Z)      (* amount.cc parse_quantity: `-` stored first and the limit lowered to M-1, else READ_INTO(.., M) *)
| StrcpyGuarded (G : Z)       (* if (strlen(src) > G) throw; strcpy(buf, src) *)
| StrcpyLiteral (L : Z)       (* strcpy(buf, "literal of L characters") *)
| StrcpyLine (M : Z)          (* strcpy(buf, line) where line lives in linebuf, filled by getline(linebuf, M) *)
| StrcpyUnguarded             (* strcpy(buf, src) with nothing bounding strlen(src) *)
| StrncpyBounded (B : Z)      (* if (n > B) throw; strncpy(buf, p, n); buf[n] = 0 *)
| StrncpyUnguarded            (* strncpy(buf, p, n); buf[n] = 0 with nothing bounding n *)
| Getline (M : Z)             (* istream::getline(buf, M) / fgets(buf, M, f): at most M-1 characters, then a NUL *)
| WriteAtMost (M : Z)         (* snprintf/strftime(buf, M, ..), istream::read(buf, M): never more than M bytes *)
| WriteExactly (K : Z)        (* memcpy(buf, .., K), a digest of K bytes, constant-index stores up to [K-1] *)
| PtrLoopBounded (B : Z)      (* while (p - buf < B && ..) *p++ = c;  *p = 0 *)
| PtrLoopUnbounded            (* *q++ = *p for every input character, no bound *)
| CopyGuarded (G X : Z)       (* if (len > G) throw; one byte per character, then X more bytes *)
| IndexLoopBounded (B X : Z)  (* for (i = 0; i < n && i < B; i++) buf[i] = ..; then X more bytes *)
| IndexLoopUnbounded (X : Z)  (* for (i = 0; i < n; i++) buf[i] = ..; then X more bytes; nothing bounds n *)
| Unrecognised.               (* the scanner could not classify a statement naming the buffer *)

Record site : Type := mkSite { sname : String.string; capacity : Z; swrite : write }.

(* bytes stored, terminator included, for an input of n characters (n >= 0).  A statement that
   throws before storing anything stores 0 bytes. *)
Definition extent (w : write) (n : Z) : Z :=
  match w with
  | ReadInto M => Z.min n M + 1
  | ReadIntoSigned M => Z.max (Z.min n M + 1) (1 + Z.min n (M - 1) + 1)
  | StrcpyGuarded G => if n <=? G then n + 1 else 0
  | StrcpyLiteral L => L + 1
  | StrcpyLine M => Z.min n (M - 1) + 1
  | StrcpyUnguarded => n + 1
  | StrncpyBounded B => if n <=? B then n + 1 else 0
  | StrncpyUnguarded => n + 1
  | Getline M => Z.min n (M - 1) + 1
  | WriteAtMost M => Z.min n M
  | WriteExactly K => K
  | PtrLoopBounded B => Z.min n B + 1
  | PtrLoopUnbounded => n + 1
  | CopyGuarded G X => if n <=? G then n + X else 0
  | IndexLoopBounded B X => Z.min n B + X
  | IndexLoopUnbounded X => n + X
  | Unrecognised => n + 1
  end.

(* a decidable sufficient-and-necessary test for `forall n >= 0, extent w n <= cap`;
   Unrecognised is never accepted *)
Definition write_ok (cap : Z) (w : write) : bool :=
  match w with
  | ReadInto M => (0 <=? M) && (M + 1 <=? cap)
  | ReadIntoSigned M => (1 <=? M) && (M + 1 <=? cap)
  | StrcpyGuarded G => (0 <=? G) && (G + 1 <=? cap)
  | StrcpyLiteral L => (0 <=? L) && (L + 1 <=? cap)
  | StrcpyLine M => (1 <=? M) && (M <=? cap)
  | Getline M => (1 <=? M) && (M <=? cap)
  | StrncpyBounded B => (0 <=? B) && (B + 1 <=? cap)
  | WriteAtMost M => (0 <=? M) && (M <=? cap)
  | WriteExactly K => (0 <=? K) && (K <=? cap)
  | PtrLoopBounded B => (0 <=? B) && (B + 1 <=? cap)
  | CopyGuarded G X => (0 <=? G) && (G + X <=? cap) && (0 <=? cap)
  | IndexLoopBounded B X => (0 <=? B) && (B + X <=? cap)
  | StrcpyUnguarded | StrncpyUnguarded | PtrLoopUnbounded | IndexLoopUnbounded _ | Unrecognised => false
  end.

Definition site_ok (s : site) : bool := write_ok (capacity s) (swrite s).

(* what the code around the store does with an input of n characters *)
Inductive outcome : Type := Complete | Rejected | Cut | Overrun.

Definition outcome_of (cap : Z) (w : write) (delimited : bool) (n : Z) : outcome :=
  if cap <? extent w n then Overrun
  else match w with
       | ReadInto M => if n <=? M then Complete else if delimited then Rejected else Cut
       | ReadIntoSigned M => if n <=? M - 1 then Complete else Cut
       | StrcpyGuarded G => if n <=? G then Complete else Rejected
       | StrncpyBounded B => if n <=? B then Complete else Rejected
       | CopyGuarded G _ => if n <=? G then Complete else Rejected
       | Getline M => if n <=? M - 1 then Complete else Rejected   (* read_line: "Line exceeds" *)
       | StrcpyLine M => if n <=? M - 1 then Complete else Rejected
       | PtrLoopBounded B => if n <=? B then Complete else Cut
       | IndexLoopBounded B _ => if n <=? B then Complete else Cut
       | WriteAtMost M => if n <=? M then Complete else Cut
       | _ => Complete
       end.

(* ---- the READ_INTO macro (utils.h:523-577), transcribed.
   `inp` is what the stream still holds; the loop runs while the next character exists, is not a
   newline, satisfies `cond` and fewer than `size` characters were stored; a backslash consumes
   the following character and stores its translation (or ends the loop at end of input).
   The result is the stored characters; `*_p = '\0'` then stores one more byte. *)
Definition unescape (c : Z) : Z :=
  if c =? 98 then 8 else if c =? 102 then 12 else if c =? 110 then 10
  else if c =? 114 then 13 else if c =? 116 then 9 else if c =? 118 then 11 else c.

Fixpoint read_into_loop (cond : Z -> bool) (size : Z) (stored : Z) (inp : list Z) : list Z :=
  match inp with
  | [] => []
  | c :: rest =>
      if (c =? 10) || negb (cond c) || negb (stored <? size) then []
      else if c =? 92 then
        match rest with
        | [] => []
        | d :: rest' => unescape d :: read_into_loop cond size (stored + 1) rest'
        end
      else c :: read_into_loop cond size (stored + 1) rest
  end.

(* bytes written into the target, terminator included *)
Definition read_into (cond : Z -> bool) (size : Z) (inp : list Z) : list Z :=
  read_into_loop cond size 0 inp ++ [0].

(* istream::getline(buf, M) on a line of `inp` characters (no newline inside): stores at most
   M-1 characters and a NUL; failbit is set when the line did not fit *)
Definition getline_store (M : Z) (inp : list Z) : list Z * bool :=
  let k := Z.to_nat (Z.min (Z.of_nat (length inp)) (M - 1)) in
  (firstn k inp ++ [0], (M - 1 <? Z.of_nat (length inp))).
