(* C12 - the physical-line reader underneath Model/Errors.v: what src/textual.cc does with
   the lines that are no item of the journal and still move `context.linenum`.

     comment_directive (1253-1262): the body of a `comment` / `test` block is read line by line
       through read_line until a line that starts with "end comment" / "end test" (or the end of
       the file); nothing in it is parsed, every physical line of it is counted
     read_line (314-359): `len = in.gcount(); if (len > 0) { context.linenum++; ...` - gcount
       includes the newline, so an EMPTY line counts like any other; the byte-order-mark test
       `context.linenum == N && starts_with_bom(..)` stands after the increment; a line that does
       not fit the line buffer throws "Line exceeds 4096 characters"
     parse (243-312): the catch block; a stream left failed by getline ends the file's loop

   The shape of these few source lines is regenerated into Gen/LineReader.v on every run; the
   facts about the over-long line and the byte-order mark are carried in a record so that the
   lemmas hold for either state of the source.  Definitions only; proofs in
   Proofs/ErrorsReaderProofs.v. *)
From LedgerV Require Import Base.Prelude Gen.StatusOfCount Gen.CheckingStyle Gen.NameChecks Gen.LineReader Model.Errors.
Local Open Scope Z_scope.

(* a physical line inside a comment / test block, as comment_directive sees it *)
Inductive cline : Type :=
| CEmpty        (* "" : getline stores nothing, gcount = 1 (the newline) *)
| CWs           (* blanks only: read_line strips it to length 0, the end-marker test is skipped *)
| CText.        (* anything else that does not start with "end comment" / "end test": an
                   indented `  end comment`, a transaction, an include, a bare `end` ... *)

(* does read_line, called from comment_directive, increment linenum for this line?  gcount is
   the line's bytes plus its newline, hence positive for every physical line *)
Definition line_counted (c : cline) : bool :=
  match comment_body_reader, read_line_count_rule with
  | BRReadLine, CountGcount => true
  | _, _ => false
  end.

Definition read_line_c (s : st) (c : cline) : st := if line_counted c then bump s else s.

(* while (in.good() && ! in.eof()) { if (read_line(line) > 0) { if (starts_with ..) break; } } *)
Fixpoint comment_body (s : st) (body : list cline) : st :=
  match body with
  | [] => s
  | c :: r => comment_body (read_line_c s c) r
  end.

(* closed: the block ends with an end-marker line (read and counted like the others); otherwise
   it runs to the end of the file *)
Definition comment_block (s : st) (body : list cline) (closed : bool) : st :=
  let s1 := comment_body s body in
  if closed then read_line_c s1 CText else s1.

(* the facts of Gen/LineReader.v the reader depends on *)
Record rd := mk_rd { rd_bom : Z; rd_long_counted : bool; rd_long_recovers : bool }.
Definition src_rd : rd := mk_rd bom_test_linenum long_line_counted long_line_recovers.

Inductive xline : Type :=
| XPlain (l : line)
| XComment (body : list cline) (closed : bool)   (* `comment` / `test ARGS` with the lines it swallows *)
| XLong                                          (* an unindented line of more than MAX_LINE - 1 bytes *)
| XInclude (name : Z) (bom : bool) (body : list xline).
    (* bom: the included file starts with EF BB BF *)

(* class of parse_error("Line exceeds 4096 characters") *)
Definition k_long : Z := 10.

(* the first line of a file that starts with a byte-order mark: linenum is 1 when the test
   `linenum == N` is made.  Stripped, the line is what it is; not stripped, its first byte is
   0xEF: not blank (error_flag is cleared), no directive character, no known directive word -
   read_next_directive falls through every switch and the line is dropped without a message
   (a line of two words or more; general_directive refuses a single word as a directive that
   lacks its argument - the harness puts no mark in front of such a line) *)
Definition bom_line (r : rd) (l : line) : line :=
  if rd_bom r =? 1 then l else LItem None false None.

Definition xpeek (rest : list xline) : bool :=
  match rest with XPlain l :: _ => ws_initial l | _ => false end.

(* read_line on an over-long line: a block still open is finished first (its peek failed: the line
   is not indented); the throw leaves the loop with linenum incremented or not *)
Definition step_long (r : rd) (file : Z) (chain : list loc) (s : st) : st :=
  let s0 := close file chain s in
  raise file chain k_long None (if rd_long_counted r then bump s0 else s0).

(* one element -> (state, does the file's loop go on) *)
Fixpoint xstep (r : rd) (file : Z) (chain : list loc) (s : st) (x : xline) (more : bool) (bom : bool)
         {struct x} : st * bool :=
  match x with
  | XPlain l => (step file chain s (if bom then bom_line r l else l) more, true)
  | XComment body closed =>
      (* the head line is an unindented one-line directive: error_flag = false, then the loop *)
      (comment_block (step_item file chain (bump (close file chain s)) None false None more) body closed, true)
  | XLong => (step_long r file chain s, rd_long_recovers r)
  | XInclude name b body =>
      let s1 := bump (close file chain s) in
      let chain' := chain ++ [(file, s_line s1)] in
      (join s1 ((fix go (first : bool) (cs : st) (ls : list xline) {struct ls} : st :=
                   match ls with
                   | [] => cs
                   | y :: t =>
                       let (cs', cont) := xstep r name chain' cs y (xpeek t) (first && b) in
                       if cont then go false cs' t else cs'
                   end) true init_st body), true)
  end.

Fixpoint xrun (r : rd) (file : Z) (chain : list loc) (first : bool) (xs : list xline) (s : st)
         {struct xs} : st :=
  match xs with
  | [] => s
  | y :: t =>
      let (s', cont) := xstep r file chain s y (xpeek t) first in
      if cont then xrun r file chain false t s' else s'
  end.

Definition xparse_file (r : rd) (file : Z) (chain : list loc) (bom : bool) (xs : list xline) : st :=
  xrun r file chain bom xs init_st.

(* ---- the same input as Model/Errors.v lines -------------------------------------------------
   a comment block of n physical lines reads like a one-line directive followed by n - 1 empty
   lines; an over-long line like a one-line directive that is rejected *)
Definition consumed (body : list cline) (closed : bool) : nat :=
  (length body + (if closed then 1 else 0))%nat.

Fixpoint expand_line (r : rd) (bom : bool) (x : xline) {struct x} : list line :=
  match x with
  | XPlain l => [if bom then bom_line r l else l]
  | XComment body closed => LItem None false None :: repeat LEmpty (consumed body closed)
  | XLong => [LItem (Some k_long) false None]
  | XInclude name b body =>
      [LInclude name ((fix go (first : bool) (ls : list xline) {struct ls} : list line :=
                         match ls with
                         | [] => []
                         | y :: t => expand_line r (first && b) y ++ go false t
                         end) true body)]
  end.

Fixpoint expand (r : rd) (first : bool) (xs : list xline) {struct xs} : list line :=
  match xs with
  | [] => []
  | y :: t => expand_line r first y ++ expand r false t
  end.

(* every over-long line is counted and skipped (or there is none) *)
Fixpoint long_fine (r : rd) (x : xline) {struct x} : bool :=
  match x with
  | XLong => rd_long_counted r && rd_long_recovers r
  | XInclude _ _ body =>
      (fix go (ls : list xline) {struct ls} : bool :=
         match ls with [] => true | y :: t => long_fine r y && go t end) body
  | _ => true
  end.

Fixpoint all_long_fine (r : rd) (xs : list xline) : bool :=
  match xs with [] => true | y :: t => long_fine r y && all_long_fine r t end.

(* ---- session ------------------------------------------------------------------------------ *)
Definition xfile := (Z * bool * list xline)%type.     (* name, starts with a byte-order mark, lines *)

Fixpoint xall_msgs (r : rd) (files : list xfile) : list msg :=
  match files with
  | [] => []
  | (name, bom, xs) :: rest => s_msgs (xparse_file r name [] bom xs) ++ xall_msgs r rest
  end.

Fixpoint xall_errs (r : rd) (files : list xfile) : Z :=
  match files with
  | [] => 0
  | (name, bom, xs) :: rest => s_errs (xparse_file r name [] bom xs) + xall_errs r rest
  end.

Definition xsession (r : rd) (files : list xfile) : result :=
  let n := xall_errs r files in
  mk_result (xall_msgs r files) n (if n >? 0 then os_status n else 0) (negb (n >? 0)).

Definition expand_files (r : rd) (files : list xfile) : list (Z * list line) :=
  map (fun f => match f with (name, bom, xs) => (name, expand r bom xs) end) files.

(* what the driver runs: the reader of the source under test *)
Definition run_xsession (files : list xfile) : result := xsession src_rd files.
