(* C11: the recursion depth of the expression evaluator (op.cc compile / calc, scope.cc resolve).
   op_t::calc tests `depth > MAX_DEPTH` on entry and hands `depth + 1` to everything it evaluates
   next: its operands, the definition of an identifier, the body of a called function, and - through
   the depth stored in the call_scope_t - the arguments of a call, which are evaluated later by
   call_scope_t::resolve.  A chain of nested evaluations is the list of the edges it went
   through; an edge either hands the depth on (Propagate) or starts again at 0 (Reset: a
   call_scope_t built without its depth argument, a calc() called without one).
   `descend L es d n` follows the chain from depth d with n frames already on the stack: it ends
   when the guard fires (Cut frames) or when the chain is used up (Deeper frames).
   Definitions only. *)
From LedgerV Require Import Base.Prelude.
Local Open Scope Z_scope.

Inductive edge : Type := Propagate | Reset.

Inductive descent : Type :=
| Cut (frames : nat)        (* "Value expression recurses too deeply" after that many frames *)
| Deeper (frames : nat).    (* the whole chain was followed: that many frames are on the stack *)

Fixpoint descend (L : Z) (es : list edge) (d : Z) (n : nat) : descent :=
  if L <? d then Cut n
  else match es with
       | [] => Deeper n
       | e :: t => descend L t (match e with Propagate => d + 1 | Reset => 0 end) (S n)
       end.

Definition edge_of_bool (propagates : bool) : edge := if propagates then Propagate else Reset.
