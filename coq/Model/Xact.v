(* Model of xact_base_t::finalize (xact.cc:158-423) with the cost handling of
   parse_post (textual.cc:1563-1642) and the part of commodity_pool_t::exchange
   (pool.cc:236-320) that influences the balance (basis cost / gain-loss of a lot price).
   Not modelled: the computed {price} [date] annotation that exchange attaches to the amount
   of a posting with a cost (invisible unless --lots), price-history recording (C10). *)
From LedgerV Require Import Base.Prelude Base.Round Model.Amount.
Local Open Scope Z_scope.

Inductive pkind := PReal | PVirtual | PBalVirtual.   (* A, (A), [A] *)

Record post : Type := mkPost {
  p_acct : str;
  p_kind : pkind;
  p_amt : option amount;        (* None = elided *)
  p_cost : option amount;       (* total cost as parse_post stores it *)
  p_lotprice : option amount;   (* per-unit {price} written on the amount, if any *)
  p_calculated : bool;          (* POST_CALCULATED *)
  p_generated : bool;           (* ITEM_GENERATED *)
  p_cost_calculated : bool      (* POST_COST_CALCULATED *)
}.

Definition must_balance (p : post) : bool :=
  match p_kind p with PVirtual => false | _ => true end.

(* ---- parse_post's cost arithmetic: `@ u` (per unit) and `@@ t` (total) ---- *)
(* the written cost is parsed PARSE_NO_MIGRATE (keep set, pool not taught), unrounded *)
Definition cost_per_unit (cp : comm -> Z) (u amt : amount) : amount :=
  let c := amt_mul cp (mkAmt (aq u) (aprec u) true (acomm u)) amt in
  mkAmt (aq c) (aprec c) (akeep c) (acomm u).                  (* set_commodity(cost_commodity) *)

Definition cost_total (t amt : amount) : amount :=
  let t' := mkAmt (aq t) (aprec t) true (acomm t) in
  if Qnum (aq amt) <? 0 then amt_neg t' else t'.

(* ---- finalize ---- *)
Definition unkeep (a : amount) : amount := mkAmt (aq a) (aprec a) false (acomm a).   (* rounded() *)

Definition add_or_set (ord : bool) (bal : value) (a : amount) : res value :=
  match bal with
  | VVoid => Ok (VAmt a)
  | _ => v_add ord bal (VAmt a)
  end.

Definition balancing_amount (p : post) : option amount :=
  match p_cost p with Some c => Some c | None => p_amt p end.

Fixpoint scan_posts (ord : bool) (ps : list post) (i : nat) (bal : value) (nul : option nat)
  : res (value * option nat) :=
  match ps with
  | [] => Ok (bal, nul)
  | p :: ps' =>
      if negb (must_balance p) then scan_posts ord ps' (S i) bal nul
      else match balancing_amount p with
           | Some a => do bal' <- add_or_set ord bal (unkeep a); scan_posts ord ps' (S i) bal' nul
           | None => match nul with
                     | Some _ => Err ETwoNulls
                     | None => scan_posts ord ps' (S i) bal (Some i)
                     end
           end
  end.

Definition is_annotated (a : amount) : bool :=
  match acomm a with Some c => existsb (fun x => x =? 126) c | None => false end.

(* the loop that picks top_post and stops at the first posting with a written cost; only postings in one of the
   two commodities that remain (`keep`) are candidates - not those of a commodity that cancelled *)
Fixpoint find_top (keep : amount -> bool) (ps : list post) (top : option post) : option post * bool :=
  match ps with
  | [] => (top, false)
  | p :: ps' =>
      let top' := match p_amt p with
                  | Some a => if must_balance p && keep a
                              then (if is_annotated a then Some p
                                    else match top with None => Some p | _ => top end)
                              else top
                  | None => top
                  end in
      match p_cost p with
      | Some _ => if p_cost_calculated p then find_top keep ps' top' else (top', true)
      | None => find_top keep ps' top'
      end
  end.

Definition v_is_zero (cp : comm -> Z) (v : value) : bool :=
  match v with
  | VVoid => true
  | VBool b => negb b
  | VInt z => z =? 0
  | VAmt a => is_zero cp a
  | VBal b => bal_is_zero cp b
  end.

(* the two-commodity implied-rate branch (xact.cc:220-283); returns the postings with their
   computed costs and the updated balance *)
Fixpoint apply_rate (ord : bool) (cp : comm -> Z) (rate : amount) (c : option comm)
         (ps : list post) (bal : value) : res (list post * value) :=
  match ps with
  | [] => Ok ([], bal)
  | p :: ps' =>
      match p_amt p with
      | Some amt =>
          if must_balance p && comm_eqb (acomm amt) c then
            do b1 <- v_sub ord bal (VAmt amt);
            let cost := amt_mul cp rate amt in
            do b2 <- v_add ord b1 (VAmt cost);
            do r <- apply_rate ord cp rate c ps' b2;
            Ok (mkPost (p_acct p) (p_kind p) (p_amt p) (Some cost) (p_lotprice p)
                       (p_calculated p) (p_generated p) true :: fst r, snd r)
          else do r <- apply_rate ord cp rate c ps' bal; Ok (p :: fst r, snd r)
      | None => do r <- apply_rate ord cp rate c ps' bal; Ok (p :: fst r, snd r)
      end
  end.

Definition infer_rate (ord : bool) (cp : comm -> Z) (ps : list post) (bal : value) (nul : option nat)
  : res (list post * value) :=
  match nul, bal with
  | None, VBal b =>
    (* components that are exactly zero (left behind by a commodity whose postings cancelled) are not counted *)
    match filter (fun a => negb (is_realzero a)) b with
    | [x0; y0] =>
      match find_top (fun a => comm_eqb (acomm a) (acomm x0) || comm_eqb (acomm a) (acomm y0)) ps None with
      | (Some tp, false) =>
          if negb (is_zero cp x0) && negb (is_zero cp y0) then
            let tc := match p_amt tp with Some a => acomm a | None => None end in
            let (x, y) := if comm_eqb (acomm x0) tc then (x0, y0) else (y0, x0) in
            do q <- amt_div cp y x;
            let rate := let r := amt_abs q in mkAmt (aq r) (aprec r) true (acomm r) in   (* unrounded *)
            apply_rate ord cp rate (acomm x) ps bal
          else Ok (ps, bal)
      | _ => Ok (ps, bal)
      end
    | _ => Ok (ps, bal)
    end
  | _, _ => Ok (ps, bal)
  end.

(* exchange(): same-commodity cost is an error; a lot price written on the amount gives a
   basis cost whose difference from the final cost (gain/loss) is added to cost and balance *)
Fixpoint exchange_posts (ord : bool) (cp : comm -> Z) (ps : list post) (bal : value)
  : res (list post * value) :=
  match ps with
  | [] => Ok ([], bal)
  | p :: ps' =>
      match p_amt p, p_cost p with
      | Some amt, Some cost =>
          if comm_eqb (acomm amt) (acomm cost) then Err ECostSameComm
          else
            match p_lotprice p with
            | Some lp =>
                let basis0 := amt_mul cp lp amt in
                let basis := mkAmt (aq basis0) (aprec basis0) true (acomm basis0) in     (* unrounded *)
                if comm_eqb (acomm basis) (acomm cost) then
                  do gl <- amt_sub basis cost;
                  if is_zero cp gl then
                    do r <- exchange_posts ord cp ps' bal; Ok (p :: fst r, snd r)
                  else
                    let gl' := unkeep gl in
                    do bal' <- (if must_balance p then add_or_set ord bal gl' else Ok bal);
                    do cost' <- amt_add cost gl';
                    do r <- exchange_posts ord cp ps' bal';
                    Ok (mkPost (p_acct p) (p_kind p) (p_amt p) (Some cost') (p_lotprice p)
                               (p_calculated p) (p_generated p) (p_cost_calculated p) :: fst r, snd r)
                else do r <- exchange_posts ord cp ps' bal; Ok (p :: fst r, snd r)
            | None => do r <- exchange_posts ord cp ps' bal; Ok (p :: fst r, snd r)
            end
      | _, _ => do r <- exchange_posts ord cp ps' bal; Ok (p :: fst r, snd r)
      end
  end.

(* balance_t::sorted_amounts: Model/Amount.v (comm_key, comm_le, insert_sorted, sorted_amounts) *)

Definition fill_amounts (bal : value) : res (list amount) :=
  match bal with
  | VBal [] => Ok [amt_of_Z 0]          (* nothing left to offset: the elided amount is a plain zero *)
  | VBal [a] => Ok [a]
  | VBal b => Ok (sorted_amounts b)
  | VAmt a => Ok [a]
  | VInt z => Ok [amt_of_Z z]
  | VVoid => Ok []
  | VBool b => if b then Err EUnbalanced else Ok []
  end.

Fixpoint set_null (ps : list post) (i : nat) (a : amount) : list post :=
  match ps, i with
  | [], _ => []
  | p :: ps', O => mkPost (p_acct p) (p_kind p) (Some a) (p_cost p) (p_lotprice p)
                          true (p_generated p) (p_cost_calculated p) :: ps'
  | p :: ps', S i' => p :: set_null ps' i' a
  end.

Definition fill_null (ps : list post) (i : nat) (amts : list amount) : list post :=
  match amts with
  | [] => ps
  | a :: rest =>
      let np := nth i ps (mkPost [] PReal None None None false false false) in
      set_null ps i (amt_neg a) ++
      map (fun x => mkPost (p_acct np) (p_kind np) (Some (amt_neg x)) None None true true false) rest
  end.

Inductive outcome : Type :=
| Accepted (ps : list post)
| Ignored.                       (* all postings null: finalize returns false, no error *)

(* everything after the balance scan and the bucket rule *)
Definition finalize_rest (ord : bool) (cp : comm -> Z) (ps1 : list post) (bal0 : value) (nul1 : option nat)
  : res outcome :=
  do r1 <- infer_rate ord cp ps1 bal0 nul1;
  do r2 <- exchange_posts ord cp (fst r1) (snd r1);
  let (ps3, bal3) := r2 in
  do r3 <- (match nul1 with
            | Some i => do amts <- fill_amounts bal3; Ok (fill_null ps3 i amts, VVoid)
            | None => Ok (ps3, bal3)
            end);
  let (ps4, bal4) := r3 in
  if negb (v_is_zero cp bal4) then Err EUnbalanced
  else
    let all_null := forallb (fun p => match p_amt p with None => true | Some _ => false end) ps4 in
    let some_null := existsb (fun p => match p_amt p with None => true | Some _ => false end) ps4 in
    if all_null then Ok Ignored
    else if some_null then Err ENullLeft
    else Ok (Accepted ps4).

(* bucket: the default account of an `A`/bucket directive, if one is in force *)
Definition finalize (ord : bool) (cp : comm -> Z) (bucket : option str) (ps0 : list post) : res outcome :=
  do sn <- scan_posts ord ps0 0 VVoid None;
  let (bal0, nul0) := sn in
  let (ps1, nul1) :=
    match bucket, ps0, bal0 with
    | Some b, [_], VVoid => (ps0, nul0)
    | Some b, [_], _ => (ps0 ++ [mkPost b PReal None None None false false false], Some 1%nat)
    | _, _, _ => (ps0, nul0)
    end in
  finalize_rest ord cp ps1 bal0 nul1.

(* ---- a journal: the pool learns from every written posting amount, in file order, and each
   transaction is finalized with the pool as it is at that point ---- *)
Definition pool := list (str * Z).      (* base symbol -> display precision *)

Fixpoint pool_get (pl : pool) (s : str) : Z :=
  match pl with
  | [] => 0
  | (k, v) :: pl' => if str_eqb k s then v else pool_get pl' s
  end.

Fixpoint pool_learn (pl : pool) (s : str) (p : Z) : pool :=
  match pl with
  | [] => [(s, p)]
  | (k, v) :: pl' => if str_eqb k s then (k, if v <? p then p else v) :: pl' else (k, v) :: pool_learn pl' s p
  end.

Definition cp_of (pl : pool) (c : comm) : Z := pool_get pl (base_sym c).

(* what parsing a transaction teaches: every written (non-cost, non-annotation) amount *)
Definition learn_posts (pl : pool) (ps : list post) : pool :=
  fold_left (fun acc p => match p_amt p with
                          | Some a => match acomm a with
                                      | Some c => if akeep a then acc else pool_learn acc (base_sym c) (aprec a)
                                      | None => acc
                                      end
                          | None => acc
                          end) ps pl.

Fixpoint run_journal (ord : bool) (bucket : option str) (pl : pool) (xs : list (list post))
  : list (res outcome) :=
  match xs with
  | [] => []
  | x :: xs' =>
      let pl' := learn_posts pl x in
      finalize ord (cp_of pl') bucket x :: run_journal ord bucket pl' xs'
  end.
