(* C11: the payee look-up of journal_t::register_account (journal.cc:118-157).

     account_t * result = expand_aliases(name);  if (! result) result = master_account->find_account(name);
     if (result->name == "Unknown")
       foreach (value, payees_for_unknown_accounts)
         if (post && post->xact && value.first.match(post->xact->payee)) { result = value.second; break; }

   Who registers an account (the `post` argument):
     - an `account NAME` directive                                   post == NULL             NoPost
     - a posting line of an automated (`= PRED`) or periodic (`~ PERIOD`) transaction:
       parse_post(..., xact = NULL, ...); and the posting auto_xact_t::extend_xact generates,
       registered before it is added to the matching transaction    post->xact == NULL       PostNoXact
     - a posting line of a dated transaction                         post->xact->payee        PostIn payee

   `result->name` is the LAST segment of the account's full name.  The table
   payees_for_unknown_accounts holds, in file order, one (mask, account) entry per `payee REGEX`
   sub-directive of the `account` directives read SO FAR.  A mask is a boost regex searched for
   without regard to case; the masks modelled here are a literal word with an optional `^` in
   front and an optional `$` behind.

   `tests_xact` says whether the source tests `post->xact` before it reads `post->xact->payee`
   (Gen/SafetyGuards.src_unknown_payee_tests_post_and_xact).  Without the test the payee of a
   posting that has no transaction is read through the null pointer as soon as the table has an
   entry to match it against: NullDeref.
   Definitions only. *)
From LedgerV Require Import Base.Prelude.
Local Open Scope Z_scope.

Definition acct := list str.                   (* ':'-separated segments *)

Definition lower (c : Z) : Z := if (65 <=? c) && (c <=? 90) then c + 32 else c.

Fixpoint prefix_ci (p s : str) : bool :=
  match p, s with
  | [], _ => true
  | a :: p', b :: s' => Z.eqb (lower a) (lower b) && prefix_ci p' s'
  | _ :: _, [] => false
  end.

Fixpoint whole_ci (p s : str) : bool :=
  match p, s with
  | [], [] => true
  | a :: p', b :: s' => Z.eqb (lower a) (lower b) && whole_ci p' s'
  | _, _ => false
  end.

(* regex_search: the pattern may start at any position (the empty suffix included) *)
Fixpoint search_ci (at_end : bool) (p s : str) : bool :=
  (if at_end then whole_ci p s else prefix_ci p s)
  || match s with [] => false | _ :: s' => search_ci at_end p s' end.

Record pmask : Type := { at_start : bool; at_end : bool; word : str }.

Definition mask_match (m : pmask) (s : str) : bool :=
  if at_start m then (if at_end m then whole_ci (word m) s else prefix_ci (word m) s)
  else search_ci (at_end m) (word m) s.

Definition mapping := (pmask * acct)%type.

Fixpoint first_match (maps : list mapping) (payee : str) : option acct :=
  match maps with
  | [] => None
  | (m, a) :: maps' => if mask_match m payee then Some a else first_match maps' payee
  end.

Inductive registrant : Type :=
| NoPost
| PostNoXact
| PostIn (payee : str).

Inductive reg_result : Type :=
| Registered (a : acct)
| NullDeref.

Definition unknown_word : str := [85; 110; 107; 110; 111; 119; 110].     (* "Unknown" *)

Definition last_is_unknown (name : acct) : bool :=
  match rev name with
  | s :: _ => str_eqb s unknown_word
  | [] => false
  end.

Definition register_unknown (tests_xact : bool) (name : acct) (maps : list mapping) (who : registrant) : reg_result :=
  if last_is_unknown name then
    match who with
    | NoPost => Registered name
    | PostNoXact =>
        if tests_xact then Registered name
        else match maps with [] => Registered name | _ :: _ => NullDeref end
    | PostIn payee =>
        match first_match maps payee with
        | Some a => Registered a
        | None => Registered name
        end
    end
  else Registered name.
