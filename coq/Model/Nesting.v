(* C11 (b): nesting depth of the recursive-descent expression parser (parser.cc:38-72, 520-549).
   Every `(` met by parse_value_term calls parse_value_expr again, through the whole ladder
   value_expr > assign > lambda > comma > querycolon > or > and > logic > add > mul > unary > dot >
   call > value_term (14 C++ frames per level).  The model keeps exactly that control skeleton:
   tokens are `(`, `)`, a terminal and a binary operator; an expression is a term followed by
   (operator term)*, parsed by a loop, so only parentheses deepen the recursion (function calls
   `f(x)` and juxtaposition are not modelled).  The parser
   returns the deepest level reached.  `limit` is the nesting bound of the source, if any
   (Gen/SafetyGuards.src_parse_depth_limit; None on a tree without a guard).
   Definitions only. *)
From LedgerV Require Import Base.Prelude.
Local Open Scope Z_scope.

Inductive tok : Type := TLp | TRp | TVal | TOp.

(* frames of the C++ call ladder between two successive `(` *)
Definition frames_per_level : Z := 14.

(* The C++ parser is lenient, and the model keeps that: a term may be EMPTY (parse_value_term
   pushes back any token that cannot start a term and returns a null node), an empty expression
   is accepted (`()` evaluates to nothing), an operator must be followed by a non-empty term
   ("operator not followed by argument"), `(` must be closed by `)`, and whatever follows a
   complete top-level expression is ignored (`1)` prints 1).
   Results are (non-empty?, deepest level reached, remaining tokens); d = number of enclosing
   parentheses; fuel = 3 * length of the input + 3 always suffices. *)
Fixpoint parse_term (limit : option Z) (fuel : nat) (d : Z) (ts : list tok) : res (bool * Z * list tok) :=
  match fuel with
  | O => Err EOutOfFuel
  | S fuel' =>
      match ts with
      | TVal :: rest => Ok (true, d, rest)
      | TLp :: rest =>
          if match limit with Some L => L <? d + 1 | None => false end
          then Err EOther                                 (* "expression nested too deeply" *)
          else match parse_expr limit fuel' (d + 1) rest with
               | Ok (nn, m, TRp :: rest') => Ok (nn, m, rest')
               | Ok _ => Err EOther                       (* wanted ')' *)
               | Err e => Err e
               end
      | _ => Ok (false, d, ts)                            (* push_token: nothing consumed *)
      end
  end
with parse_expr (limit : option Z) (fuel : nat) (d : Z) (ts : list tok) : res (bool * Z * list tok) :=
  match fuel with
  | O => Err EOutOfFuel
  | S fuel' =>
      match parse_term limit fuel' d ts with
      | Ok (true, m, rest) => parse_tail limit fuel' d m rest
      | r => r
      end
  end
with parse_tail (limit : option Z) (fuel : nat) (d m : Z) (ts : list tok) : res (bool * Z * list tok) :=
  match fuel with
  | O => Err EOutOfFuel
  | S fuel' =>
      match ts with
      | TOp :: rest =>
          match parse_term limit fuel' d rest with
          | Ok (true, m', rest') => parse_tail limit fuel' d (Z.max m m') rest'
          | Ok (false, _, _) => Err EOther                (* operator not followed by argument *)
          | Err e => Err e
          end
      | _ => Ok (true, m, ts)
      end
  end.

(* a whole expression; trailing tokens are ignored, as expr_t::parse does *)
Definition parse_depth (limit : option Z) (ts : list tok) : res Z :=
  match parse_expr limit (3 * length ts + 3) 0 ts with
  | Ok (_, m, _) => Ok m
  | Err e => Err e
  end.

(* The length bound of parser.h next_token: every token fetched from the stream is counted, the
   one that ends the expression included (end of input, or the first token the top-level
   expression does not consume), and fetching more than T tokens is an error.  The count only
   grows, so an expression is accepted iff the parse succeeds and consumed + 1 <= T. *)
Definition parse_guarded (dlimit tlimit : option Z) (ts : list tok) : res Z :=
  match parse_expr dlimit (3 * length ts + 3) 0 ts with
  | Ok (_, m, rest) =>
      let fetched := Z.of_nat (length ts) - Z.of_nat (length rest) + 1 in
      if match tlimit with Some T => T <? fetched | None => false end
      then Err EOther                                     (* "Expression is too long" *)
      else Ok m
  | Err e => Err e
  end.

(* tokens of an accepted expression that the parser consumed *)
Definition consumed (dlimit : option Z) (ts : list tok) : Z :=
  match parse_expr dlimit (3 * length ts + 3) 0 ts with
  | Ok (_, _, rest) => Z.of_nat (length ts) - Z.of_nat (length rest)
  | Err _ => 0
  end.

(* a plain numeric guard `if (n > limit) throw`: query nesting, query terms, roundto places *)
Definition within_limit (limit : option Z) (n : Z) : bool :=
  match limit with Some L => n <=? L | None => true end.

(* query.cc parse_query_term counts its own calls (term_count) and refuses the call that exceeds
   MAX_TERMS.  It is called once for every term, once for every `(` (which then parses the group),
   once more at the end of every group (the call that meets `)` or the end of the query and pushes
   it back), and not for `and` / `or` / `not`, which the operator loops consume themselves.
   For k plain terms inside d nested parentheses - `( ( ... t1 t2 .. tk ... ) )` - that is
   2 d + k + 1 calls.  The nesting bound is tested when a `(` is met, after the count. *)
Definition query_term_calls (d k : Z) : Z := 2 * d + k + 1.

Definition query_accept (dlimit tlimit : option Z) (d k : Z) : bool :=
  within_limit dlimit d && within_limit tlimit (query_term_calls d k).

(* n opening parentheses, a terminal, n closing ones *)
Definition nest (n : nat) : list tok := repeat TLp n ++ TVal :: repeat TRp n.

(* k + 1 terminals joined by k operators: 2 k + 1 tokens *)
Fixpoint op_tail (k : nat) : list tok :=
  match k with
  | O => []
  | S k' => TOp :: TVal :: op_tail k'
  end.
Definition chain (k : nat) : list tok := TVal :: op_tail k.

Definition stack_frames (depth : Z) : Z := frames_per_level * (depth + 1).
