(* C11 (b): nesting depth of the recursive-descent expression parser (parser.cc:38-72, 520-549).
   Every `(` met by parse_value_term calls parse_value_expr again, through the whole ladder
   value_expr > assign > lambda > comma > querycolon > or > and > logic > add > mul > unary > dot >
   call > value_term (14 C++ frames per level).  The model keeps exactly that control skeleton:
   tokens are `(`, `)`, a terminal and a binary operator; an expression is a term followed by
   (operator term)*, parsed by a loop, so only parentheses deepen the recursion.  The parser
   returns the deepest level reached.  `limit` is the nesting bound of the source, if any
   (Gen/SafetyGuards.src_parse_depth_limit; None on a tree without a guard).
   Definitions only. *)
From LedgerV Require Import Base.Prelude.
Local Open Scope Z_scope.

Inductive tok : Type := TLp | TRp | TVal | TOp.

(* frames of the C++ call ladder between two successive `(` *)
Definition frames_per_level : Z := 14.

(* parse_term fuel d ts: d = number of enclosing parentheses; returns (deepest level, rest).
   The two functions of the C++ (term, and the operator loop of the ladder) are fused into one
   structurally recursive function over the fuel; fuel = length of the input suffices. *)
Fixpoint parse_term (limit : option Z) (fuel : nat) (d : Z) (ts : list tok) : res (Z * list tok) :=
  match fuel with
  | O => Err EOutOfFuel
  | S fuel' =>
      match ts with
      | TVal :: rest => parse_tail limit fuel' d d rest
      | TLp :: rest =>
          match limit with
          | Some L => if L <? d + 1 then Err EOther      (* "expression nested too deeply" *)
                      else inner limit fuel' d rest
          | None => inner limit fuel' d rest
          end
      | _ => Err EOther                                  (* operator not followed by argument *)
      end
  end
with inner (limit : option Z) (fuel : nat) (d : Z) (rest : list tok) : res (Z * list tok) :=
  match fuel with
  | O => Err EOutOfFuel
  | S fuel' =>
      match parse_term limit fuel' (d + 1) rest with
      | Ok (m, TRp :: rest') => parse_tail limit fuel' d m rest'
      | Ok (_, _) => Err EOther                          (* missing ')' *)
      | Err e => Err e
      end
  end
with parse_tail (limit : option Z) (fuel : nat) (d m : Z) (ts : list tok) : res (Z * list tok) :=
  match fuel with
  | O => Ok (m, ts)
  | S fuel' =>
      match ts with
      | TOp :: rest =>
          match parse_term limit fuel' d rest with
          | Ok (m', rest') => Ok (Z.max m m', rest')
          | Err e => Err e
          end
      | _ => Ok (m, ts)
      end
  end.

(* a whole expression: all tokens consumed *)
Definition parse_depth (limit : option Z) (ts : list tok) : res Z :=
  match parse_term limit (3 * length ts + 3) 0 ts with
  | Ok (m, []) => Ok m
  | Ok (_, _ :: _) => Err EOther
  | Err e => Err e
  end.

(* n opening parentheses, a terminal, n closing ones *)
Definition nest (n : nat) : list tok := repeat TLp n ++ TVal :: repeat TRp n.

Definition stack_frames (depth : Z) : Z := frames_per_level * (depth + 1).
