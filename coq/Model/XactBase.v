(* xact_base_t::finalize (xact.cc:158-446) as it runs on a transaction that is NOT a dated xact_t - a `~ PERIOD`
   transaction (period_xact_t: no date, finalized by instance_t::period_xact_directive, textual.cc:715-731) - and the
   wording of the error for a second elided amount (xact.cc:116-123, 182-196).  Model/Xact.v is the dated xact_t case.
   The two guards and the byte table come from the source as it is now (Gen/NullFill.v).
   Not modelled: journal->extend_xact on the periodic transaction (automated transactions, C16). *)
From LedgerV Require Import Base.Prelude Base.Round Model.Amount Model.Xact Gen.NullFill.
Local Open Scope Z_scope.

(* ---- account_ends_with_special_char ---- *)
Definition is_digit_byte (z : Z) : bool := (48 <=? z) && (z <=? 57).

Definition ends_special (name : str) : bool :=
  match rev name with
  | [] => false
  | c :: _ => (src_special_last_isdigit && is_digit_byte c) || existsb (Z.eqb c) src_special_last_bytes
  end.

(* the postings the scan finds without amount, in order *)
Definition is_null_post (p : post) : bool :=
  must_balance p && match balancing_amount p with None => true | Some _ => false end.

Definition null_accts (ps : list post) : list str := map p_acct (filter is_null_post ps).

(* the throw happens at the SECOND amount-less posting (`post`), null_post being the first; the account named is
   post's if it ends in a special byte, else null_post's *)
Inductive two_null_class : Type :=
| TwoNullsPlain                       (* "Only one posting with null amount allowed per transaction" *)
| TwoNullsMisspelt (name : str).      (* "Posting with null amount's account may be misspelled: NAME" *)

Definition two_null_error (ps : list post) : option two_null_class :=
  match null_accts ps with
  | a :: b :: _ => Some (if ends_special b then TwoNullsMisspelt b
                         else if ends_special a then TwoNullsMisspelt a else TwoNullsPlain)
  | _ => None
  end.

(* ---- finalize with its two guards: has_date() and dynamic_cast<xact_t *>(this) ---- *)
Definition finalize_rest_base (dated isx : bool) (ord : bool) (cp : comm -> Z) (ps1 : list post) (bal0 : value)
           (nul1 : option nat) : res outcome :=
  do r1 <- infer_rate ord cp ps1 bal0 nul1;
  do r2 <- (if dated then exchange_posts ord cp (fst r1) (snd r1) else Ok r1);
  let (ps3, bal3) := r2 in
  do r3 <- (match nul1 with
            | Some i => do amts <- fill_amounts bal3; Ok (fill_null ps3 i amts, VVoid)
            | None => Ok (ps3, bal3)
            end);
  let (ps4, bal4) := r3 in
  if negb (v_is_zero cp bal4) then Err EUnbalanced
  else if isx then
    let all_null := forallb (fun p => match p_amt p with None => true | Some _ => false end) ps4 in
    let some_null := existsb (fun p => match p_amt p with None => true | Some _ => false end) ps4 in
    if all_null then Ok Ignored
    else if some_null then Err ENullLeft
    else Ok (Accepted ps4)
  else Ok (Accepted ps4).

Definition finalize_base (dated isx : bool) (ord : bool) (cp : comm -> Z) (bucket : option str) (ps0 : list post)
  : res outcome :=
  do sn <- scan_posts ord ps0 0 VVoid None;
  let (bal0, nul0) := sn in
  let (ps1, nul1) :=
    match bucket, ps0, bal0 with
    | Some b, [_], VVoid => (ps0, nul0)
    | Some b, [_], _ => (ps0 ++ [mkPost b PReal None None None false false false], Some 1%nat)
    | _, _, _ => (ps0, nul0)
    end in
  finalize_rest_base dated isx ord cp ps1 bal0 nul1.

(* a periodic transaction has no date and is no xact_t: exchange() runs only if the source does not guard it by
   has_date(), the null-left decision only if the source does not guard it by the dynamic_cast *)
Definition finalize_periodic (ord : bool) (cp : comm -> Z) (bucket : option str) (ps0 : list post) : res outcome :=
  if src_period_xact_is_finalized
  then finalize_base (negb src_exchange_only_when_dated) (negb src_null_check_only_for_xact) ord cp bucket ps0
  else Ok (Accepted ps0).

(* the pool a periodic transaction is finalized with has learnt its own written amounts *)
Definition run_periodic (ord : bool) (bucket : option str) (pl : pool) (ps : list post) : res outcome :=
  finalize_periodic ord (cp_of (learn_posts pl ps)) bucket ps.
