(* C11: unistring::width (unistring.h:86-92), the number of terminal columns of a name.

     std::size_t width = 0;
     foreach (const boost::uint32_t& ch, utf32chars) width += mk_wcwidth(ch);

   mk_wcwidth (wcwidth.cc) answers 0 for NUL, -1 for the control characters (1..31, 127..159)
   and 1 for the other characters below 0x300 (the part of its table modelled here: the names
   generated are Latin-1).  The sum is kept in a std::size_t: adding -1 to it is adding 2^64 - 1
   modulo 2^64.  `clamp` says whether the source takes a negative answer as 0 columns
   (Gen/SafetyGuards.src_unistring_width_clamps_negative).  format_t::truncate compares the
   result with the column width and, when it is larger, cuts the name at offsets computed from
   it (len - (width - 2), ...).
   Definitions only. *)
From LedgerV Require Import Base.Prelude.
Local Open Scope Z_scope.

Definition wcw (c : Z) : Z :=
  if c =? 0 then 0
  else if (c <? 32) || ((127 <=? c) && (c <? 160)) then -1
  else 1.

Definition size_modulus : Z := 2 ^ 64.

Definition char_cols (clamp : bool) (c : Z) : Z := if clamp then Z.max 0 (wcw c) else wcw c.

Fixpoint cols_from (clamp : bool) (acc : Z) (s : str) : Z :=
  match s with
  | [] => acc
  | c :: s' => cols_from clamp ((acc + char_cols clamp c) mod size_modulus) s'
  end.

Definition ustr_width (clamp : bool) (s : str) : Z := cols_from clamp 0 s.

(* format_t::truncate leaves a name alone when `width == 0 || len <= width` *)
Definition is_cut (clamp : bool) (s : str) (columns : Z) : bool :=
  negb (columns =? 0) && (columns <? ustr_width clamp s).
