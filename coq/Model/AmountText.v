(* Text of amounts: amount_t::print (amount.cc:1267-1303) with stream_out_mpq's trimming,
   grouping and decimal mark (amount.cc:150-215), commodity quoting (commodity.cc:236-366),
   and the reader amount_t::parse (amount.cc:1001-1246): sign, symbol side, separating space,
   the right-to-left scan of the quantity that infers precision, thousands marks and decimal
   comma, and what the pool learns from it (amount.cc:1190-1195). *)
From LedgerV Require Import Base.Prelude Base.Round Model.Amount Gen.InvalidChars.
Local Open Scope Z_scope.

Record style : Type := mkStyle {
  st_suffixed : bool;
  st_separated : bool;
  st_thousands : bool;
  st_decimal_comma : bool
}.

Definition style_or (a b : style) : style :=
  mkStyle (st_suffixed a || st_suffixed b) (st_separated a || st_separated b)
          (st_thousands a || st_thousands b) (st_decimal_comma a || st_decimal_comma b).

Definition style_none : style := mkStyle false false false false.

(* ---------------------------------------------------------------- printing *)

(* amount_t::display_precision *)
Definition display_precision (cp : comm -> Z) (a : amount) : Z :=
  match acomm a with
  | Some c => if akeep a then Z.max (aprec a) (cp c) else cp c
  | None => aprec a
  end.

Definition zeros_prec (cp : comm -> Z) (a : amount) : Z :=
  match acomm a with Some c => cp c | None => 0 end.

(* strip trailing zeros of the fraction down to zp digits; drop a bare point *)
Fixpoint strip_zeros_rev (k : nat) (r : str) : str :=   (* r = reversed fraction digits *)
  match k, r with
  | S k', 48 :: r' => strip_zeros_rev k' r'
  | _, _ => r
  end.

Definition trim_fraction (fp : str) (zp : Z) : str :=
  let extra := (length fp - Z.to_nat zp)%nat in      (* how many digits may be stripped *)
  rev (strip_zeros_rev extra (rev fp)).

(* group the integer digits by three with mark `m` *)
Fixpoint group3_rev (r : str) (n : nat) (m : Z) : str :=   (* r reversed integer digits *)
  match r with
  | [] => []
  | x :: r' =>
      match r' with
      | [] => [x]
      | _ => if Nat.eqb (n mod 3) 2 then x :: m :: group3_rev r' (S n) m
             else x :: group3_rev r' (S n) m
      end
  end.

Definition group3 (ip : str) (m : Z) : str := rev (group3_rev (rev ip) 0 m).

(* the quantity text: sign, integer part (grouped if the style says so), mark, fraction *)
Definition quantity_text (st : style) (thousands_ok : bool) (neg : bool) (N p zp : Z) : str :=
  let a := Z.abs N in
  let pn := Z.to_nat p in
  let ds := pad_left (S pn) (digits a) in
  let k := (length ds - pn)%nat in
  let ip := firstn k ds in
  let fp := trim_fraction (skipn k ds) zp in
  let ip' := if thousands_ok && st_thousands st
             then group3 ip (if st_decimal_comma st then 46 else 44) else ip in
  (if neg then [45] else []) ++ ip' ++
  (match fp with [] => [] | _ => (if st_decimal_comma st then 44 else 46) :: fp end).

(* commodity_t::symbol_needs_quotes: a character the scanner stops at, or a symbol that spells a reserved word *)
Definition has_invalid_char (sym : str) : bool :=
  existsb (fun ch => match nth_error src_invalid_chars (Z.to_nat ch) with
                     | Some 1 => true | Some _ => false | None => true end) sym.

Definition needs_quotes (sym : str) : bool :=
  has_invalid_char sym || existsb (str_eqb sym) src_reserved_words.

Definition symbol_text (sym : str) : str :=
  if needs_quotes sym then 34 :: sym ++ [34] else sym.

(* amount_t::print for an unannotated commodity `sym` in style `st`, or no commodity *)
Definition amount_text (cp : comm -> Z) (st : style) (a : amount) : str :=
  let q := Qred (aq a) in
  let n := Qnum q in
  let d := Zpos (Qden q) in
  let p := display_precision cp a in
  let N := print_scaled n d p in
  let qt := quantity_text st true (n <? 0) N p (zeros_prec cp a) in
  match acomm a with
  | None => qt
  | Some sym =>
      if st_suffixed st
      then qt ++ (if st_separated st then [32] else []) ++ symbol_text sym
      else symbol_text sym ++ (if st_separated st then [32] else []) ++ qt
  end.

(* commodity_t::print with elide_quotes (commodity.cc:360-373): what report columns (justify(), hence the default
   balance/register formats) show.  Quotes are dropped only from a symbol that is set apart from the number by a
   space, has no space itself and is not all digits - elsewhere the text would denote another number or symbol. *)
Definition is_digit (c : Z) : bool := (48 <=? c) && (c <=? 57).

Definition column_symbol_text (st : style) (sym : str) : str :=
  if needs_quotes sym && st_separated st && negb (existsb (fun c => c =? 32) sym) && negb (forallb is_digit sym)
  then sym else symbol_text sym.

Definition amount_text_col (cp : comm -> Z) (st : style) (a : amount) : str :=
  let q := Qred (aq a) in
  let n := Qnum q in
  let d := Zpos (Qden q) in
  let p := display_precision cp a in
  let N := print_scaled n d p in
  let qt := quantity_text st true (n <? 0) N p (zeros_prec cp a) in
  match acomm a with
  | None => qt
  | Some sym =>
      if st_suffixed st
      then qt ++ (if st_separated st then [32] else []) ++ column_symbol_text st sym
      else column_symbol_text st sym ++ (if st_separated st then [32] else []) ++ qt
  end.

(* value_t::print of an AMOUNT (value.cc): an amount that displays as zero is shown as a bare 0 *)
Definition value_column_text (cp : comm -> Z) (st : style) (a : amount) : str :=
  if is_zero cp a then [48] else amount_text_col cp st a.

(* ----------------------------------------------------------------- reading *)

Definition is_space (c : Z) : bool := (c =? 32) || (c =? 9) || (c =? 10) || (c =? 13) || (c =? 11) || (c =? 12).

(* state of the right-to-left scan of the quantity string (amount.cc:1107-1177) *)
Record scan_state : Type := mkScan {
  sc_offset : Z;            (* decimal_offset *)
  sc_prec : Z;              (* new_quantity->prec *)
  sc_last_comma : bool;     (* last_comma != npos *)
  sc_last_period : bool;
  sc_no_more_commas : bool;
  sc_no_more_periods : bool;
  sc_decimal_comma : bool;  (* decimal_comma_style *)
  sc_thousands : bool       (* COMMODITY_STYLE_THOUSANDS seen *)
}.

Definition scan_step (s : scan_state) (ch : Z) : res scan_state :=
  if ch =? 46 then                                             (* '.' *)
    if sc_no_more_periods s then Err EBadAmount
    else
      do s1 <-
        (if sc_decimal_comma s then
           if negb (sc_offset s mod 3 =? 0) then Err EBadAmount
           else Ok (mkScan (sc_offset s) (sc_prec s) (sc_last_comma s) (sc_last_period s)
                           true (sc_no_more_periods s) true true)
         else if sc_last_comma s then
           if negb (sc_offset s mod 3 =? 0) then Err EBadAmount
           else Ok (mkScan (sc_offset s) (sc_prec s) (sc_last_comma s) (sc_last_period s)
                           (sc_no_more_commas s) (sc_no_more_periods s) true (sc_thousands s))
         else Ok (mkScan 0 (sc_offset s) (sc_last_comma s) (sc_last_period s)
                         (sc_no_more_commas s) true false (sc_thousands s)));
      Ok (mkScan (sc_offset s1) (sc_prec s1) (sc_last_comma s1) true
                 (sc_no_more_commas s1) (sc_no_more_periods s1) (sc_decimal_comma s1) (sc_thousands s1))
  else if ch =? 44 then                                        (* ',' *)
    if sc_no_more_commas s then Err EBadAmount
    else
      do s1 <-
        (if sc_decimal_comma s then
           if sc_last_period s then Err EBadAmount
           else Ok (mkScan 0 (sc_offset s) (sc_last_comma s) (sc_last_period s)
                           true (sc_no_more_periods s) true (sc_thousands s))
         else if negb (sc_offset s mod 3 =? 0) then
           if sc_last_comma s || sc_last_period s then Err EBadAmount
           else Ok (mkScan 0 (sc_offset s) (sc_last_comma s) (sc_last_period s)
                           true (sc_no_more_periods s) true (sc_thousands s))
         else Ok (mkScan (sc_offset s) (sc_prec s) (sc_last_comma s) (sc_last_period s)
                         (sc_no_more_commas s) true false true));
      Ok (mkScan (sc_offset s1) (sc_prec s1) true (sc_last_period s1)
                 (sc_no_more_commas s1) (sc_no_more_periods s1) (sc_decimal_comma s1) (sc_thousands s1))
  else Ok (mkScan (sc_offset s + 1) (sc_prec s) (sc_last_comma s) (sc_last_period s)
                  (sc_no_more_commas s) (sc_no_more_periods s) (sc_decimal_comma s) (sc_thousands s)).

Fixpoint scan_rev (s : scan_state) (r : str) : res scan_state :=
  match r with
  | [] => Ok s
  | ch :: r' => do s' <- scan_step s ch; scan_rev s' r'
  end.

(* decimal value of the digit characters of a string, ignoring every other character *)
Fixpoint digits_value (acc : Z) (s : str) : Z :=
  match s with
  | [] => acc
  | ch :: s' => if is_digit ch then digits_value (acc * 10 + (ch - 48)) s' else digits_value acc s'
  end.

Record parsed_quantity : Type := mkPQ {
  pq_value : Z;          (* all digits read as one integer (sign applied) *)
  pq_prec : Z;           (* inferred number of decimals *)
  pq_thousands : bool;
  pq_decimal_comma : bool
}.

(* quant: the characters parse_quantity collected (optional leading '-', digits . ,);
   dc0: the commodity already has the decimal-comma style *)
Definition scan_quantity (dc0 : bool) (quant : str) : res parsed_quantity :=
  do s <- scan_rev (mkScan 0 0 false false false false dc0 false) (rev quant);
  let neg := match quant with 45 :: _ => true | _ => false end in
  let v := digits_value 0 quant in
  Ok (mkPQ (if neg then - v else v) (sc_prec s) (sc_thousands s) (sc_decimal_comma s)).

(* what the pool learns from one parsed amount (amount.cc:1190-1195): flags or-ed, precision max-ed *)
Record cinfo : Type := mkCI { ci_prec : Z; ci_style : style }.

Definition learn (ci : cinfo) (p : Z) (st : style) : cinfo :=
  mkCI (if ci_prec ci <? p then p else ci_prec ci) (style_or (ci_style ci) st).

Definition learn_all (ci : cinfo) (l : list (Z * style)) : cinfo :=
  fold_left (fun c ps => learn c (fst ps) (snd ps)) l ci.

(* a `commodity SYM / format AMOUNT` directive (textual.cc commodity_format_directive): AMOUNT is read like any amount -
   teaching the commodity its flags and decimals - and COMMODITY_STYLE_NO_MIGRATE is set: from then on amount_t::parse
   (the `! no_migrate_style` guard) lets no amount teach this commodity anything *)
Record finfo : Type := mkFI { fi_info : cinfo; fi_fixed : bool }.

Definition learn_f (f : finfo) (p : Z) (st : style) : finfo :=
  if fi_fixed f then f else mkFI (learn (fi_info f) p st) false.

Definition fix_format (f : finfo) (p : Z) (st : style) : finfo :=
  mkFI (fi_info (learn_f f p st)) true.

Definition learn_f_all (f : finfo) (l : list (Z * style)) : finfo :=
  fold_left (fun c ps => learn_f c (fst ps) (snd ps)) l f.

(* ---- the reader proper: split the text into sign, symbol, side, space, quantity ---- *)

Fixpoint take_while (f : Z -> bool) (s : str) : str * str :=
  match s with
  | [] => ([], [])
  | c :: s' => if f c then let (a, b) := take_while f s' in (c :: a, b) else ([], s)
  end.

Definition skip_ws (s : str) : str := snd (take_while is_space s).

Definition is_invalid (c : Z) : bool :=
  match nth_error src_invalid_chars (Z.to_nat c) with Some 1 => true | Some _ => false | None => true end.

Fixpoint drop_trailing_nondigits_rev (r : str) : str :=
  match r with
  | [] => []
  | c :: r' => if is_digit c then r else drop_trailing_nondigits_rev r'
  end.

(* parse_quantity: optional '-', then [0-9.,]*, trailing non-digits given back *)
Definition read_quantity (s : str) : str * str :=
  let s := skip_ws s in
  let (sign, s1) := match s with 45 :: t => ([45], t) | _ => ([], s) end in
  let (body, rest) := take_while (fun c => is_digit c || (c =? 46) || (c =? 44)) s1 in
  let kept := rev (drop_trailing_nondigits_rev (rev (sign ++ body))) in
  let given_back := skipn (length kept) (sign ++ body) in
  (kept, given_back ++ rest).

(* commodity_t::parse_symbol: quoted, or up to the first invalid character *)
Definition read_symbol (s : str) : res (str * str) :=
  let s := skip_ws s in
  match s with
  | 34 :: t =>
      let (sym, rest) := take_while (fun c => negb (c =? 34)) t in
      match rest with
      | 34 :: rest' => Ok (sym, rest')
      | _ => Err EBadAmount
      end
  | _ =>
      let (sym, rest) := take_while (fun c => negb (is_invalid c)) s in
      if existsb (str_eqb sym) src_reserved_words then Ok ([], s) else Ok (sym, rest)
  end.

Record parsed_amount : Type := mkPA {
  pa_num : Z; pa_prec : Z; pa_sym : str; pa_style : style; pa_rest : str
}.

(* first stage of amount_t::parse (no annotations): sign, symbol, side, separating space and
   the quantity characters; independent of the commodity's flags *)
Record amount_parts : Type := mkParts {
  ap_negative : bool; ap_sym : str; ap_suffixed : bool; ap_separated : bool;
  ap_quant : str; ap_rest : str
}.

Definition split_amount (s : str) : res amount_parts :=
  let s := skip_ws s in
  let (negative, s) := match s with 45 :: t => (true, skip_ws t) | _ => (false, s) end in
  match s with
  | [] => Err EBadAmount
  | c :: _ =>
      if is_digit c then
        let (quant, r1) := read_quantity s in
        let sep := match r1 with c1 :: _ => is_space c1 | [] => false end in
        do sr <- (match r1 with
                  | [] => Ok ([], [])
                  | 10 :: _ => Ok ([], r1)
                  | _ => read_symbol r1 end);
        let (sym, r2) := sr in
        match quant with
        | [] => Err EBadAmount
        | _ => Ok (mkParts negative sym (negb (match sym with [] => true | _ => false end)) sep quant r2)
        end
      else
        do sr <- read_symbol s;
        let (sym, r1) := sr in
        let sep := match r1 with c1 :: _ => is_space c1 | [] => false end in
        let (quant, r2) := read_quantity r1 in
        match quant with
        | [] => Err EBadAmount
        | _ => Ok (mkParts negative sym false sep quant r2)
        end
  end.

(* amount_t::parse without annotations; dc0: the commodity already has the decimal-comma
   style.  The result quantity is pa_num / 10^pa_prec. *)
Definition parse_amount_text (dc0 : bool) (s : str) : res parsed_amount :=
  do ap <- split_amount s;
  do pq <- scan_quantity dc0 (ap_quant ap);
  Ok (mkPA (if ap_negative ap then - pq_value pq else pq_value pq) (pq_prec pq) (ap_sym ap)
           (mkStyle (ap_suffixed ap) (ap_separated ap) (pq_thousands pq) (pq_decimal_comma pq))
           (ap_rest ap)).
