(* C11: two places where the code reaches into a container under a precondition computed earlier.

   (1) xact_base_t::finalize, the two-commodity block (xact.cc:220-300).  `commodities_left` counts
   the components of the balance that are not exactly zero; when it is 2 a second loop over the
   same map picks `x` (the first such component) and `y` (every later one, i.e. the second), and
   both pointers are then dereferenced.  The pointers are non-null exactly because both loops
   use the same test; `count_pred` / `pick_pred` are the two tests.

   (2) journal_t::add_xact, duplicate UUID (journal.cc:406-433).  The three-iterator std::equal
   reads one element of `other_posts` for every element of `this_posts`; that is within
   `other_posts` iff this_posts is not longer.  `size_first` says whether the sizes are compared
   before std::equal is called (Gen/SafetyGuards.src_uuid_size_test_first).
   Definitions only. *)
From LedgerV Require Import Base.Prelude.
Local Open Scope Z_scope.

Section PickTwo.
  Context {A : Type}.

  Fixpoint count_if (p : A -> bool) (l : list A) : nat :=
    match l with
    | [] => O
    | e :: t => (if p e then 1 else 0) + count_if p t
    end.

  (* if (! x) x = &e; else y = &e;  for every e that passes the test *)
  Fixpoint pick_two (p : A -> bool) (l : list A) (x y : option A) : option A * option A :=
    match l with
    | [] => (x, y)
    | e :: t =>
        if p e then match x with
                    | None => pick_two p t (Some e) y
                    | Some _ => pick_two p t x (Some e)
                    end
        else pick_two p t x y
    end.

  (* the block is entered when count_pred counts 2; x and y are picked with pick_pred *)
  Definition finalize_operands (count_pred pick_pred : A -> bool) (l : list A) : option (option A * option A) :=
    if Nat.eqb (count_if count_pred l) 2 then Some (pick_two pick_pred l None None) else None.
End PickTwo.

(* elements of `other` that the three-iterator std::equal(this.begin, this.end, other.begin) may
   read: one per element of `this` (fewer only when a pair differs earlier) *)
Definition equal3_reads {A : Type} (this other : list A) : nat := length this.

Inductive compare_result : Type := Compared | SizeMismatch | ReadPastEnd.

Definition uuid_compare {A : Type} (size_first : bool) (this other : list A) : compare_result :=
  if size_first && negb (Nat.eqb (length this) (length other)) then SizeMismatch
  else if Nat.ltb (length other) (equal3_reads this other) then ReadPastEnd
  else Compared.
