(* C13 - the reporting-period machinery: date_duration_t / date_interval_t (times.h:157-232,
   448-520; times.cc:1133-1413) and interval_posts::flush (filters.cc:956-1045).
   The period-expression parser (times.cc:790-1125) is glue: the model receives the parsed
   form - the repeating duration, the optional `from`/`since` and `to`/`until` dates (kept in
   the `range` member by the parser), and whether a `since` was written - and the report
   options start_of_week and --align-intervals.  Dates are day numbers (PeriodCalendar.v).
   Definitions only; proofs in Proofs/PeriodProofs.v. *)
From LedgerV Require Import Base.Prelude Model.PeriodCalendar Gen.PeriodSources.
Local Open Scope Z_scope.

Inductive quantum := QDays | QWeeks | QMonths | QQuarters | QYears.
Record duration := mkDur { d_q : quantum; d_n : Z }.

(* date_duration_t::add (times.h:180-196) *)
Definition add_dur (d : duration) (z : Z) : Z :=
  match d_q d with
  | QDays => add_days z (d_n d)
  | QWeeks => add_days z (7 * d_n d)
  | QMonths => add_months z (d_n d)
  | QQuarters => add_months z (d_n d * 3)
  | QYears => add_years z (d_n d)
  end.

(* date_duration_t::find_nearest (times.cc:1153-1182); sow = the global start_of_week *)
Definition find_nearest (sow : Z) (z : Z) (q : quantum) : Z :=
  match q with
  | QYears => year_floor z
  | QQuarters => quarter_floor z
  | QMonths => month_floor z
  | QWeeks => week_floor sow z
  | QDays => z
  end.

(* date_interval_t (times.h:448-520).  `range` is the pair (i_from, i_to) as the parser left
   it; the duration is always present for the expressions of this property. *)
Record ival := mkIval {
  i_from : option Z; i_to : option Z;
  i_start : option Z; i_finish : option Z;
  i_aligned : bool;
  i_next : option Z;
  i_dur : duration;
  i_eod : option Z;             (* end_of_duration *)
  i_since : bool                (* since_specified *)
}.

Definition set_start (st : ival) (v : option Z) : ival :=
  mkIval (i_from st) (i_to st) v (i_finish st) (i_aligned st) (i_next st) (i_dur st) (i_eod st) (i_since st).
Definition set_finish (st : ival) (v : option Z) : ival :=
  mkIval (i_from st) (i_to st) (i_start st) v (i_aligned st) (i_next st) (i_dur st) (i_eod st) (i_since st).
Definition set_aligned (st : ival) (v : bool) : ival :=
  mkIval (i_from st) (i_to st) (i_start st) (i_finish st) v (i_next st) (i_dur st) (i_eod st) (i_since st).
Definition set_next (st : ival) (v : option Z) : ival :=
  mkIval (i_from st) (i_to st) (i_start st) (i_finish st) (i_aligned st) v (i_dur st) (i_eod st) (i_since st).
Definition set_eod (st : ival) (v : option Z) : ival :=
  mkIval (i_from st) (i_to st) (i_start st) (i_finish st) (i_aligned st) (i_next st) (i_dur st) v (i_since st).

(* what date_parser_t::parse returns for `<duration> [from F] [to T]` (times.cc:1108-1125) *)
Definition init (dur : duration) (from to : option Z) : ival :=
  mkIval from to None None false None dur None
         (match from with Some _ => true | None => false end).

(* begin() / end() (times.h:497-502) *)
Definition i_begin (st : ival) : option Z :=
  match i_start st with Some s => Some s | None => i_from st end.
Definition i_end (st : ival) : option Z :=
  match i_finish st with Some f => Some f | None => i_to st end.

(* resolve_end (times.cc:1133-1151).  `*end_of_duration > *finish` with no end_of_duration
   cannot arise from the states this model reaches (a finish is only ever set after a start);
   it is transcribed as "no change". *)
Definition resolve_end (st : ival) : ival :=
  let st1 := match i_start st, i_eod st with
             | Some s, None => set_eod st (Some (add_dur (i_dur st) s))
             | _, _ => st
             end in
  let st2 := match i_finish st1, i_eod st1 with
             | Some f, Some e => if f <? e then set_eod st1 (Some f) else st1
             | _, _ => st1
             end in
  match i_start st2, i_next st2 with
  | Some _, None => set_next st2 (i_eod st2)
  | _, _ => st2
  end.

(* operator++ (times.cc:1389-1413); its stabilize() call has no date, so it is resolve_end *)
Definition increment (st : ival) : res ival :=
  match i_start st with
  | None => Err EOther                      (* Cannot increment an unstarted date interval *)
  | Some _ =>
    let st := resolve_end st in
    match i_next st with
    | None => Err EOther                    (* assert(next) *)
    | Some nx =>
      let st' := match i_finish st with
                 | Some f => if f <=? nx then set_start st None
                             else set_eod (set_start st (Some nx)) (Some (add_dur (i_dur st) nx))
                 | None => set_eod (set_start st (Some nx)) (Some (add_dur (i_dur st) nx))
                 end in
      Ok (resolve_end (set_next st' None))
    end
  end.

(* the catch-up loop of stabilize (times.cc:1255-1266) *)
Fixpoint catch_up (fuel : nat) (st : ival) (date : Z) {struct fuel} : res ival :=
  match fuel with
  | O => Err EOutOfFuel
  | S f =>
    match i_start st with
    | None => Err EOther
    | Some s =>
      if s <? date then
        do nx <- increment st;
        match i_start nx with
        | Some s' => if s' <=? date then catch_up f nx date
                     else Ok (set_next (set_eod st None) None)
        | None => Ok (set_next (set_eod st None) None)
        end
      else Ok st
    end
  end.

(* the initial start chosen by stabilize before the catch-up loop (times.cc:1211-1251) *)
Definition initial_start (sow : Z) (align : bool) (st : ival) (when : Z) : Z :=
  match d_q (i_dur st) with
  | QMonths | QQuarters | QYears =>
      if align && i_since st then when else find_nearest sow when (d_q (i_dur st))
  | QWeeks =>
      if align && i_since st then when
      else let period := d_n (i_dur st) * 7 in
           find_nearest sow (when - (period + 400 mod period)) QWeeks
  | QDays => when
  end.

(* stabilize (times.cc:1184-1307) *)
Definition stabilize (fuel : nat) (sow : Z) (st : ival) (date : option Z) (align : bool) : res ival :=
  do st <-
    match date with
    | Some dt =>
      if i_aligned st then Ok st else
        let initial_s := i_begin st in
        let initial_f := i_end st in
        let when := match i_start st with Some s => s | None => dt end in
        let st := set_start st (Some (initial_start sow align st when)) in
        do st <- catch_up fuel st dt;
        let st := match initial_s, i_start st with
                  | Some is0, Some s => if s <? is0 then set_start (resolve_end st) (Some is0) else st
                  | Some is0, None => set_start (resolve_end st) (Some is0)
                  | None, _ => st
                  end in
        let st := match initial_f, i_finish st with
                  | Some if0, Some f => if if0 <? f then set_finish st (Some if0) else st
                  | Some if0, None => set_finish st (Some if0)
                  | None, _ => st
                  end in
        Ok (set_aligned st true)
    | None => Ok st
    end;
  Ok (resolve_end st).

(* the scan of find_period (times.cc:1362-1384) *)
Fixpoint scan_period (fuel : nat) (st : ival) (date : Z) (allow_shift : bool)
         (scan end_of_scan : Z) {struct fuel} : res (bool * ival) :=
  match fuel with
  | O => Err EOutOfFuel
  | S f =>
    if (scan <=? date) && (match i_finish st with Some fi => scan <? fi | None => true end) then
      if date <? end_of_scan then
        Ok (true, resolve_end (set_next (set_eod (set_start st (Some scan)) (Some end_of_scan)) None))
      else if negb allow_shift then Ok (false, st)
      else let scan' := add_dur (i_dur st) scan in
           scan_period f st date allow_shift scan' (add_dur (i_dur st) scan')
    else Ok (false, st)
  end.

(* find_period (times.cc:1309-1387) *)
Definition find_period (fuel : nat) (sow : Z) (st : ival) (date : Z) (align allow_shift : bool)
  : res (bool * ival) :=
  do st <- stabilize fuel sow st (Some date) align;
  if match i_finish st with Some f => f <? date | None => false end then Ok (false, st) else
  match i_start st with
  | None => Err EOther                        (* Date interval is improperly initialized *)
  | Some s =>
    if date <? s then Ok (false, st) else
    match i_eod st with
    | None => Ok (false, st)
    | Some e =>
      if date <? e then Ok (true, st)
      else scan_period fuel st date allow_shift s e
    end
  end.

Definition within_period (fuel : nat) (sow : Z) (st : ival) (date : Z) : res (bool * ival) :=
  find_period fuel sow st date false false.

(* The intervals an already stabilized interval object steps through: what
   date_interval_t::dump prints as "Sample dates" and what flush_posts advances through. *)
Fixpoint walk (n : nat) (st : ival) {struct n} : list (Z * Z) :=
  match n with
  | O => []
  | S k =>
    match i_start st, i_eod st with
    | Some s, Some e =>
      (s, e) :: match increment st with Ok st' => walk k st' | Err _ => [] end
    | _, _ => []
    end
  end.

(* date_interval_t::dump (times.cc:1415-1470): stabilize on begin() or today, then up to 20
   samples.  Result: start, finish after stabilization and the samples. *)
Definition dump (fuel : nat) (sow : Z) (st : ival) (today : Z) : res (option Z * option Z * list (Z * Z)) :=
  let when := match i_begin st with Some b => b | None => today end in
  do st <- stabilize fuel sow st (Some when) false;
  Ok (i_start st, i_finish st, walk 20 st).

(* ---- the specification: consecutive steps of one duration from an anchor, clipped ------- *)

Definition past (to : option Z) (s : Z) : bool :=
  match to with Some t => t <=? s | None => false end.
Definition clip (to : option Z) (e : Z) : Z :=
  match to with Some t => if t <? e then t else e | None => e end.

(* s_i = s, s_{i+1} = add_dur s_i; interval i is [s_i, min (s_{i+1}, to)) while s_i < to *)
Fixpoint spec_from (dur : duration) (to : option Z) (s : Z) (n : nat) {struct n} : list (Z * Z) :=
  match n with
  | O => []
  | S k => if past to s then []
           else (s, clip to (add_dur dur s)) :: spec_from dur to (add_dur dur s) k
  end.

(* the first interval starts at `from` when the anchor lies before it *)
Definition spec_intervals (dur : duration) (from to : option Z) (a : Z) (n : nat) : list (Z * Z) :=
  match from with
  | Some f =>
    if a <? f then
      match n with
      | O => []
      | S k => (f, clip to (add_dur dur a)) :: spec_from dur to (add_dur dur a) k
      end
    else spec_from dur to a n
  | None => spec_from dur to a n
  end.

Fixpoint iter_dur (dur : duration) (k : nat) (z : Z) {struct k} : Z :=
  match k with O => z | S k' => iter_dur dur k' (add_dur dur z) end.

(* ---- interval_posts::flush (filters.cc:956-1045) ------------------------------------------ *)

Record post := mkPost { p_date : Z; p_amt : Q }.
Record row := mkRow { r_start : option Z; r_eod : option Z; r_posts : list post }.

(* the group value: amounts added one by one (GMP keeps them canonical) *)
Definition qsum (ps : list post) : Q := fold_right (fun p acc => Qred (Qplus (p_amt p) acc)) 0%Q ps.

(* the loop "for (i = all_posts.begin(); i != all_posts.end(); )": either the posting is taken
   into the current group or the interval advances; `cur` = component_posts, `saw` = saw_posts *)
Fixpoint flush_loop (fuel : nat) (sow : Z) (empty : bool) (st : ival) (posts : list post)
         (cur : list post) (saw : bool) {struct fuel} : res (list row) :=
  match fuel with
  | O => Err EOutOfFuel
  | S f =>
    match posts with
    | [] => Ok (if saw then [mkRow (i_start st) (i_eod st) cur] else [])
    | p :: rest =>
      do r <- within_period fuel sow st (p_date p);
      let '(inside, st) := r in
      if inside then flush_loop f sow empty st rest (cur ++ [p]) true
      else
        let out := if saw then [mkRow (i_start st) (i_eod st) cur]
                   else if empty then [mkRow (i_start st) (i_eod st) []] else [] in
        do st' <- increment st;
        do rows <- flush_loop f sow empty st' posts [] false;
        Ok (out ++ rows)
    end
  end.

(* flush: the postings arrive sorted by date (std::stable_sort); the first find_period uses
   begin() when the expression has a `from`, else the earliest posting *)
Definition flush_posts (fuel : nat) (sow : Z) (align empty : bool) (st : ival) (posts : list post)
  : res (list row) :=
  do st <-
    match i_begin st with
    | Some b =>
      do r <- find_period fuel sow st b align true;
      let '(found, st1) := r in
      if found then Ok st1 else
        match posts with
        | [] => Ok st1
        | p :: _ => do r2 <- find_period fuel sow st1 (p_date p) align true;
                    let '(found2, st2) := r2 in
                    if found2 then Ok st2 else Err EOther
        end
    | None =>
      match posts with
      | [] => Ok st
      | p :: _ => do r2 <- find_period fuel sow st (p_date p) align true;
                  let '(found2, st2) := r2 in
                  if found2 then Ok st2 else Err EOther   (* Failed to find period *)
      end
    end;
  flush_loop fuel sow empty st posts [] false.

(* ---- a bound written in the user's --input-date-format (times.cc:48-70, 1500-1522; times.h) ---- *)
(* set_input_date_format pushes `new date_io_t(format, true)` to the front of the readers; its
   constructor derives date_traits_t from the directives the format contains (boost icontains:
   case-insensitive substring).  The period lexer turns a date word into
   date_specifier_t(when, traits): year / month / day are copied from the parsed date only when
   the traits say the format carries them, and date_specifier_t::begin() fills the others in with
   the current year, January, the 1st. *)

Definition lower_byte (c : Z) : Z := if (65 <=? c) && (c <=? 90) then c + 32 else c.

Fixpoint prefix_ci (p s : str) {struct p} : bool :=
  match p with
  | [] => true
  | a :: p' => match s with
               | [] => false
               | b :: s' => (lower_byte a =? lower_byte b) && prefix_ci p' s'
               end
  end.

Fixpoint icontains (s p : str) {struct s} : bool :=
  prefix_ci p s || match s with [] => false | _ :: s' => icontains s' p end.

Record date_traits := mkTraits { has_year : bool; has_month : bool; has_day : bool }.

Definition traits_of (tbl : list str * list str * list str) (fmt : str) : date_traits :=
  let '(ys, ms, ds) := tbl in
  mkTraits (existsb (icontains fmt) ys) (existsb (icontains fmt) ms) (existsb (icontains fmt) ds).

(* the traits of the reader --input-date-format creates (the constructor's lists) *)
Definition reader_traits (fmt : str) : date_traits := traits_of src_reader_traits_ctor fmt.

(* date_specifier_t(when, traits).begin() *)
Definition specifier_begin (t : date_traits) (cur_year : Z) (z : Z) : Z :=
  let '(y, m, d) := civil_from_days z in
  days_from_civil (if has_year t then y else cur_year)
                  (if has_month t then m else 1)
                  (if has_day t then d else 1).

(* the bound the interval object receives for a date word that names day z in format fmt *)
Definition bound_of_text (fmt : str) (cur_year z : Z) : Z := specifier_begin (reader_traits fmt) cur_year z.

(* ---- --group-by: post_splitter::flush (filters.cc:52-66) over interval_posts ---------------------- *)
(* One handler chain serves all groups: for each group its postings are pushed through the chain,
   then flush(), then clear().  interval_posts::clear() resets the interval to the parsed one;
   all_posts is emptied only if clear() does so (Gen.PeriodSources) - otherwise the next group's
   flush sorts and walks the earlier groups' postings as well. *)

(* std::stable_sort by date: insertion after every element that is not later *)
Fixpoint insert_post (p : post) (l : list post) {struct l} : list post :=
  match l with
  | [] => [p]
  | q :: l' => if p_date p <? p_date q then p :: l else q :: insert_post p l'
  end.
Definition sort_posts (acc l : list post) : list post := fold_left (fun a p => insert_post p a) l acc.

Fixpoint flush_groups (fuel : nat) (sow : Z) (align empty clears : bool) (st : ival)
         (all_posts : list post) (groups : list (list post)) {struct groups} : list (res (list row)) :=
  match groups with
  | [] => []
  | g :: rest =>
    let input := sort_posts (if clears then [] else all_posts) g in
    flush_posts fuel sow align empty st input
      :: flush_groups fuel sow align empty clears st input rest
  end.

Definition group_by_report (fuel : nat) (sow : Z) (align empty : bool) (st : ival) (groups : list (list post)) :=
  flush_groups fuel sow align empty src_interval_clear_resets_all_posts st [] groups.
