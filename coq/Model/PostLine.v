(* The written form of a posting line: where the account name ends and the amount begins.
   Transcribes skip_ws / next_element (src/utils.h) and the account part of instance_t::parse_post (src/textual.cc):
   after the indentation the account name runs up to a tab or to two spaces; trailing blanks are dropped; a name
   written (...) or [...] is a virtual account, the latter one that must balance. *)
From LedgerV Require Import Base.Prelude.
Local Open Scope Z_scope.

Definition SP : Z := 32.
Definition TAB : Z := 9.
Definition NL : Z := 10.

Definition is_blank (c : Z) : bool := Z.eqb c SP || Z.eqb c TAB.
(* skip_ws: ' ', '\t', '\n' *)
Definition is_ws (c : Z) : bool := is_blank c || Z.eqb c NL.
(* std::isspace in the C locale: \t \n \v \f \r and space *)
Definition is_space (c : Z) : bool := Z.eqb c SP || (Z.leb 9 c && Z.leb c 13).

Fixpoint skip_ws (s : str) : str :=
  match s with
  | c :: t => if is_ws c then skip_ws t else s
  | [] => []
  end.

Definition push (c : Z) (r : option (str * str)) : option (str * str) :=
  match r with Some (h, t) => Some (c :: h, t) | None => None end.

(* next_element(buf, variable): (the element - buf cut at the separator -, the text after the separator and any
   further white space), or None where the C++ returns NULL and leaves buf whole *)
Fixpoint next_element (variable : bool) (s : str) : option (str * str) :=
  match s with
  | [] => None
  | c :: t =>
      if negb (is_blank c) then push c (next_element variable t)
      else if negb variable then Some ([], skip_ws t)
      else if Z.eqb c TAB then Some ([], skip_ws t)
      else match t with
           | c2 :: t2 => if Z.eqb c2 SP then Some ([], skip_ws t2) else push c (next_element variable t)
           | [] => None
           end
  end.

Fixpoint drop_trailing_space (s : str) : str :=
  match s with
  | [] => []
  | c :: t => match drop_trailing_space t with
              | [] => if is_space c then [] else [c]
              | t' => c :: t'
              end
  end.

Inductive acct_kind := KReal | KVirtual | KBalVirtual | KDeferred.

Definition last_byte (s : str) : Z := last s 0.

(* a name written [..] or (..) is a virtual account (the former must balance), <..> a deferred one *)
Definition classify_name (name : str) : acct_kind * str :=
  match name with
  | c :: inner =>
      let l := last_byte name in
      if (Z.eqb c 91 && Z.eqb l 93) then (KBalVirtual, removelast inner)
      else if (Z.eqb c 40 && Z.eqb l 41) then (KVirtual, removelast inner)
      else if (Z.eqb c 60 && Z.eqb l 62) then (KDeferred, removelast inner)
      else (KReal, name)
  | [] => (KReal, [])
  end.

(* the account part of parse_post on the line after its indentation: ((kind, account name), Some rest | None) *)
Definition split_post_line (line : str) : (acct_kind * str) * option str :=
  let r := next_element true line in
  let head := match r with Some (h, _) => h | None => line end in
  let rest := match r with Some (_, t) => Some t | None => None end in
  (classify_name (drop_trailing_space head), rest).

(* a posting carries an amount when something other than a note or an assertion follows the account *)
Definition has_amount_text (rest : option str) : bool :=
  match rest with
  | Some (c :: _) => negb (Z.eqb c 59) && negb (Z.eqb c 61)
  | _ => false
  end.

(* the state flag parse_post reads before the account (textual.cc `// Parse the state flag`): p = skip_ws(line); a `*`
   (cleared) or `!` (pending) there is consumed together with the white space after it - ONE flag only, whatever follows
   belongs to the account name *)
Inductive pstate := SUncleared | SCleared | SPending.

Definition STAR : Z := 42.
Definition BANG : Z := 33.

Definition strip_state (line : str) : pstate * str :=
  match skip_ws line with
  | c :: t => if Z.eqb c STAR then (SCleared, skip_ws t)
              else if Z.eqb c BANG then (SPending, skip_ws t)
              else (SUncleared, c :: t)
  | [] => (SUncleared, [])
  end.

(* a whole posting line: (state flag, ((kind, account), amount text)) *)
Definition read_post_line (line : str) : pstate * ((acct_kind * str) * option str) :=
  let (st, l) := strip_state line in (st, split_post_line l).
