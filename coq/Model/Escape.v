(* Executable model of the three machine-readable writers and their escaping functions:
     emacs   format_emacs_posts::write_xact / operator() / escape_string / flush  (emacs.cc:41-118, emacs.h:69-73)
     csv     report_t::fn_quoted / fn_quoted_rfc / fn_join (report.cc:751-813) applied by the csv format
             (report.h csv_format_, regenerated into Gen/CsvFormat.v)
     xml     put_xact / put_post / put_amount / put_commodity / put_account (xact.cc, post.cc, amount.cc,
             commodity.cc, account.cc) + boost::property_tree's write_xml_element and encode_char_entities
             (xml_parser_write.hpp, xml_parser_utils.hpp) as called by format_ptree::flush (ptree.cc:51-88)
   and, as SPECIFICATIONS OF THE CONSUMERS, four readers: an Emacs-Lisp lexer, an RFC 4180 csv
   reader, a backslash-escape csv reader, and an XML character-data decoder.
   Characters are byte codes; a string is `str = list Z`.  Definitions only. *)
From LedgerV Require Import Base.Prelude Gen.CsvFormat Gen.PayeeRule Gen.JoinRule Gen.XmlWalk.
Local Open Scope Z_scope.

(* byte codes used below:  10 newline  32 space  34 dquote  35 #  38 &  39 '  40 (  41 )  44 ,  45 -  47 /
   48 0  59 ;  60 <  61 =  62 >  92 \  110 n *)

(* ------------------------------------------------------------------------------------------ *)
(* escaping functions                                                                          *)

(* boost::replace_all(raw, <one char c>, rep) and the `foreach (ch, arg) if (ch == c) out << rep
   else out << ch` loops of report.cc are the same function *)
Fixpoint replace_char (c : Z) (rep s : str) : str :=
  match s with
  | [] => []
  | x :: r => if x =? c then rep ++ replace_char c rep r else x :: replace_char c rep r
  end.

(* emacs.cc:113-117: first every backslash is doubled, then every dquote gets a backslash in front *)
Definition emacs_escape (s : str) : str :=
  replace_char 34 [92; 34] (replace_char 92 [92; 92] s).
Definition emacs_string (s : str) : str := 34 :: emacs_escape s ++ [34].

(* report.cc:751-768 fn_quoted: dquote becomes backslash dquote, backslash becomes two
   backslashes, every other byte is copied (one pass, the tests in this order) *)
Definition csv_esc (c : Z) : str :=
  if c =? 34 then [92; 34] else if c =? 92 then [92; 92] else [c].
Definition csv_quoted (s : str) : str := 34 :: flat_map csv_esc s ++ [34].
(* report.cc:770-785 fn_quoted_rfc: dquote becomes dquote dquote *)
Definition csv_quoted_rfc (s : str) : str := 34 :: replace_char 34 [34; 34] s ++ [34].
(* report.cc fn_join: `foreach (const char ch, arg)` with a chain of tests on ch, each writing ch or
   a literal; the chain is regenerated from the source on every run (Gen/JoinRule.v
   src_join_clauses; currently: a newline becomes the two characters \ n, every other byte is copied).
   `ch` is a plain char: on x86-64/Linux it is signed, a byte >= 0x80 compares as byte - 256 *)
Definition c_char (b : Z) : Z := if b <? 128 then b else b - 256.
Definition jtest_holds (t : jtest) (ch : Z) : bool :=
  match t with
  | JEq c => ch =? c | JNe c => negb (ch =? c)
  | JLt c => ch <? c | JLe c => ch <=? c | JGt c => c <? ch | JGe c => c <=? ch
  | JElse => true
  end.
Fixpoint join_char (cl : list (jtest * jout)) (b : Z) : str :=
  match cl with
  | [] => []                                  (* no clause applies: nothing is written *)
  | (t, o) :: r => if jtest_holds t (c_char b) then match o with JCopy => [b] | JLit l => l end
                   else join_char r b
  end.
Definition join_with (cl : list (jtest * jout)) (s : str) : str := flat_map (join_char cl) s.
Definition join_lines (s : str) : str := join_with src_join_clauses s.
(* the consumer of a joined note: the two characters \ n stand for a line break *)
Fixpoint unjoin (s : str) : str :=
  match s with
  | [] => []
  | a :: r => match r with
              | b :: r' => if (a =? 92) && (b =? 110) then 10 :: unjoin r' else a :: unjoin r
              | [] => [a]
              end
  end.

(* boost encode_char_entities (xml_parser_utils.hpp:47-82) *)
Definition xml_entity (c : Z) : str :=
  if c =? 60 then [38; 108; 116; 59]                      (* &lt;   *)
  else if c =? 62 then [38; 103; 116; 59]                 (* &gt;   *)
  else if c =? 38 then [38; 97; 109; 112; 59]             (* &amp;  *)
  else if c =? 34 then [38; 113; 117; 111; 116; 59]       (* &quot; *)
  else if c =? 39 then [38; 97; 112; 111; 115; 59]        (* &apos; *)
  else [c].

Definition xml_encode (s : str) : str :=
  match s with
  | [] => []
  | _ :: t =>
      if forallb (Z.eqb 32) s                              (* only spaces: &#32; then the other spaces *)
      then [38; 35; 51; 50; 59] ++ repeat 32 (length t)
      else flat_map xml_entity s
  end.

(* ------------------------------------------------------------------------------------------ *)
(* numbers and dates as the writers print them                                                 *)

Fixpoint dec_digits (fuel : nat) (n : Z) (acc : str) : str :=
  match fuel with
  | O => acc
  | S f => if n <? 10 then (48 + n) :: acc else dec_digits f (n / 10) ((48 + n mod 10) :: acc)
  end.
(* decimal text of n >= 0; the number of decimal digits never exceeds the number of bits *)
Definition dec_nat (n : Z) : str := dec_digits (S (Z.to_nat (Z.log2 n))) n [].
Definition dec_Z (n : Z) : str := if n <? 0 then 45 :: dec_nat (- n) else dec_nat n.

Definition pad_to (w : nat) (s : str) : str := repeat 48 (w - length s) ++ s.
(* the default output date format %Y/%m/%d *)
Definition fmt_date (y m d : Z) : str :=
  pad_to 4 (dec_Z y) ++ [47] ++ pad_to 2 (dec_Z m) ++ [47] ++ pad_to 2 (dec_Z d).

(* days since 1970-01-01 of a Gregorian date (what gregorian::to_tm + mktime give under TZ=UTC,
   divided by 86400) *)
Definition days_from_civil (y m d : Z) : Z :=
  let y' := if m <=? 2 then y - 1 else y in
  let era := y' / 400 in
  let yoe := y' - era * 400 in
  let mp := (m + 9) mod 12 in
  let doy := (153 * mp + 2) / 5 + d - 1 in
  let doe := yoe * 365 + yoe / 4 - yoe / 100 + doy in
  era * 146097 + doe - 719468.

(* ------------------------------------------------------------------------------------------ *)
(* the report rows the writers receive                                                         *)

(* --- metadata (item.cc parse_tags / set_tag) ---
   One entry per `Key: value` note line or per name of a `:a:b:` series, in source order:
   (overwrite_existing, key, value); value None = a bare tag.  item_t::metadata is a std::map
   ordered by boost::ilexicographical_compare (case folded with toupper under LC_ALL=C). *)
Definition mentry : Type := (bool * str * option str)%type.
Definition metamap : Type := list (str * option str).

(* boost is_iless compares std::toupper(c, locale) as (signed) char: ASCII letters fold to upper
   case, bytes from 128 up are negative and sort before every ASCII character *)
Definition lower (c : Z) : Z :=
  let u := if (97 <=? c) && (c <=? 122) then c - 32 else c in
  if 128 <=? u then u - 256 else u.

Fixpoint ci_compare (a b : str) : comparison :=
  match a, b with
  | [], [] => Eq
  | [], _ :: _ => Lt
  | _ :: _, [] => Gt
  | x :: a', y :: b' =>
      match Z.compare (lower x) (lower y) with
      | Eq => ci_compare a' b'
      | c => c
      end
  end.

(* set_tag: an empty string value is stored as no value; an existing key keeps its spelling and,
   unless overwrite_existing, its value *)
Fixpoint meta_insert (ow : bool) (key : str) (v : option str) (m : metamap) : metamap :=
  match m with
  | [] => [(key, v)]
  | (k, w) :: r =>
      match ci_compare key k with
      | Eq => if ow then (k, v) :: r else m
      | Lt => (key, v) :: m
      | Gt => (k, w) :: meta_insert ow key v r
      end
  end.

Definition norm_value (v : option str) : option str :=
  match v with Some [] => None | _ => v end.

Definition build_meta (es : list mentry) : metamap :=
  fold_left (fun m e => meta_insert (fst (fst e)) (snd (fst e)) (norm_value (snd e)) m) es [].

Fixpoint meta_find (key : str) (m : metamap) : option (option str) :=
  match m with
  | [] => None
  | (k, w) :: r => match ci_compare key k with Eq => Some w | _ => meta_find key r end
  end.

Definition k_Payee : str := [80; 97; 121; 101; 101].

(* post_t::get_tag of the Payee key with inheritance, as payee_from_tag reads it: the posting's own
   valued tag, else the transaction's, else the empty string *)
Definition payee_tag (pm xm : metamap) : str :=
  match meta_find k_Payee pm with
  | Some (Some v) => v
  | _ => match meta_find k_Payee xm with Some (Some v) => v | _ => [] end
  end.

(* a date: year, month, day *)
Definition ymd : Type := (Z * Z * Z)%type.

Record amt : Type := mkAmt {
  a_text  : str;          (* the amount as operator<< prints it (commodity, quantity, annotations) *)
  a_flags : str;          (* put_commodity's flags attribute: P S T D *)
  a_sym   : option str;   (* commodity_t::symbol(), None for an amount without commodity *)
  a_qty   : str           (* quantity_string() / quantity(): the number alone *)
}.

Record post : Type := mkPost {
  p_line    : Z;          (* pos->beg_line *)
  p_virtual : Z;          (* 0 real, 1 (virtual), 2 [balanced virtual] *)
  p_state   : Z;          (* 0 uncleared, 1 cleared, 2 pending - as written on the posting *)
  p_account : str;        (* account->fullname() *)
  p_amount  : amt;
  p_cost    : option amt;
  p_note    : option str;
  p_date    : option ymd;      (* post._date: `[DATE]` or `[DATE=AUX]` in a note of the posting *)
  p_aux     : option ymd;      (* post._date_aux: `[=AUX]` or `[DATE=AUX]` *)
  p_meta_inline : list mentry;   (* tags of the note on the posting line itself *)
  p_meta_later  : list mentry    (* tags of the note lines that follow the posting *)
}.

Record xact : Type := mkXact {
  x_line  : Z;
  x_year  : Z; x_month : Z; x_day : Z;   (* xact._date: the header date, or a `[DATE]` of a transaction note *)
  x_aux   : option ymd;                  (* xact._date_aux: `DATE=AUX` in the header, or `[=AUX]` *)
  x_state : Z;
  x_code  : option str;
  x_payee : str;
  x_note  : option str;
  x_meta  : list mentry;  (* tags of the transaction's own notes (header line, lines before the first posting) *)
  x_posts : list post     (* the postings of this transaction that the report displays *)
}.

(* textual.cc:1485-1487: a posting without its own flag takes the transaction's state *)
Definition eff_state (x : xact) (p : post) : Z :=
  if p_state p =? 0 then x_state x else p_state p.

Definition is_nil {A} (l : list A) : bool := match l with [] => true | _ => false end.

Definition opt_str (o : option str) : str := match o with Some s => s | None => [] end.

(* post.cc payee_from_tag at report time: all of the posting's tags are known *)
Definition payee_from_tag (x : xact) (p : post) : str :=
  payee_tag (build_meta (p_meta_inline p ++ p_meta_later p)) (build_meta (x_meta x)).

(* textual.cc:1823-1825: at the end of the posting LINE, payee_from_tag() is evaluated and, when
   not empty, stored with set_payee; only the tags of the transaction and of the posting line itself
   exist at that moment *)
Definition payee_at_parse (x : xact) (p : post) : str :=
  payee_tag (build_meta (p_meta_inline p)) (build_meta (x_meta x)).

(* textual.cc parse_xact, trailing-note branch, under PayeeFollowsLaterTags: each note line after
   the posting is appended (its tags set), and when that changed payee_from_tag() to a non-empty
   value the stored payee is replaced.  `pm` is the posting's metadata so far, `cur` the stored
   payee ([] = none stored).  One entry at a time: a line holds one valued entry or bare tags, so
   stepping per entry or per line stores the same payees. *)
Fixpoint payee_steps (xm pm : metamap) (cur : str) (later : list mentry) : str :=
  match later with
  | [] => cur
  | e :: r =>
      let before := payee_tag pm xm in
      let pm' := meta_insert (fst (fst e)) (snd (fst e)) (norm_value (snd e)) pm in
      let after := payee_tag pm' xm in
      payee_steps xm pm'
        (if negb (is_nil after) && negb (str_eqb after before) then after else cur) r
  end.

(* the payee stored on the posting when the whole transaction has been read *)
Definition payee_stored (r : payee_rule) (x : xact) (p : post) : str :=
  match r with
  | PayeeFixedAtPostingLine => payee_at_parse x p
  | PayeeFollowsLaterTags =>
      payee_steps (build_meta (x_meta x)) (build_meta (p_meta_inline p)) (payee_at_parse x p)
                  (p_meta_later p)
  | PayeeRuleUnrecognised => []
  end.

(* post.cc post_t::payee(): the stored payee, else the tag, else the transaction's payee *)
Definition post_payee_rule (r : payee_rule) (x : xact) (p : post) : str :=
  if is_nil (payee_stored r x p) then
    (if is_nil (payee_from_tag x p) then x_payee x else payee_from_tag x p)
  else payee_stored r x p.

(* the rule of the current source (Gen/PayeeRule.v, regenerated from textual.cc on every run) *)
Definition post_payee (x : xact) (p : post) : str := post_payee_rule src_payee_rule x p.

Definition fmt_ymd (d : ymd) : str := fmt_date (fst (fst d)) (snd (fst d)) (snd d).
Definition x_primary (x : xact) : ymd := (x_year x, x_month x, x_day x).

(* The reports below depend on the --aux-date flag (item_t::use_aux_date). *)
Section Report.
Variable use_aux : bool.

(* item.h item_t::date(): with --aux-date the auxiliary date if there is one *)
Definition xact_date (x : xact) : ymd :=
  if use_aux then match x_aux x with Some d => d | None => x_primary x end else x_primary x.

(* post.cc post_t::aux_date(): the posting's, else the transaction's *)
Definition post_aux (x : xact) (p : post) : option ymd :=
  match p_aux p with Some d => Some d | None => x_aux x end.

(* post.cc post_t::primary_date(): the posting's own date, else xact->date() *)
Definition post_primary (x : xact) (p : post) : ymd :=
  match p_date p with Some d => d | None => xact_date x end.

(* post.cc post_t::date() (no xdata date: no --effective / period rewriting in these reports) *)
Definition post_date (x : xact) (p : post) : ymd :=
  if use_aux then match post_aux x p with Some d => d | None => post_primary x p end
  else post_primary x p.

(* ------------------------------------------------------------------------------------------ *)
(* emacs (emacs.cc:41-111, emacs.h:69-73)                                                      *)

Definition emacs_xact_head (path : str) (x : xact) : str :=
  (* xact.date(): one date per transaction, whatever dates its postings carry *)
  let d := xact_date x in
  let secs := days_from_civil (fst (fst d)) (snd (fst d)) (snd d) * 86400 in
  emacs_string path ++ [32] ++ dec_Z (x_line x) ++ [32] ++
  (* C++ integer / and %: truncation toward zero, remainder has the dividend's sign *)
  [40] ++ dec_Z (Z.quot secs 65536) ++ [32] ++ dec_Z (Z.rem secs 65536) ++ [32; 48; 41; 32] ++
  (match x_code x with
   | Some c => emacs_string c ++ [32]
   | None => [110; 105; 108; 32]                                   (* nil *)
   end) ++
  (match x_payee x with
   | [] => [110; 105; 108]
   | _ => emacs_string (x_payee x)
   end) ++ [10].

Definition emacs_state (st : Z) : str :=
  if st =? 1 then [32; 116]                                         (* space t *)
  else if st =? 2 then [32; 112; 101; 110; 100; 105; 110; 103]      (* space pending *)
  else [32; 110; 105; 108].                                         (* space nil *)

Definition emacs_post (x : xact) (p : post) : str :=
  [32; 32; 40] ++ dec_Z (p_line p) ++ [32] ++
  emacs_string (p_account p) ++ [32] ++ emacs_string (a_text (p_amount p)) ++
  emacs_state (eff_state x p) ++
  (match p_cost p with Some c => [32] ++ emacs_string (a_text c) | None => [] end) ++
  (match p_note p with Some n => [32] ++ emacs_string n | None => [] end) ++
  [41].

(* postings of one transaction are separated by a newline *)
Fixpoint emacs_posts (x : xact) (ps : list post) : str :=
  match ps with
  | [] => []
  | [p] => emacs_post x p
  | p :: r => emacs_post x p ++ [10] ++ emacs_posts x r
  end.

Definition emacs_xact (path : str) (x : xact) : str :=
  emacs_xact_head path x ++ emacs_posts x (x_posts x).

(* transactions are separated by `)` newline space `(`; the first is opened by `((`; flush closes with `))` newline *)
Fixpoint emacs_xacts (path : str) (xs : list xact) : str :=
  match xs with
  | [] => []
  | [x] => emacs_xact path x
  | x :: r => emacs_xact path x ++ [41; 10; 32; 40] ++ emacs_xacts path r
  end.

Definition emacs_out (path : str) (xs : list xact) : str :=
  match xs with
  | [] => []
  | _ => [40; 40] ++ emacs_xacts path xs ++ [41; 41; 10]
  end.

(* ------------------------------------------------------------------------------------------ *)
(* csv: the format is a list of (quoting function, field); Gen/CsvFormat.src_csv_format is the
   default one                                                                                 *)

Definition state_mark (st : Z) : str :=
  if st =? 1 then [42] else if st =? 2 then [33] else [].          (* star, bang, empty *)

(* post.cc get_display_account *)
Definition display_account (p : post) : str :=
  if p_virtual p =? 1 then [40] ++ p_account p ++ [41]
  else if p_virtual p =? 2 then [91] ++ p_account p ++ [93]
  else p_account p.

(* post.cc get_note: the posting's note followed by the transaction's *)
Definition post_note (x : xact) (p : post) : str := opt_str (p_note p) ++ opt_str (x_note x).

Definition field_value (x : xact) (p : post) (f : csv_field) : str :=
  match f with
  | FDate => fmt_ymd (post_date x p)
  | FCode => opt_str (x_code x)
  | FPayee => post_payee x p
  | FAccount => display_account p
  | FCommodity => opt_str (a_sym (p_amount p))
  | FQuantity => a_qty (p_amount p)
  | FState => state_mark (eff_state x p)
  | FNote => join_lines (post_note x p)
  | FUnknown => []
  end.

Definition apply_quoter (q : csv_quoter) (s : str) : str :=
  match q with
  | QDefault => csv_quoted s
  | QRfc => csv_quoted_rfc s
  | QBare => s
  | QUnrecognised => []
  end.

Fixpoint intercalate (sep : str) (l : list str) : str :=
  match l with
  | [] => []
  | [a] => a
  | a :: r => a ++ sep ++ intercalate sep r
  end.

(* one row: the quoted cells joined by the separator, then the terminator *)
Definition csv_row_text (cells : list (csv_quoter * str)) : str :=
  intercalate src_csv_separator (map (fun c => apply_quoter (fst c) (snd c)) cells) ++ src_csv_terminator.

Definition csv_text (rows : list (list (csv_quoter * str))) : str :=
  flat_map csv_row_text rows.

Definition csv_cells (fmt : list (csv_quoter * csv_field)) (x : xact) (p : post) : list (csv_quoter * str) :=
  map (fun qf => (fst qf, field_value x p (snd qf))) fmt.

Definition csv_rows (fmt : list (csv_quoter * csv_field)) (xs : list xact) : list (list (csv_quoter * str)) :=
  flat_map (fun x => map (csv_cells fmt x) (x_posts x)) xs.

Definition csv_out (fmt : list (csv_quoter * csv_field)) (xs : list xact) : str :=
  csv_text (csv_rows fmt xs).

End Report.

(* ------------------------------------------------------------------------------------------ *)
(* xml: a property tree and boost's writer                                                     *)

Inductive ptree : Type :=
| Node (data : str) (attrs : list (str * str)) (kids : list (str * ptree)).

Definition leaf (data : str) : ptree := Node data [] [].

Definition indent_str (n : nat) : str := repeat 32 (2 * n).

Definition write_attrs (attrs : list (str * str)) : str :=
  flat_map (fun kv => [32] ++ fst kv ++ [61; 34] ++ xml_encode (snd kv) ++ [34]) attrs.

(* write_xml_element (xml_parser_write.hpp:66-180) with settings (' ', 2), for indent >= 0 and
   trees without <xmlcomment>/<xmltext> children; `attrs` is the <xmlattr> child *)
Fixpoint write_el (key : str) (pt : ptree) (ind : nat) {struct pt} : str :=
  match pt with
  | Node data attrs kids =>
      let has_elements := negb (is_nil kids) in
      if is_nil data && is_nil kids && is_nil attrs then
        indent_str ind ++ [60] ++ key ++ [47; 62; 10]                       (* <key/> *)
      else
        indent_str ind ++ [60] ++ key ++ write_attrs attrs ++
        (if is_nil data && is_nil kids then [47; 62; 10]                    (* attributes only *)
         else
           [62] ++ (if has_elements then [10] else []) ++
           (if is_nil data then []
            else if has_elements then indent_str (S ind) ++ xml_encode data ++ [10]
            else xml_encode data) ++
           (fix go (l : list (str * ptree)) : str :=
              match l with
              | [] => []
              | kc :: r => write_el (fst kc) (snd kc) (S ind) ++ go r
              end) kids ++
           (if has_elements then indent_str ind else []) ++
           [60; 47] ++ key ++ [62; 10])
  end.

(* element and attribute names (ASCII) *)
Definition k_state : str := [115;116;97;116;101].
Definition k_cleared : str := [99;108;101;97;114;101;100].
Definition k_pending : str := [112;101;110;100;105;110;103].
Definition k_virtual : str := [118;105;114;116;117;97;108].
Definition k_true : str := [116;114;117;101].
Definition k_date : str := [100;97;116;101].
Definition k_aux_date : str := [97;117;120;45;100;97;116;101].
Definition k_code : str := [99;111;100;101].
Definition k_payee : str := [112;97;121;101;101].
Definition k_note : str := [110;111;116;101].
Definition k_postings : str := [112;111;115;116;105;110;103;115].
Definition k_posting : str := [112;111;115;116;105;110;103].
Definition k_account : str := [97;99;99;111;117;110;116].
Definition k_ref : str := [114;101;102].
Definition k_id : str := [105;100].
Definition k_name : str := [110;97;109;101].
Definition k_fullname : str := [102;117;108;108;110;97;109;101].
Definition k_post_amount : str := [112;111;115;116;45;97;109;111;117;110;116].
Definition k_amount : str := [97;109;111;117;110;116].
Definition k_commodity : str := [99;111;109;109;111;100;105;116;121].
Definition k_flags : str := [102;108;97;103;115].
Definition k_symbol : str := [115;121;109;98;111;108].
Definition k_quantity : str := [113;117;97;110;116;105;116;121].
Definition k_cost : str := [99;111;115;116].
Definition k_annotation : str := [97;110;110;111;116;97;116;105;111;110].
Definition k_price : str := [112;114;105;99;101].
Definition k_transactions : str := [116;114;97;110;115;97;99;116;105;111;110;115].
Definition k_transaction : str := [116;114;97;110;115;97;99;116;105;111;110].
Definition k_accounts : str := [97;99;99;111;117;110;116;115].
Definition k_commodities : str := [99;111;109;109;111;100;105;116;105;101;115].
(* addresses (account id / ref) are canonicalised to @ on both sides *)
Definition k_addr : str := [64].
Definition k_metadata : str := [109;101;116;97;100;97;116;97].
Definition k_value : str := [118;97;108;117;101].
Definition k_key : str := [107;101;121].
Definition k_string : str := [115;116;114;105;110;103].
Definition k_tag : str := [116;97;103].

(* item.cc put_metadata: in map order, a valued tag is <value key=K><string>V</string></value>
   (string values only: `Key:: expr` is not generated), a bare tag <tag>K</tag> *)
Definition put_metadata (m : metamap) : ptree :=
  Node [] []
    (map (fun kv =>
            match snd kv with
            | Some v => (k_value, Node [] [(k_key, fst kv)] [(k_string, leaf v)])
            | None => (k_tag, leaf (fst kv))
            end) m).

(* the <metadata> child exists as soon as the item has any tag *)
Definition metadata_kids (m : metamap) : list (str * ptree) :=
  match m with [] => [] | _ => [(k_metadata, put_metadata m)] end.

Definition state_attr (st : Z) : list (str * str) :=
  if st =? 1 then [(k_state, k_cleared)]
  else if st =? 2 then [(k_state, k_pending)]
  else [].

(* commodity.cc put_commodity (without annotation details) *)
Definition put_commodity (flags sym : str) : ptree :=
  Node [] [(k_flags, flags)] [(k_symbol, leaf sym)].

(* amount.cc put_amount: the children it adds to its node *)
Definition put_amount_kids (a : amt) : list (str * ptree) :=
  (match a_sym a with
   | Some s => [(k_commodity, put_commodity (a_flags a) s)]
   | None => []
   end) ++ [(k_quantity, leaf (a_qty a))].

(* post.cc put_post (the posting's own dates first: element date for _date, aux-date for _date_aux),
   without the running <total> (stripped from ledger's output before comparing) *)
Definition put_post (x : xact) (p : post) : ptree :=
  Node []
    (state_attr (eff_state x p) ++ (if p_virtual p =? 0 then [] else [(k_virtual, k_true)]))
    ((match p_date p with Some d => [(k_date, leaf (fmt_ymd d))] | None => [] end) ++
     (match p_aux p with Some d => [(k_aux_date, leaf (fmt_ymd d))] | None => [] end) ++
     (if is_nil (payee_from_tag x p) then [] else [(k_payee, leaf (payee_from_tag x p))]) ++
     [(k_account, Node [] [(k_ref, k_addr)] [(k_name, leaf (p_account p))]);
      (k_post_amount, Node [] [] [(k_amount, Node [] [] (put_amount_kids (p_amount p)))])] ++
     (match p_cost p with Some c => [(k_cost, Node [] [] (put_amount_kids c))] | None => [] end) ++
     (match p_note p with Some n => [(k_note, leaf n)] | None => [] end) ++
     metadata_kids (build_meta (p_meta_inline p ++ p_meta_later p))).

(* xact.cc put_xact (element date for _date, aux-date for _date_aux - the xml output does not
   depend on --aux-date) + the <postings> child added by format_ptree::flush *)
Definition put_xact (x : xact) : ptree :=
  Node []
    (state_attr (x_state x))
    ([(k_date, leaf (fmt_ymd (x_primary x)))] ++
     (match x_aux x with Some d => [(k_aux_date, leaf (fmt_ymd d))] | None => [] end) ++
     (match x_code x with Some c => [(k_code, leaf c)] | None => [] end) ++
     [(k_payee, leaf (x_payee x))] ++
     (match x_note x with Some n => [(k_note, leaf n)] | None => [] end) ++
     metadata_kids (build_meta (x_meta x)) ++
     [(k_postings, Node [] [] (map (fun p => (k_posting, put_post x p)) (x_posts x)))]).

(* the <transactions> element of the document (indent level 1) *)
(* ptree.cc format_ptree::flush: which postings of a reported transaction are written, given the
   ones that passed the display filter (those operator() received) and all postings of the
   transaction (all calculated, POST_EXT_VISITED, when nothing but --display filters); the rule is
   regenerated from the source on every run (Gen/XmlWalk.v) *)
Definition xml_walked_rule (w : xml_walk) (displayed all : list post) : list post :=
  match w with
  | WalkVisited => all
  | WalkDisplayed => displayed
  | WalkUnrecognised => []
  end.
Definition xml_walked (displayed all : list post) : list post := xml_walked_rule src_xml_walk displayed all.
Definition xml_walk_name : str :=
  match src_xml_walk with
  | WalkVisited => [118]        (* v *)
  | WalkDisplayed => [100]      (* d *)
  | WalkUnrecognised => [63]    (* ? *)
  end.

Definition xml_transactions (xs : list xact) : str :=
  write_el k_transactions (Node [] [] (map (fun x => (k_transaction, put_xact x)) xs)) 1.

(* the <commodities> element: one entry per commodity of the reported postings, in the order of
   std::map<string, commodity_t *> (ptree.cc:93-94: keyed by symbol(), byte-wise order, the first
   insertion wins).  An entry is (flags, symbol, annotation); the annotation of a posting amount
   that was given a cost is its unit price and the transaction date (annotate.cc put_annotation,
   printed because flush passes commodity_details = true). *)
Definition centry : Type := (str * str * option (amt * str))%type.
Definition ce_sym (c : centry) : str := snd (fst c).

Fixpoint insert_commodity (c : centry) (l : list centry) : list centry :=
  match l with
  | [] => [c]
  | d :: r =>
      match str_compare (ce_sym c) (ce_sym d) with
      | Eq => l
      | Lt => c :: l
      | Gt => d :: insert_commodity c r
      end
  end.

Definition put_commodity_details (c : centry) : ptree :=
  match c with
  | (flags, sym, an) =>
      Node [] [(k_flags, flags)]
        ([(k_symbol, leaf sym)] ++
         match an with
         | Some (price, date) =>
             [(k_annotation, Node [] [] [(k_price, Node [] [] (put_amount_kids price)); (k_date, leaf date)])]
         | None => []
         end)
  end.

Definition xml_commodities (cs : list centry) : str :=
  write_el k_commodities
    (Node [] []
       (map (fun c => (k_commodity, put_commodity_details c))
            (fold_left (fun acc c => insert_commodity c acc) cs []))) 1.

(* --- the account tree (account.cc put_account, without account-amount / account-total) --- *)
(* accounts_map is std::map<string, account_t *>: children in byte-wise order of their names.
   The tree is built from the full names of the visited accounts. *)
Fixpoint split_colon (s : str) (cur : str) : list str :=
  match s with
  | [] => [cur]
  | c :: r => if c =? 58 then cur :: split_colon r [] else split_colon r (cur ++ [c])
  end.

Inductive atree : Type := ANode (name : str) (visited : bool) (kids : list atree).

(* insert a path below a list of sibling nodes kept sorted by name; `v` says that a reported
   posting uses the account at the end of the path, which marks the whole path as visited
   (ptree.cc:42-46 account_visited_p: the account or one of its descendants was visited) *)
Fixpoint ainsert (v : bool) (path : list str) (sibs : list atree) {struct path} : list atree :=
  match path with
  | [] => sibs
  | n :: rest =>
      (fix ins (l : list atree) : list atree :=
         match l with
         | [] => [ANode n v (ainsert v rest [])]
         | ANode m w ks :: tl =>
             match str_compare n m with
             | Eq => ANode m (w || v) (ainsert v rest ks) :: tl
             | Lt => ANode n v (ainsert v rest []) :: l
             | Gt => ANode m w ks :: ins tl
             end
         end) sibs
  end.

(* every account of the journal with its visited flag *)
Definition account_forest (accts : list (bool * str)) : list atree :=
  fold_left (fun acc a => ainsert (fst a) (split_colon (snd a) []) acc) accts [].

(* account.cc put_account: the node was already added by the caller (`st.add`), and stays empty
   when the predicate fails *)
Fixpoint put_account (prefix : str) (t : atree) {struct t} : ptree :=
  match t with
  | ANode n v ks =>
      let full := match prefix with [] => n | _ => prefix ++ [58] ++ n end in
      if v then
        Node [] [(k_id, k_addr)]
          ([(k_name, leaf n); (k_fullname, leaf full)] ++
           (fix go (l : list atree) : list (str * ptree) :=
              match l with
              | [] => []
              | c :: r => (k_account, put_account full c) :: go r
              end) ks)
      else leaf []
  end.

(* the master account has an empty name and full name; it counts as visited when any account is *)
Definition xml_accounts (accts : list (bool * str)) : str :=
  write_el k_accounts
    (Node [] []
       [(k_account,
         if existsb fst accts then
           Node [] [(k_id, k_addr)]
             ([(k_name, leaf []); (k_fullname, leaf [])] ++
              map (fun t => (k_account, put_account [] t)) (account_forest accts))
         else leaf [])]) 1.

(* ------------------------------------------------------------------------------------------ *)
(* readers: specifications of the consumers                                                    *)

(* --- Emacs Lisp: tokens of an S-expression --- *)
Inductive ltok : Type := LOpen | LClose | LStr (s : str) | LAtom (s : str).
Inductive lstate : Type := LsNorm | LsAtom (acc : str) | LsStr (acc : str) | LsEsc (acc : str).

Definition is_lisp_ws (c : Z) : bool := (c =? 32) || (c =? 10) || (c =? 9) || (c =? 13).

(* Inside a string only the escapes backslash-backslash and backslash-dquote are accepted: any other backslash sequence (which
   Emacs would read as a control character, or drop) makes the reader fail, so a round-trip
   theorem also says that the writer never produces one. *)
Fixpoint lisp_lex (st : lstate) (s : str) : option (list ltok) :=
  match s with
  | [] =>
      match st with
      | LsNorm => Some []
      | LsAtom a => Some [LAtom a]
      | _ => None
      end
  | c :: r =>
      match st with
      | LsNorm =>
          if c =? 40 then option_map (cons LOpen) (lisp_lex LsNorm r)
          else if c =? 41 then option_map (cons LClose) (lisp_lex LsNorm r)
          else if c =? 34 then lisp_lex (LsStr []) r
          else if is_lisp_ws c then lisp_lex LsNorm r
          else lisp_lex (LsAtom [c]) r
      | LsAtom a =>
          if c =? 40 then option_map (fun l => LAtom a :: LOpen :: l) (lisp_lex LsNorm r)
          else if c =? 41 then option_map (fun l => LAtom a :: LClose :: l) (lisp_lex LsNorm r)
          else if c =? 34 then option_map (cons (LAtom a)) (lisp_lex (LsStr []) r)
          else if is_lisp_ws c then option_map (cons (LAtom a)) (lisp_lex LsNorm r)
          else lisp_lex (LsAtom (a ++ [c])) r
      | LsStr a =>
          if c =? 34 then option_map (cons (LStr a)) (lisp_lex LsNorm r)
          else if c =? 92 then lisp_lex (LsEsc a) r
          else lisp_lex (LsStr (a ++ [c])) r
      | LsEsc a =>
          if (c =? 92) || (c =? 34) then lisp_lex (LsStr (a ++ [c])) r else None
      end
  end.

Definition lisp_read_string (s : str) : option str :=
  match lisp_lex LsNorm s with
  | Some [LStr v] => Some v
  | _ => None
  end.

(* parenthesis depth after a token list, None if it ever closes more than it opened *)
Fixpoint depth_after (d : Z) (l : list ltok) : option Z :=
  match l with
  | [] => Some d
  | LOpen :: r => depth_after (d + 1) r
  | LClose :: r => if d <=? 0 then None else depth_after (d - 1) r
  | _ :: r => depth_after d r
  end.

Definition balanced (l : list ltok) : bool :=
  match depth_after 0 l with Some 0 => true | _ => false end.

(* S-expression trees from tokens (a stack of partially read lists) *)
Inductive sexp : Type := SAtom (s : str) | SStr (s : str) | SList (l : list sexp).

Fixpoint sexp_parse (stack : list (list sexp)) (done : list sexp) (l : list ltok) : option (list sexp) :=
  match l with
  | [] => match stack with [] => Some (rev done) | _ => None end
  | LOpen :: r => sexp_parse (done :: stack) [] r
  | LClose :: r =>
      match stack with
      | [] => None
      | up :: st => sexp_parse st (SList (rev done) :: up) r
      end
  | LStr s :: r => sexp_parse stack (SStr s :: done) r
  | LAtom s :: r => sexp_parse stack (SAtom s :: done) r
  end.

Definition lisp_read (s : str) : option (list sexp) :=
  match lisp_lex LsNorm s with
  | Some toks => sexp_parse [] [] toks
  | None => None
  end.

(* --- csv, RFC 4180: quoted cells, a doubled dquote stands for one; records end with a newline --- *)
Inductive cstate : Type := CsStart | CsUnq | CsQ | CsQQ.

Fixpoint csv_rfc (st : cstate) (fld : str) (row : list str) (s : str) : option (list (list str)) :=
  match s with
  | [] =>
      match st with
      | CsStart => match row with [] => Some [] | _ => Some [row ++ [fld]] end
      | CsUnq | CsQQ => Some [row ++ [fld]]
      | CsQ => None                                      (* unterminated quoted cell *)
      end
  | c :: r =>
      match st with
      | CsStart =>
          if c =? 34 then csv_rfc CsQ [] row r
          else if c =? 44 then csv_rfc CsStart [] (row ++ [[]]) r
          else if c =? 10 then option_map (cons (row ++ [[]])) (csv_rfc CsStart [] [] r)
          else csv_rfc CsUnq [c] row r
      | CsUnq =>
          if c =? 34 then None                           (* a quote inside an unquoted cell *)
          else if c =? 44 then csv_rfc CsStart [] (row ++ [fld]) r
          else if c =? 10 then option_map (cons (row ++ [fld])) (csv_rfc CsStart [] [] r)
          else csv_rfc CsUnq (fld ++ [c]) row r
      | CsQ =>
          if c =? 34 then csv_rfc CsQQ fld row r
          else csv_rfc CsQ (fld ++ [c]) row r
      | CsQQ =>                                          (* after a quote inside a quoted cell *)
          if c =? 34 then csv_rfc CsQ (fld ++ [34]) row r
          else if c =? 44 then csv_rfc CsStart [] (row ++ [fld]) r
          else if c =? 10 then option_map (cons (row ++ [fld])) (csv_rfc CsStart [] [] r)
          else None                                      (* text after the closing quote *)
      end
  end.

Definition csv_read_rfc (s : str) : option (list (list str)) := csv_rfc CsStart [] [] s.

(* --- csv with backslash escapes (escapechar = \, no quote doubling): \x stands for x --- *)
Inductive bstate : Type := BsStart | BsUnq | BsUnqEsc | BsQ | BsQEsc | BsEnd.

Fixpoint csv_bs (st : bstate) (fld : str) (row : list str) (s : str) : option (list (list str)) :=
  match s with
  | [] =>
      match st with
      | BsStart => match row with [] => Some [] | _ => Some [row ++ [fld]] end
      | BsUnq | BsEnd => Some [row ++ [fld]]
      | _ => None
      end
  | c :: r =>
      match st with
      | BsStart =>
          if c =? 34 then csv_bs BsQ [] row r
          else if c =? 92 then csv_bs BsUnqEsc [] row r
          else if c =? 44 then csv_bs BsStart [] (row ++ [[]]) r
          else if c =? 10 then option_map (cons (row ++ [[]])) (csv_bs BsStart [] [] r)
          else csv_bs BsUnq [c] row r
      | BsUnq =>
          if c =? 34 then None
          else if c =? 92 then csv_bs BsUnqEsc fld row r
          else if c =? 44 then csv_bs BsStart [] (row ++ [fld]) r
          else if c =? 10 then option_map (cons (row ++ [fld])) (csv_bs BsStart [] [] r)
          else csv_bs BsUnq (fld ++ [c]) row r
      | BsUnqEsc => csv_bs BsUnq (fld ++ [c]) row r
      | BsQ =>
          if c =? 34 then csv_bs BsEnd fld row r
          else if c =? 92 then csv_bs BsQEsc fld row r
          else csv_bs BsQ (fld ++ [c]) row r
      | BsQEsc => csv_bs BsQ (fld ++ [c]) row r
      | BsEnd =>
          if c =? 44 then csv_bs BsStart [] (row ++ [fld]) r
          else if c =? 10 then option_map (cons (row ++ [fld])) (csv_bs BsStart [] [] r)
          else None
      end
  end.

Definition csv_read_bs (s : str) : option (list (list str)) := csv_bs BsStart [] [] s.

(* --- XML character data: the five predefined entities and decimal character references below
   128; a raw < or a & that does not start such a reference is not well-formed --- *)
Fixpoint dec_value (s : str) (acc : Z) : option Z :=
  match s with
  | [] => Some acc
  | c :: r => if (48 <=? c) && (c <=? 57) then dec_value r (acc * 10 + (c - 48)) else None
  end.

Definition entity_value (name : str) : option Z :=
  if str_eqb name [108; 116] then Some 60
  else if str_eqb name [103; 116] then Some 62
  else if str_eqb name [97; 109; 112] then Some 38
  else if str_eqb name [113; 117; 111; 116] then Some 34
  else if str_eqb name [97; 112; 111; 115] then Some 39
  else match name with
       | 35 :: (_ :: _) as ds =>
           match dec_value ds 0 with
           | Some v => if (1 <=? v) && (v <? 128) then Some v else None
           | None => None
           end
       | _ => None
       end.

(* st = None: in text; st = Some acc: after &, acc is the entity name read so far *)
Fixpoint xml_decode_st (st : option str) (s : str) : option str :=
  match s with
  | [] => match st with None => Some [] | Some _ => None end
  | c :: r =>
      match st with
      | None =>
          if c =? 60 then None
          else if c =? 38 then xml_decode_st (Some []) r
          else option_map (cons c) (xml_decode_st None r)
      | Some acc =>
          if c =? 59 then
            match entity_value acc with
            | Some v => option_map (cons v) (xml_decode_st None r)
            | None => None
            end
          else if (c =? 60) || (c =? 38) then None
          else xml_decode_st (Some (acc ++ [c])) r
      end
  end.

Definition xml_decode (s : str) : option str := xml_decode_st None s.

(* every & in the text starts one of the references the writer can produce *)
Fixpoint prefixb (p s : str) : bool :=
  match p, s with
  | [], _ => true
  | x :: p', y :: s' => (x =? y) && prefixb p' s'
  | _ :: _, [] => false
  end.

Definition entity_tails : list str :=
  [[108; 116; 59]; [103; 116; 59]; [97; 109; 112; 59]; [113; 117; 111; 116; 59];
   [97; 112; 111; 115; 59]; [35; 51; 50; 59]].

Fixpoint amp_entities (t : str) : bool :=
  match t with
  | [] => true
  | c :: r => (if c =? 38 then existsb (fun e => prefixb e r) entity_tails else true) && amp_entities r
  end.

(* printable: not an ASCII control character (bytes >= 128 are parts of UTF-8 letters) *)
Definition printable (c : Z) : Prop := 32 <= c < 127 \/ 128 <= c < 256.

(* --- XML element structure: the tags of a document, and their nesting --- *)
Inductive xev : Type := XOpen (k : str) | XClose (k : str) | XEmpty (k : str).

Inductive xstate : Type :=
| XsText                               (* character data *)
| XsName (closing : bool) (acc : str)  (* after <, reading the element name; closing: </ *)
| XsAttrs (k : str)                    (* in a start tag after the name, outside a quoted value *)
| XsQuote (k : str)                    (* inside a quoted attribute value *)
| XsSlash (k : str).                   (* after / in a start tag: > must follow *)

(* 60 <   62 >   47 /   32 space   34 dquote   61 = *)
Fixpoint xml_tags (st : xstate) (s : str) : option (list xev) :=
  match s with
  | [] => match st with XsText => Some [] | _ => None end
  | c :: r =>
      match st with
      | XsText => if c =? 60 then xml_tags (XsName false []) r else xml_tags XsText r
      | XsName cl acc =>
          if c =? 47 then
            match acc, cl with
            | [], false => xml_tags (XsName true []) r
            | _ :: _, false => xml_tags (XsSlash acc) r
            | _, true => None
            end
          else if c =? 62 then
            match acc with
            | [] => None
            | _ => option_map (cons (if cl then XClose acc else XOpen acc)) (xml_tags XsText r)
            end
          else if c =? 32 then
            match acc, cl with
            | _ :: _, false => xml_tags (XsAttrs acc) r
            | _, _ => None
            end
          else if (c =? 60) || (c =? 34) || (c =? 61) then None
          else xml_tags (XsName cl (acc ++ [c])) r
      | XsAttrs k =>
          if c =? 34 then xml_tags (XsQuote k) r
          else if c =? 47 then xml_tags (XsSlash k) r
          else if c =? 62 then option_map (cons (XOpen k)) (xml_tags XsText r)
          else if c =? 60 then None
          else xml_tags (XsAttrs k) r
      | XsQuote k =>
          if c =? 34 then xml_tags (XsAttrs k) r
          else if c =? 60 then None
          else xml_tags (XsQuote k) r
      | XsSlash k =>
          if c =? 62 then option_map (cons (XEmpty k)) (xml_tags XsText r) else None
      end
  end.

(* every end tag closes the innermost open element, and nothing stays open *)
Fixpoint well_nested (stack : list str) (l : list xev) : bool :=
  match l with
  | [] => is_nil stack
  | XOpen k :: r => well_nested (k :: stack) r
  | XEmpty _ :: r => well_nested stack r
  | XClose k :: r =>
      match stack with
      | top :: st => str_eqb top k && well_nested st r
      | [] => false
      end
  end.
