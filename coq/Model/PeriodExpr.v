(* C13 - the period EXPRESSION: date_parser_t::lexer_t::next_token (times.cc:1478-1626) and
   date_parser_t::parse (times.cc:794-1131), for the expressions the property quantifies over:
   a repeating duration (a named form, `every N units`, `every unit`) and the bounds
   `from/since D`, `to/until D`, `in D`, a bare date - the clauses in any order, keywords in any
   letter case.  The keyword table of the lexer and the token -> duration switches of the parser are
   NOT written here: they are re-read from src/times.cc on every run (Gen/PeriodWords.v).
   Left out (the model answers Err EOther, the generator never writes them): month and weekday
   names, `this/next/last ...`, `today/tomorrow/yesterday`, `N units ago/hence`, a bare integer
   (a year or a day of the month), the `-` range, `/` and `.` outside a date word.
   Reading the date word itself is the date reader's business (C14): a date word arrives as the day
   number it names; which of its year/month/day the reader's format carries (the traits) is
   Period.reader_traits.  Definitions only; proofs in Proofs/PeriodExprProofs.v. *)
From LedgerV Require Import Base.Prelude Model.PeriodCalendar Gen.PeriodSources Gen.PeriodWords Model.Period.
Local Open Scope Z_scope.

(* ---- the lexer ------------------------------------------------------------------------------- *)
(* a blank-separated word of the expression: a date word (first byte a digit, accepted by the date
   reader; z = the day it names), an integer (all digits), or a run of letters and digits that
   starts with a letter *)
Inductive word := WDate (z : Z) | WInt (n : Z) | WWord (w : str).

Inductive tok := KDate (z : Z) | KInt (n : Z) | KTok (t : ptok) | KUnknown.

Fixpoint assoc_str {A} (k : str) (l : list (str * A)) {struct l} : option A :=
  match l with
  | [] => None
  | (k', v) :: l' => if str_eqb k k' then Some v else assoc_str k l'
  end.

Fixpoint assoc_tok {A} (k : ptok) (l : list (ptok * A)) {struct l} : option A :=
  match l with
  | [] => None
  | (k', v) :: l' => if ptok_beq k k' then Some v else assoc_tok k l'
  end.

(* to_lower(term), then the comparison chain; no match = token_t::UNKNOWN *)
Definition lex_word (w : str) : tok :=
  match assoc_str (map lower_byte w) src_period_lexer_words with
  | Some t => KTok t
  | None => KUnknown
  end.

(* lexical_cast<unsigned short>(term): a value above 65535 throws bad_lexical_cast *)
Definition lex (w : word) : res tok :=
  match w with
  | WDate z => Ok (KDate z)
  | WInt n => if (0 <=? n) && (n <=? 65535) then Ok (KInt n) else Err EOther
  | WWord s => Ok (lex_word s)
  end.

Fixpoint lex_all (ws : list word) {struct ws} : res (list tok) :=
  match ws with
  | [] => Ok []
  | w :: r => do t <- lex w; do ts <- lex_all r; Ok (t :: ts)
  end.

(* ---- splitting the text into words (next_token: isspace, isdigit, isalnum) -------------------- *)
Definition is_space (c : Z) : bool := (c =? 32) || ((9 <=? c) && (c <=? 13)).
Definition is_digit (c : Z) : bool := (48 <=? c) && (c <=? 57).
Definition is_alpha (c : Z) : bool := ((65 <=? c) && (c <=? 90)) || ((97 <=? c) && (c <=? 122)).
Definition is_alnum (c : Z) : bool := is_digit c || is_alpha c.

(* cur = the word being read, reversed *)
Fixpoint split_words (s : str) (cur : str) {struct s} : list str :=
  match s with
  | [] => match cur with [] => [] | _ => [rev cur] end
  | c :: r => if is_space c then match cur with [] => split_words r [] | _ => rev cur :: split_words r [] end
              else split_words r (c :: cur)
  end.

Definition digits_value (w : str) : Z := fold_left (fun a c => a * 10 + (c - 48)) w 0.

(* a word that starts with a digit is offered to the date reader as a whole; the harness hands over the
   days the date words name, in the order written.  An all-digit word of at most 5 digits is not a date in
   any format used here (it is an integer); a longer all-digit word (%Y%m%d) is a date word.
   A word starting with a letter must be letters and digits throughout (anything else makes the lexer stop
   with "Unexpected char"); so must one starting with `/`, `-`, `.` or another sign (left out). *)
Fixpoint classify (ws : list str) (dates : list Z) {struct ws} : res (list word) :=
  match ws with
  | [] => Ok []
  | w :: r =>
    match w with
    | [] => Err EOther
    | c :: _ =>
      if is_digit c then
        if forallb is_digit w && (Z.of_nat (length w) <=? 5) then
          do ws' <- classify r dates; Ok (WInt (digits_value w) :: ws')
        else match dates with
             | [] => Err EBadDate
             | z :: dates' => do ws' <- classify r dates'; Ok (WDate z :: ws')
             end
      else if is_alpha c && forallb is_alnum w then
        do ws' <- classify r dates; Ok (WWord w :: ws')
      else Err EOther
    end
  end.

(* ---- the parser -------------------------------------------------------------------------------- *)
Definition quantum_of (q : pquantum) : option quantum :=
  match q with
  | PQ_DAYS => Some QDays | PQ_WEEKS => Some QWeeks | PQ_MONTHS => Some QMonths
  | PQ_QUARTERS => Some QQuarters | PQ_YEARS => Some QYears | PQ_OTHER => None
  end.

Definition dur_of (e : pquantum * Z) : res duration :=
  match quantum_of (fst e) with Some q => Ok (mkDur q (snd e)) | None => Err EOther end.

(* date_specifier_t(when, traits).end(): one day, one month or one year after begin() *)
Definition specifier_end (t : date_traits) (cur_year z : Z) : res Z :=
  let b := specifier_begin t cur_year z in
  if has_day t then Ok (add_days b 1)
  else if has_month t then Ok (add_months b 1)
  else if has_year t then Ok (add_years b 1)
  else Err EOther.                                   (* assert(false) *)

(* since_specifier / until_specifier (their begin()), inclusion_specifier (begin(), end()), period.duration *)
Record pstate := mkPs {
  ps_since : option Z; ps_until : option Z; ps_incl : option (Z * Z); ps_dur : option duration }.
Definition ps_empty : pstate := mkPs None None None None.
Definition with_since (st : pstate) (z : Z) := mkPs (Some z) (ps_until st) (ps_incl st) (ps_dur st).
Definition with_until (st : pstate) (z : Z) := mkPs (ps_since st) (Some z) (ps_incl st) (ps_dur st).
Definition with_incl (st : pstate) (be : Z * Z) := mkPs (ps_since st) (ps_until st) (Some be) (ps_dur st).
Definition with_dur (st : pstate) (d : duration) := mkPs (ps_since st) (ps_until st) (ps_incl st) (Some d).

Definition incl_of (fmt : str) (cy z : Z) : res (Z * Z) :=
  do e <- specifier_end (reader_traits fmt) cy z; Ok (bound_of_text fmt cy z, e).

(* the token loop of date_parser_t::parse.  After since / until / in the next token goes to
   determine_when: a date is taken, anything else (or the end) is left out or "unexpected". *)
Fixpoint parse_toks (fmt : str) (cy : Z) (ts : list tok) (st : pstate) {struct ts} : res pstate :=
  match ts with
  | [] => Ok st
  | KDate z :: r => do be <- incl_of fmt cy z; parse_toks fmt cy r (with_incl st be)
  | KTok T_SINCE :: r =>
    match ps_since st, r with
    | None, KDate z :: r' => parse_toks fmt cy r' (with_since st (bound_of_text fmt cy z))
    | _, _ => Err EOther
    end
  | KTok T_UNTIL :: r =>
    match ps_until st, r with
    | None, KDate z :: r' => parse_toks fmt cy r' (with_until st (bound_of_text fmt cy z))
    | _, _ => Err EOther
    end
  | KTok T_IN :: r =>
    match ps_incl st, r with
    | None, KDate z :: r' => do be <- incl_of fmt cy z; parse_toks fmt cy r' (with_incl st be)
    | _, _ => Err EOther
    end
  | KTok T_EVERY :: r =>
    match r with
    | KInt n :: r' =>
      if (n =? 0) && src_period_every_zero_rejected then Err EOther else
      match r' with
      | KTok u :: r'' =>
        match assoc_tok u src_period_every_n with
        | Some q => do d <- dur_of (q, n); parse_toks fmt cy r'' (with_dur st d)
        | None => Err EOther
        end
      | _ => Err EOther
      end
    | KTok u :: r' =>
      match assoc_tok u src_period_every_1 with
      | Some e => do d <- dur_of e; parse_toks fmt cy r' (with_dur st d)
      | None => Err EOther
      end
    | _ => Err EOther
    end
  | KTok t :: r =>
    match assoc_tok t src_period_named with
    | Some e => do d <- dur_of e; parse_toks fmt cy r (with_dur st d)
    | None => Err EOther
    end
  | _ => Err EOther                                   (* a bare integer: left out; UNKNOWN: unexpected *)
  end.

(* the end of parse(): a range when since or until was written (since_specified = a since was),
   else the inclusion specifier, else no date reference.  An expression without a repeating duration is
   outside this property (Err). *)
Definition period_of (st : pstate) : res ival :=
  match ps_dur st with
  | None => Err EOther
  | Some d =>
    match ps_since st, ps_until st, ps_incl st with
    | None, None, Some (b, e) => Ok (mkIval (Some b) (Some e) None None false None d None false)
    | s, u, _ => Ok (init d s u)
    end
  end.

Definition parse_words (fmt : str) (cy : Z) (ws : list word) : res ival :=
  do ts <- lex_all ws; do st <- parse_toks fmt cy ts ps_empty; period_of st.

(* the whole way from the text *)
Definition parse_text (fmt : str) (cy : Z) (text : str) (dates : list Z) : res ival :=
  do ws <- classify (split_words text []) dates; parse_words fmt cy ws.

(* the token kinds `ledger period` lists, for the correspondence check *)
Definition tokens_of_text (text : str) (dates : list Z) : res (list tok) :=
  do ws <- classify (split_words text []) dates; lex_all ws.

(* ---- the vocabulary of the PROPERTY TEXT (what each written form is said to mean) --------------- *)
Definition w_every : str := [101; 118; 101; 114; 121].
Definition w_from : str := [102; 114; 111; 109].
Definition w_since : str := [115; 105; 110; 99; 101].
Definition w_to : str := [116; 111].
Definition w_until : str := [117; 110; 116; 105; 108].
Definition w_in : str := [105; 110].
(* daily, weekly, biweekly, monthly, bimonthly, quarterly, yearly *)
Definition text_named_forms : list (str * (quantum * Z)) :=
  [([100; 97; 105; 108; 121], (QDays, 1)); ([119; 101; 101; 107; 108; 121], (QWeeks, 1));
   ([98; 105; 119; 101; 101; 107; 108; 121], (QWeeks, 2)); ([109; 111; 110; 116; 104; 108; 121], (QMonths, 1));
   ([98; 105; 109; 111; 110; 116; 104; 108; 121], (QMonths, 2));
   ([113; 117; 97; 114; 116; 101; 114; 108; 121], (QQuarters, 1)); ([121; 101; 97; 114; 108; 121], (QYears, 1))].
(* days, weeks, months, quarters, years *)
Definition text_unit_plurals : list (str * quantum) :=
  [([100; 97; 121; 115], QDays); ([119; 101; 101; 107; 115], QWeeks); ([109; 111; 110; 116; 104; 115], QMonths);
   ([113; 117; 97; 114; 116; 101; 114; 115], QQuarters); ([121; 101; 97; 114; 115], QYears)].
(* day, week, month, quarter, year *)
Definition text_unit_singulars : list (str * quantum) :=
  [([100; 97; 121], QDays); ([119; 101; 101; 107], QWeeks); ([109; 111; 110; 116; 104], QMonths);
   ([113; 117; 97; 114; 116; 101; 114], QQuarters); ([121; 101; 97; 114], QYears)].

(* a duration clause, as tokens: a named form, `every N units`, `every unit` *)
Definition dur_toks (ts : list tok) : option duration :=
  match ts with
  | [KTok T_EVERY; KInt n; KTok u] =>
    if (n =? 0) && src_period_every_zero_rejected then None else
    match assoc_tok u src_period_every_n with
    | Some q => match dur_of (q, n) with Ok d => Some d | Err _ => None end
    | None => None
    end
  | [KTok T_EVERY; KTok u] =>
    match assoc_tok u src_period_every_1 with
    | Some e => match dur_of e with Ok d => Some d | Err _ => None end
    | None => None
    end
  | [KTok t] =>
    match t with
    | T_SINCE | T_UNTIL | T_IN | T_EVERY => None
    | _ => match assoc_tok t src_period_named with
           | Some e => match dur_of e with Ok d => Some d | Err _ => None end
           | None => None
           end
    end
  | _ => None
  end.

(* an expression as a sequence of clauses, in the order written *)
Inductive clause := CDur (ts : list tok) | CFrom (z : Z) | CTo (z : Z).
Definition clause_toks (c : clause) : list tok :=
  match c with
  | CDur ts => ts
  | CFrom z => [KTok T_SINCE; KDate z]
  | CTo z => [KTok T_UNTIL; KDate z]
  end.
(* what the clauses mean, one after the other: a later duration replaces an earlier one, a second
   from (or to) is an error *)
Fixpoint apply_clauses (fmt : str) (cy : Z) (cs : list clause) (st : pstate) {struct cs} : res pstate :=
  match cs with
  | [] => Ok st
  | CDur ts :: r => match dur_toks ts with
                    | Some d => apply_clauses fmt cy r (with_dur st d)
                    | None => Err EOther
                    end
  | CFrom z :: r => match ps_since st with
                    | None => apply_clauses fmt cy r (with_since st (bound_of_text fmt cy z))
                    | Some _ => Err EOther
                    end
  | CTo z :: r => match ps_until st with
                  | None => apply_clauses fmt cy r (with_until st (bound_of_text fmt cy z))
                  | Some _ => Err EOther
                  end
  end.
Definition perms3 {A} (a b c : A) : list (list A) :=
  [[a; b; c]; [a; c; b]; [b; a; c]; [b; c; a]; [c; a; b]; [c; b; a]].

(* ---- --start-of-week TEXT: report_t::normalize_options (report.cc:100-109) ---------------------- *)
(* the text is lower-cased (lowered()) and handed to string_to_day_of_week (times.cc:191-209): the
   three-letter name, the full name or the number 0..6; anything else is refused
   ("Unknown day of the week", no report) *)
Definition week_day_names : list (str * Z) :=
  [([115; 117; 110], 0) (* sun *);
   ([115; 117; 110; 100; 97; 121], 0) (* sunday *);
   ([48], 0) (* 0 *);
   ([109; 111; 110], 1) (* mon *);
   ([109; 111; 110; 100; 97; 121], 1) (* monday *);
   ([49], 1) (* 1 *);
   ([116; 117; 101], 2) (* tue *);
   ([116; 117; 101; 115; 100; 97; 121], 2) (* tuesday *);
   ([50], 2) (* 2 *);
   ([119; 101; 100], 3) (* wed *);
   ([119; 101; 100; 110; 101; 115; 100; 97; 121], 3) (* wednesday *);
   ([51], 3) (* 3 *);
   ([116; 104; 117], 4) (* thu *);
   ([116; 104; 117; 114; 115; 100; 97; 121], 4) (* thursday *);
   ([52], 4) (* 4 *);
   ([102; 114; 105], 5) (* fri *);
   ([102; 114; 105; 100; 97; 121], 5) (* friday *);
   ([53], 5) (* 5 *);
   ([115; 97; 116], 6) (* sat *);
   ([115; 97; 116; 117; 114; 100; 97; 121], 6) (* saturday *);
   ([54], 6) (* 6 *)].
Definition week_start_of_text (s : str) : res Z :=
  match assoc_str (map lower_byte s) week_day_names with
  | Some d => Ok d
  | None => Err EOther
  end.
