(* Executable model of the commodity price history and of market valuation:
   commodity_history_impl_t (history.cc:61-129), add_price (history.cc:278-299),
   recent_edge_weight (history.cc:214-253), the two find_price functions
   (history.cc:374-546), commodity_t::add_price / find_price with its memo
   (commodity.cc:45-63, 118-180), amount_t::value (amount.cc:752-810),
   balance_t::value (balance.cc:192-207), the recording of prices from `P`
   directives and posting costs (pool.cc:222-367, xact.cc:218-299, textual.cc:1566-1645).

   A moment (datetime_t) is a number of seconds; a date is its midnight.
   A price is the amount stored in a price map: a quantity and ITS commodity (the
   commodity the price is expressed in); the priced commodity is the other end of the
   edge.  The graph is the list of its edges in creation order (boost adjacency_list
   with vecS: edge and adjacency iteration follow creation order). *)
From LedgerV Require Import Base.Prelude Gen.PriceMemo Gen.CostDate Gen.PercentExpr Gen.FindPriceDispatch Gen.PathWeight.
Local Open Scope Z_scope.

Definition comm := str.
Definition comm_eqb (a b : comm) : bool := str_eqb a b.

Record price : Type := mkPrice { pq : Q; pc : comm }.

(* price_map_t = std::map<datetime_t, amount_t>: strictly ascending association list *)
Definition pmap := list (Z * price).

(* prices.insert(value_type(when, price)); if the key exists the entry is overwritten
   (history.cc:293-298) *)
Fixpoint pm_insert (w : Z) (p : price) (m : pmap) : pmap :=
  match m with
  | [] => [(w, p)]
  | (w', p') :: m' =>
      if w <? w' then (w, p) :: m
      else if w =? w' then (w, p) :: m'
      else (w', p') :: pm_insert w p m'
  end.

(* recent_edge_weight::operator() (history.cc:230-252): low = upper_bound(reftime) is the
   first key > D; "low == begin" (every key is later than D) rejects the edge, otherwise
   --low is the last key <= D.  Written as a scan: stop at the first key > D, otherwise
   prefer whatever qualifies further right. *)
Fixpoint pm_recent (m : pmap) (D : Z) : option (Z * price) :=
  match m with
  | [] => None
  | (w, p) :: m' =>
      if D <? w then None
      else match pm_recent m' D with
           | Some r => Some r
           | None => Some (w, p)
           end
  end.

(* an edge of the undirected price graph; ea/eb are the vertices as given at creation *)
Record edge : Type := mkEdge { ea : comm; eb : comm; em : pmap }.
Definition graph := list edge.

Definition pair_eqb (s t a b : comm) : bool :=
  (comm_eqb s a && comm_eqb t b) || (comm_eqb s b && comm_eqb t a).

(* edge(sv, tv, price_graph) on an undirected graph *)
Definition joins (e : edge) (a b : comm) : bool := pair_eqb (ea e) (eb e) a b.

Fixpoint find_edge (g : graph) (a b : comm) : option edge :=
  match g with
  | [] => None
  | e :: g' => if joins e a b then Some e else find_edge g' a b
  end.

(* commodity_history_impl_t::add_price (history.cc:278-299): find or create the edge
   between the priced commodity and the price's commodity, insert into its map.
   (source == price.commodity() is excluded by an assert there; no such entry is recorded.) *)
Fixpoint add_price (g : graph) (src : comm) (w : Z) (p : price) : graph :=
  match g with
  | [] => [mkEdge src (pc p) [(w, p)]]
  | e :: g' =>
      if joins e src (pc p) then mkEdge (ea e) (eb e) (pm_insert w p (em e)) :: g'
      else e :: add_price g' src w p
  end.

(* one recorded price: at moment e_when, one unit of e_src costs e_pr *)
Record entry : Type := mkEntry { e_when : Z; e_src : comm; e_pr : price }.
Definition history := list entry.      (* insertion (= parse) order *)

Definition add_entry (g : graph) (e : entry) : graph :=
  if comm_eqb (e_src e) (pc (e_pr e)) then g else add_price g (e_src e) (e_when e) (e_pr e).

Definition build (h : history) : graph := fold_left add_entry h [].

Definition edge_map (g : graph) (a b : comm) : pmap :=
  match find_edge g a b with Some e => em e | None => [] end.

(* the price point the filter predicate selects for the edge a-b at reference time D *)
Definition edge_point (g : graph) (a b : comm) (D : Z) : option (Z * price) :=
  pm_recent (edge_map g a b) D.

(* ---- find_price(source, target, moment): path through the filtered graph ---- *)

Definition other_end (e : edge) (v : comm) : option comm :=
  if comm_eqb (ea e) v then Some (eb e)
  else if comm_eqb (eb e) v then Some (ea e)
  else None.

Fixpoint mem (c : comm) (l : list comm) : bool :=
  match l with [] => false | x :: l' => comm_eqb c x || mem c l' end.

Record step : Type := mkStep { s_from : comm; s_to : comm; s_pt : Z * price }.

(* All simple paths cur -> tgt through edges that have a price point at D.  Dijkstra
   (history.cc:464-467) returns one path of the filtered graph; where the path is unique
   (the quantifier of the property) it is this one.  The choice among several paths is
   not modelled: the first one found in edge creation order is taken. *)
Fixpoint paths (fuel : nat) (g : graph) (D : Z) (vis : list comm) (cur tgt : comm)
  : list (list step) :=
  if comm_eqb cur tgt then [[]]
  else match fuel with
       | O => []
       | S f =>
           flat_map (fun e =>
             match other_end e cur, pm_recent (em e) D with
             | Some nxt, Some pt =>
                 if mem nxt (cur :: vis) then []
                 else map (cons (mkStep cur nxt pt)) (paths f g D (cur :: vis) nxt tgt)
             | _, _ => []
             end) g
       end.

(* history.cc:510-526: walking from the target back to the source, last_target is the
   vertex just left (s_to); a price expressed in another commodity is inverted.
   in_place_invert leaves a zero quantity alone, as Qinv does. *)
Definition factor (s : step) : Q :=
  let p := snd (s_pt s) in
  if comm_eqb (pc p) (s_to s) then pq p else Qinv (pq p).

(* price = factor(last step); price *= factor(previous step); ... *)
Definition path_q (p : list step) : Q :=
  fold_left (fun acc s => Qmult acc (factor s)) (rev p) 1%Q.

Definition find_price (g : graph) (src tgt : comm) (D : Z) : option price :=
  if comm_eqb src tgt then None
  else match paths (2 * length g) g D [] src tgt with
       | [] => None
       | p :: _ => Some (mkPrice (Qred (path_q p)) tgt)
       end.

(* ---- find_price(source, target, moment, oldest) when SEVERAL paths join source and target
   (history.cc:435-546).  The filter predicate recent_edge_weight (history.cc:214-253) keeps an
   edge when it has a price not after `moment` and - when `oldest` is given - that price is not
   before `oldest`; it stores the AGE of that price, (moment - when) in seconds, as the weight of
   the edge.  dijkstra_shortest_paths runs with distance_combine(f_max<long>()) (history.cc:41-50,
   464-467): the distance of a vertex is max(distance of its predecessor, weight of the edge),
   starting from zero, i.e. the weight of a path is the age of its STALEST price, and the
   predecessor map yields a path of least such weight (std::less, relaxation on strict
   improvement only).  Which combine function the call passes is re-read from the source
   (Gen/PathWeight.v).
   Ties: when several simple paths share the least weight, which one the predecessor map holds
   depends on the order in which boost's 4-ary heap pops vertices of equal distance; that is NOT
   modelled.  `find_price_via` takes the first least-weight path in enumeration order, `via_tie`
   says whether a second one exists; the harness compares the rate only where it says no (the
   oracle still requires the rate of SOME least-weight path). ---- *)
Definition step_when (s : step) : Z := fst (s_pt s).
Definition step_age (D : Z) (s : step) : Z := D - step_when s.

Definition path_combine (x y : Z) : Z :=
  match dijkstra_combine with
  | CombineMax => Z.max x y
  | CombineSum => x + y
  | CombineUnrecognised => 0
  end.

(* distance of the target along p: zero at the source, combined edge by edge *)
Definition path_weight (D : Z) (p : list step) : Z :=
  fold_left (fun acc s => path_combine acc (step_age D s)) p 0.

(* "edge is out of range" (history.cc:238-241) *)
Definition step_ok (oldest : option Z) (s : step) : bool :=
  match oldest with
  | None => true
  | Some o => negb (step_when s <? o)
  end.

(* the simple paths of the filtered graph: an edge rejected because of `oldest` is absent from it *)
Definition candidates (g : graph) (D : Z) (oldest : option Z) (src tgt : comm) : list (list step) :=
  filter (forallb (step_ok oldest)) (paths (2 * length g) g D [] src tgt).

(* the smaller weight wins; an equal weight does not replace the path already held *)
Fixpoint lightest (D : Z) (best : list step) (l : list (list step)) : list step :=
  match l with
  | [] => best
  | p :: r => lightest D (if path_weight D p <? path_weight D best then p else best) r
  end.

(* history.cc:470-506: walking from the target back, least_recent is the `when` of the first
   point met, then lowered by every older point *)
Definition path_when (p : list step) : Z :=
  match rev p with
  | [] => 0
  | s :: r => fold_left (fun l x => if step_when x <? l then step_when x else l) r (step_when s)
  end.

Definition find_price_via (g : graph) (src tgt : comm) (D : Z) (oldest : option Z)
  : option (Z * price) :=
  if comm_eqb src tgt then None
  else match candidates g D oldest src tgt with
       | [] => None
       | p :: r =>
           let c := lightest D p r in
           Some (path_when c, mkPrice (Qred (path_q c)) tgt)
       end.

Definition via_tie (g : graph) (src tgt : comm) (D : Z) (oldest : option Z) : bool :=
  match candidates g D oldest src tgt with
  | [] => false
  | p :: r =>
      let w := path_weight D (lightest D p r) in
      (1 <? Z.of_nat (length (filter (fun q => path_weight D q =? w) (p :: r))))
  end.

(* ---- find_price(source, moment) (history.cc:374-433), used by -V: the most recent
   point among the usable edges at the source, the first edge winning a tie ---- *)
Fixpoint nearest (g : graph) (src : comm) (D : Z) (best : option (Z * price * comm))
  : option (Z * price * comm) :=
  match g with
  | [] => best
  | e :: g' =>
      match other_end e src, pm_recent (em e) D with
      | Some o, Some (w, p) =>
          nearest g' src D
            (match best with
             | None => Some (w, p, o)
             | Some (w0, _, _) => if w0 <? w then Some (w, p, o) else best
             end)
      | _, _ => nearest g' src D best
      end
  end.

Definition find_price_any (g : graph) (src : comm) (D : Z) : option price :=
  match nearest g src D None with
  | None => None
  | Some (_, p, o) =>
      if comm_eqb (pc p) src then Some (mkPrice (Qred (Qinv (pq p))) o)
      else Some (mkPrice (Qred (pq p)) (pc p))
  end.

(* ---- amount_t::value (amount.cc:752-810) ---- *)

(* a commoditized amount: quantity, base commodity, and the commodity of the lot price
   annotation `{..}` when the amount carries a (non-fixated) one *)
Record holding : Type := mkHold { hq : Q; hc : comm; hlot : option comm }.

(* what a valuation needs to know about the pool: `v_prim` = commodities flagged
   COMMODITY_PRIMARY (commodity.cc:48-55: the commodity a recorded price is expressed in);
   `v_dflt` = pool().default_commodity (the last `D` directive / `commodity .. default`). *)
Record vctx : Type := mkCtx { v_prim : list comm; v_dflt : option comm }.

(* commodity_t::find_price(commodity, moment) (commodity.cc:118-187) without the memo: the
   target is the commodity asked for, else the default commodity; looking a commodity up in
   itself gives nothing; with a target the path search, without one the most recent neighbour.
   Which of `target` / `commodity` the dispatch tests is re-read from the source
   (Gen/FindPriceDispatch.v). *)
Definition lookup (g : graph) (dflt : option comm) (src : comm) (commodity : option comm) (D : Z)
  : option price :=
  let target := match commodity with Some c => Some c | None => dflt end in
  if (match target with Some t => comm_eqb src t | None => false end) then None
  else match (if find_price_dispatch_on_target then target else commodity) with
       | Some t => find_price g src t D
       | None => find_price_any g src D
       end.

(* tgt = Some T for -X T, None for -V. *)
Definition value (g : graph) (cx : vctx) (a : holding) (tgt : option comm) (D : Z)
  : option (Q * comm) :=
  let go :=
    match tgt with
    | Some _ => true
    | None => negb (mem (hc a) (v_prim cx))
    end in
  if go then
    let comm := match tgt with Some t => Some t | None => hlot a end in
    if (match comm with Some t => comm_eqb (hc a) t | None => false end)
    then Some (Qred (hq a), hc a)           (* with_commodity(comm->referent()) *)
    else match lookup g (v_dflt cx) (hc a) comm D with
         | Some p => Some (Qred (pq p * hq a), pc p)
         | None => None
         end
  else None.

(* fn_market (report.cc:574-602): an amount that has no value is reported as it is *)
Definition convert (g : graph) (prim : vctx) (a : holding) (tgt : option comm) (D : Z)
  : Q * comm :=
  match value g prim a tgt D with
  | Some r => r
  | None => (Qred (hq a), hc a)
  end.

(* per-commodity sums (balance_t keyed by commodity), zero sums dropped *)
Fixpoint acc_add (b : list (comm * Q)) (c : comm) (q : Q) : list (comm * Q) :=
  match b with
  | [] => [(c, q)]
  | (c', q') :: b' =>
      if comm_eqb c c' then (c', Qred (q' + q)) :: b' else (c', q') :: acc_add b' c q
  end.

Definition nonzero (b : list (comm * Q)) : list (comm * Q) :=
  filter (fun cq => negb (Qnum (snd cq) =? 0)) b.

(* balance_t::value: every member is converted (or kept), results are added *)
Definition convert_all (g : graph) (prim : vctx) (l : list holding) (tgt : option comm) (D : Z)
  : list (comm * Q) :=
  nonzero (fold_left (fun b a => let r := convert g prim a tgt D in acc_add b (snd r) (fst r)) l []).

(* ---- how prices enter the history ---- *)

Definition Qabs' (q : Q) : Q := if Qnum q <? 0 then Qopp q else q.

(* the dates written on a costed posting and on its transaction (days): `DATE[=AUX]` on the
   transaction line, `; [DATE]`, `; [DATE=AUX]`, `; [=AUX]` in the posting's note *)
Record dates : Type := mkDates {
  x_prim : Z; x_aux : option Z;          (* the transaction's date and auxiliary date *)
  p_prim : option Z; p_aux : option Z    (* the posting's own dates, if written *)
}.

(* item_t::date() (item.h:180-185) for the transaction *)
Definition xact_date (use_aux : bool) (d : dates) : Z :=
  if use_aux then match x_aux d with Some a => a | None => x_prim d end else x_prim d.

(* post_t::date() (post.cc:90-118): the posting's own date, falling back to the transaction's *)
Definition post_date (use_aux : bool) (d : dates) : Z :=
  let prim := match p_prim d with Some p => p | None => xact_date use_aux d end in
  if use_aux then
    match (match p_aux d with Some a => Some a | None => x_aux d end) with
    | Some a => a
    | None => prim
    end
  else prim.

(* the day finalize hands to exchange() (xact.cc:296-299); which expression it is is re-read from
   the source on every run (Gen/CostDate.v, harness/translators/c10_cost_date.py) *)
Definition cost_day (src : cost_date_src) (use_aux : bool) (d : dates) : Z :=
  match src with
  | CostXactDate => xact_date use_aux d
  | CostPostDate => post_date use_aux d
  | CostDateUnrecognised => 0
  end.

Inductive item : Type :=
| IP (when : Z) (src : comm) (q : Q) (tgt : comm)
      (* `P DATE [TIME] SRC Q TGT` (pool.cc:317-367) *)
| ICost (d : dates) (aq : Q) (ac : comm) (total : bool) (cq : Q) (cc : comm) (virt : bool)
      (* a posting `aq ac @ cq cc` (total = false), `@@` (total = true), `(@)`/`(@@)` (virt):
         textual.cc:1615-1625 turns the cost into a total (per-unit cost times the amount; a total
         cost takes the sign of the amount), pool.cc:259-280 records |cost / amount| at midnight of
         the day finalize passes, unless the cost is virtual or the price is exactly zero *)
| IImplied (d : dates) (xq : Q) (xc : comm) (yq : Q) (yc : comm)
| IDefault (c : comm).
      (* `D AMOUNT` (textual.cc:533-539) or `commodity C` with `default`: c becomes the pool's
         default commodity; records no price *)
      (* a transaction without costs and without a null posting whose postings sum to xq xc
         (the first posting's commodity) and yq yc: xact.cc:218-281 gives every xc posting the
         cost |yq / xq| per unit; `d` carries the dates of that posting *)

Definition midnight (day : Z) : Z := day * 86400.

(* how an item enters the history, given the date source of finalize and the value of
   item_t::use_aux_date while the journal is read *)
Definition entry_of_with (src : cost_date_src) (use_aux : bool) (i : item) : option entry :=
  match i with
  | IP w s q t => Some (mkEntry w s (mkPrice (Qred q) t))
  | ICost d aq ac total cq cc virt =>
      let cost := if total then (if Qnum aq <? 0 then Qopp cq else cq) else Qmult cq aq in
      let pu := Qred (Qabs' (Qdiv cost aq)) in
      if virt || (Qnum pu =? 0) then None
      else Some (mkEntry (midnight (cost_day src use_aux d)) ac (mkPrice pu cc))
  | IImplied d xq xc yq yc =>
      let pu := Qred (Qabs' (Qdiv yq xq)) in
      if Qnum pu =? 0 then None
      else Some (mkEntry (midnight (cost_day src use_aux d)) xc (mkPrice pu yc))
  | IDefault _ => None
  end.

(* The journal is read before the report options are normalised (global.cc:237-239;
   item_t::use_aux_date is assigned in report_t::normalize_options, report.cc:82), so while
   finalize runs use_aux_date still has its initial value false, --aux-date or not. *)
Definition parse_time_use_aux : bool := false.

Definition entry_of (i : item) : option entry :=
  entry_of_with finalize_cost_date parse_time_use_aux i.

Fixpoint history_of (l : list item) : history :=
  match l with
  | [] => []
  | i :: l' => match entry_of i with Some e => e :: history_of l' | None => history_of l' end
  end.

(* the default commodity once the journal has been read: the last directive wins *)
Fixpoint default_of (l : list item) (acc : option comm) : option comm :=
  match l with
  | [] => acc
  | IDefault c :: r => default_of r (Some c)
  | _ :: r => default_of r acc
  end.

Definition prims (h : history) : list comm :=
  map (fun e => pc (e_pr e)) (filter (fun e => negb (comm_eqb (e_src e) (pc (e_pr e)))) h).

(* ---- reports ---- *)

(* `bal -X T --now D` / `bal -V --now D`: one account's display_total *)
Definition bal_row (l : list item) (held : list holding) (tgt : option comm) (D : Z) : list (comm * Q) :=
  let h := history_of l in
  convert_all (build h) (mkCtx (prims h) (default_of l None)) held tgt D.

(* amount_t::value / fn_market for -X t through this lookup (no `oldest` is ever passed by the
   reports: amount.cc:752-810 calls find_price(comm, moment)) *)
Definition convert_via (g : graph) (a : holding) (t : comm) (D : Z) : Q * comm :=
  if comm_eqb (hc a) t then (Qred (hq a), hc a)
  else match find_price_via g (hc a) t D None with
       | Some (_, p) => (Qred (pq p * hq a), pc p)
       | None => (Qred (hq a), hc a)
       end.

(* `bal -X T --now D` over a price graph with several paths: one account's display_total, and
   whether some holding's conversion met a tie between least-weight paths *)
Definition bal_row_via (l : list item) (held : list holding) (t : comm) (D : Z) : list (comm * Q) :=
  let g := build (history_of l) in
  nonzero (fold_left (fun b a => let r := convert_via g a t D in acc_add b (snd r) (fst r)) held []).

Definition bal_row_via_tie (l : list item) (held : list holding) (t : comm) (D : Z) : bool :=
  let g := build (history_of l) in
  existsb (fun a => negb (comm_eqb (hc a) t) && via_tie g (hc a) t D None) held.

(* `bal --percent -X T` / `--percent -V` (report.cc:167-177): the total expression becomes
     (__tmp = market(parent.total, value_date, exchange);
      ((is_account & parent & __tmp) ? percent(scrub(market(total, value_date, exchange)), scrub(__tmp)) : 0))
   fn_percent (report.cc:851-855) converts both arguments to amounts (a balance of several
   commodities cannot be: an error) and returns 100% * (numerator / denominator).number().
   Whether each market() call passes the -X commodity is re-read from the source
   (Gen/PercentExpr.v): a call without it is the targetless lookup of -V. *)
Inductive pres : Type := PErr | PVal (q : Q).

Definition percent_of (n d : list (comm * Q)) : pres :=
  match d with
  | [] => PVal 0                         (* __tmp is zero: the expression yields 0 *)
  | [(_, qd)] =>
      match n with
      | [] => PVal 0
      | [(_, qn)] => PVal (Qred (100 * qn / qd))
      | _ => PErr
      end
  | _ => PErr
  end.

(* the denominator of a share.  NOTE: `__tmp` is tested for truth with amount_t::is_zero, i.e. at
   the DISPLAY precision of its commodity, which this model does not carry: a parent value that
   is not zero but prints as zero (|value| < 1/2 unit of the last displayed digit) makes ledger
   answer 0 for every share.  The harness leaves reports whose parent value is below 1 in
   absolute value out of the comparison (see percent_den). *)
Definition percent_den (l : list item) (parent_held : list holding) (tgt : option comm) (D : Z)
  : list (comm * Q) :=
  bal_row l parent_held (if percent_denominator_targeted then tgt else None) D.

Definition percent_row (l : list item) (held parent_held : list holding) (tgt : option comm) (D : Z) : pres :=
  let tn := if percent_numerator_targeted then tgt else None in
  let td := if percent_denominator_targeted then tgt else None in
  percent_of (bal_row l held tn D) (bal_row l parent_held td D).

(* `reg -X T`: in a posting's scope value_date is the posting's date (post.cc:353-360):
   display_amount and the running display_total are valued at midnight of that date *)
Fixpoint reg_rows (g : graph) (prim : vctx) (tgt : option comm) (seen : list holding)
  (posts : list (Z * holding)) : list (list (comm * Q) * list (comm * Q)) :=
  match posts with
  | [] => []
  | (day, a) :: rest =>
      let seen' := seen ++ [a] in
      (convert_all g prim [a] tgt (midnight day), convert_all g prim seen' tgt (midnight day))
        :: reg_rows g prim tgt seen' rest
  end.

Definition reg_report (l : list item) (tgt : option comm) (posts : list (Z * holding)) :=
  let h := history_of l in reg_rows (build h) (mkCtx (prims h) (default_of l None)) tgt [] posts.

(* `prices --now D` (iterators.cc:139-160, history.cc:322-372): for a commodity c that occurs
   in a posting, every entry not after D of every usable edge at c whose price is not
   expressed in c itself.  The report drops a row when an earlier row of the same commodity
   has the same day and the same price (create_price_xact, iterators.cc:82-88). *)
Definition same_row (x y : Z * price) : bool :=
  (fst x / 86400 =? fst y / 86400) && comm_eqb (pc (snd x)) (pc (snd y))
  && Qeq_bool (pq (snd x)) (pq (snd y)).

Fixpoint dedup_rows (seen l : list (Z * price)) : list (Z * price) :=
  match l with
  | [] => []
  | x :: r => if existsb (same_row x) seen then dedup_rows seen r else x :: dedup_rows (x :: seen) r
  end.

Definition listing_of (g : graph) (c : comm) (D : Z) : list (Z * comm * price) :=
  map (fun wp => (fst wp, c, snd wp))
    (dedup_rows []
      (flat_map (fun e =>
         match other_end e c, pm_recent (em e) D with
         | Some _, Some _ =>
             filter (fun wp => (fst wp <=? D) && negb (comm_eqb (pc (snd wp)) c)) (em e)
         | _, _ => []
         end) g)).

Definition prices_report (l : list item) (posted : list comm) (D : Z) : list (Z * comm * price) :=
  let g := build (history_of l) in
  flat_map (fun c => listing_of g c D) posted.

(* ---- commodity_t::find_price memoisation (commodity.cc:118-187) ----
   Every base commodity owns a memo keyed by (moment, target); commodity_t::add_price and
   remove_price clear the memo of EVERY commodity of the pool (commodity.cc:62-66, 75-78):
   that fact is re-read from the source on every run (Gen/PriceMemo.v, written by
   harness/translators/c10_memo_clear.py); were it to read `false` the memo would survive a
   recorded price here, and the transparency lemmas of Proofs/PricesProofs.v stop checking. *)
Definition memo_key := (Z * comm)%type.
Definition memo := list (comm * memo_key * option price).   (* owner, key, remembered answer *)

Fixpoint memo_find (m : memo) (owner : comm) (k : memo_key) : option (option price) :=
  match m with
  | [] => None
  | (o, (d, t), r) :: m' =>
      if comm_eqb o owner && (d =? fst k) && comm_eqb t (snd k) then Some r
      else memo_find m' owner k
  end.

Record pstate : Type := mkState { st_graph : graph; st_memo : memo }.

Definition st_add (s : pstate) (e : entry) : pstate :=
  mkState (add_entry (st_graph s) e)
          (if add_price_clears_every_memo then [] else st_memo s).

Definition st_find (s : pstate) (src tgt : comm) (D : Z) : option price * pstate :=
  if comm_eqb src tgt then (None, s)
  else match memo_find (st_memo s) src (D, tgt) with
       | Some r => (r, s)
       | None =>
           let r := find_price (st_graph s) src tgt D in
           (r, mkState (st_graph s) ((src, (D, tgt), r) :: st_memo s))
       end.

(* a session: prices being recorded and lookups being made, in any order *)
Inductive op : Type :=
| OAdd (e : entry)
| OFind (src tgt : comm) (D : Z).

Fixpoint run_ops (s : pstate) (ops : list op) : list (option price) * pstate :=
  match ops with
  | [] => ([], s)
  | OAdd e :: r => run_ops (st_add s e) r
  | OFind a b D :: r =>
      let '(x, s') := st_find s a b D in
      let '(xs, s'') := run_ops s' r in (x :: xs, s'')
  end.

(* the same session without a memo *)
Fixpoint plain_ops (g : graph) (ops : list op) : list (option price) :=
  match ops with
  | [] => []
  | OAdd e :: r => plain_ops (add_entry g e) r
  | OFind a b D :: r => find_price g a b D :: plain_ops g r
  end.

(* A journal in which expressions evaluated while it is being read (`check`, `assert`,
   automated transactions, amount expressions) call market(): JLook is such a lookup, made
   after the items before it have been recorded and before the items after it. *)
Inductive jitem : Type :=
| JItem (i : item)
| JLook (src tgt : comm) (D : Z).

Fixpoint load (s : pstate) (l : list jitem) : pstate :=
  match l with
  | [] => s
  | JItem i :: r => load (match entry_of i with Some e => st_add s e | None => s end) r
  | JLook a b D :: r => load (snd (st_find s a b D)) r
  end.

Fixpoint items_of (l : list jitem) : list item :=
  match l with
  | [] => []
  | JItem i :: r => i :: items_of r
  | JLook _ _ _ :: r => items_of r
  end.

(* amount_t::value through the memoising commodity_t::find_price, for -X t *)
Definition convert_memo (s : pstate) (a : holding) (t : comm) (D : Z) : (Q * comm) * pstate :=
  if comm_eqb (hc a) t then ((Qred (hq a), t), s)
  else match st_find s (hc a) t D with
       | (Some p, s') => ((Qred (pq p * hq a), pc p), s')
       | (None, s') => ((Qred (hq a), hc a), s')
       end.

Fixpoint convert_all_memo (s : pstate) (l : list holding) (t : comm) (D : Z) (b : list (comm * Q))
  : list (comm * Q) :=
  match l with
  | [] => nonzero b
  | a :: r => let '(x, s') := convert_memo s a t D in convert_all_memo s' r t D (acc_add b (snd x) (fst x))
  end.

(* `bal -X t --now D` on such a journal: one account's display_total *)
Definition bal_row_memo (l : list jitem) (held : list holding) (t : comm) (D : Z) : list (comm * Q) :=
  convert_all_memo (load (mkState [] []) l) held t D [].
