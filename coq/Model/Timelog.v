(* Executable model of the time-clock state machine: time_log_t::clock_in, clock_out, close and
   clock_out_from_timelog / create_timelog_xact (timelog.cc:43-197, timelog.h:54-106).

   A timestamp is a number of seconds since 1970-01-01 00:00:00 as Z (ledger's datetime_t is a
   zone-less boost ptime); its calendar day is `t / day_secs` (floor), midnight after it is
   `(t / day_secs + 1) * day_secs` (timelog.cc:139-140: datetime_t(date, 23:59:59) + 1 s).
   The fixed-column reading of `i`/`o`/`I`/`O` lines (textual.cc:467-523) is glue: it hands a
   time_xact_t (timestamp, capitalised?, account, description) to clock_in / clock_out; a line that
   ends after the timestamp is a check-in to the account named "" or a check-out with account NULL.
   An account is account_t* in the code: NULL or the unique node of a full name; pointer equality
   is name equality.  The name an event carries is the RESOLVED full name, for check-ins and
   check-outs alike: both directives look the written text up with top_account()->find_account(text),
   i.e. below the master account (--master-account, or for an included file the account current at
   its include line) and the arguments of the enclosing `apply account` blocks, joined by `:`.  That
   both use the same expression is re-read from the source on every run (Gen/ClockAccount.v,
   Proofs clock_lines_resolve_alike); the harness does the joining.  An included file is parsed by an
   instance_t of its own with its own time_log_t: it is a `journal` of its own, closed at its end.
   Notes (`; ...` after the description) are not modelled. *)
From LedgerV Require Import Base.Prelude.
Local Open Scope Z_scope.

Definition acct := option str.           (* None = NULL pointer *)
Definition acct_eqb (a b : acct) : bool := opt_eqb str_eqb a b.

(* time_xact_t (timelog.h:54-87) *)
Record tx : Type := mkTx {
  tx_t    : Z;        (* checkin: the timestamp of the line, for `o` lines too *)
  tx_done : bool;     (* completed: the line began with a capital I / O *)
  tx_acct : acct;
  tx_desc : str       (* text after the account, "" when absent *)
}.

Definition day_secs : Z := 86400.
Definition day_of (t : Z) : Z := t / day_secs.
Definition next_midnight (t : Z) : Z := (day_of t + 1) * day_secs.

(* what create_timelog_xact (timelog.cc:44-76) records: one transaction with one virtual posting *)
Record post : Type := mkPost {
  p_day     : Z;      (* xact date = in_event.checkin.date(), as a day number *)
  p_acct    : acct;   (* in_event.account *)
  p_secs    : Z;      (* (out_event.checkin - in_event.checkin).total_seconds(), commodity `s` *)
  p_payee   : str;    (* in_event.desc *)
  p_code    : str;    (* out_event.desc *)
  p_cleared : bool;   (* out_event.completed ? CLEARED : UNCLEARED *)
  p_in      : Z;      (* post->checkin *)
  p_out     : Z       (* post->checkout *)
}.

Definition create_xact (i o : tx) : post :=
  mkPost (day_of (tx_t i)) (tx_acct i) (tx_t o - tx_t i) (tx_desc i) (tx_desc o) (tx_done o)
         (tx_t i) (tx_t o).

(* the throw sites of timelog.cc *)
Inductive tlerr : Type :=
| TNoCheckin      (* :89 and :194  "Timelog check-out event without a check-in" *)
| TNeedAccount    (* :93  "When multiple check-ins are active, checking out requires an account" *)
| TNoMatch        (* :110 "Timelog check-out event does not match any current check-ins" *)
| TNegative       (* :120 "Timelog check-out date less than corresponding check-in" *)
| TDouble         (* :184 "Cannot double check-in to the same account" *)
| TFuel.          (* the day-break loop ran out of fuel: never (Proofs: day_pieces_fuel) *)

(* the classes of DESIGN section 3.1 *)
Definition tl_class (e : tlerr) : err :=
  match e with
  | TNoCheckin | TNeedAccount | TNoMatch => ETimelogNoIn
  | TNegative => ETimelogNegative
  | TDouble => ETimelogDouble
  | TFuel => EOutOfFuel
  end.

Inductive outcome : Type :=
| Posted (ps : list post)      (* transactions added to the journal by this line *)
| Failed (e : tlerr).          (* parse_error thrown: one error message, nothing added *)

(* time_log_t::clock_in (timelog.cc:179-189) *)
Definition is_open (a : acct) (open : list tx) : bool :=
  existsb (fun e => acct_eqb a (tx_acct e)) open.

Definition clock_in (open : list tx) (ev : tx) : list tx * outcome :=
  if is_open (tx_acct ev) open then (open, Failed TDouble)
  else (open ++ [ev], Posted []).

(* the search loop timelog.cc:98-106: first entry with the account, erased from the list *)
Fixpoint take_first (a : acct) (open : list tx) : option (tx * list tx) :=
  match open with
  | [] => None
  | e :: r =>
      if acct_eqb a (tx_acct e) then Some (e, r)
      else match take_first a r with
           | Some (x, r') => Some (x, e :: r')
           | None => None
           end
  end.

(* timelog.cc:84-111: which check-in a check-out closes, and what stays open *)
Definition select (open : list tx) (o : tx) : (tx * list tx) + tlerr :=
  match open with
  | [e] => inl (e, [])                            (* size() == 1: the account is not looked at *)
  | [] => inr TNoCheckin
  | _ =>
      match tx_acct o with
      | None => inr TNeedAccount
      | Some _ =>
          match take_first (tx_acct o) open with
          | Some r => inl r
          | None => inr TNoMatch
          end
      end
  end.

Definition with_t (e : tx) (t : Z) : tx := mkTx t (tx_done e) (tx_acct e) (tx_desc e).
Definition with_desc (e : tx) (d : str) : tx := mkTx (tx_t e) (tx_done e) (tx_acct e) d.
Definition is_empty (s : str) : bool := match s with [] => true | _ => false end.

(* the --day-break loop timelog.cc:134-157; one unit of fuel per iteration *)
Fixpoint split_loop (fuel : nat) (b o : tx) : option (list post) :=
  match fuel with
  | O => None
  | S f =>
      if tx_t b <? tx_t o then
        let days_end := next_midnight (tx_t b) in
        if tx_t o <=? days_end then Some [create_xact b o]
        else match split_loop f (with_t b days_end) o with
             | Some r => Some (create_xact b (with_t o days_end) :: r)
             | None => None
             end
      else Some []
  end.

Definition split_fuel (b o : tx) : nat := (Z.to_nat ((tx_t o - tx_t b) / day_secs) + 2)%nat.
Definition day_pieces (b o : tx) : option (list post) := split_loop (split_fuel b o) b o.

(* timelog.cc:113-158 once the check-in `e` is chosen (the is_not_a_date_time tests cannot fire:
   both timestamps were parsed) *)
Definition finish (day_break : bool) (e o : tx) : outcome :=
  if tx_t o <? tx_t e then Failed TNegative
  else
    let move := negb (is_empty (tx_desc o)) && is_empty (tx_desc e) in
    let e' := if move then with_desc e (tx_desc o) else e in
    let o' := if move then with_desc o [] else o in
    if day_break then
      match day_pieces e' o' with Some ps => Posted ps | None => Failed TFuel end
    else Posted [create_xact e' o'].

(* clock_out_from_timelog; the chosen check-in leaves the list even when the check-out is then
   rejected for being earlier (erase at :86/:104 precedes the throw at :118) *)
Definition clock_out_from (day_break : bool) (open : list tx) (o : tx) : list tx * outcome :=
  match select open o with
  | inr e => (open, Failed e)
  | inl (e, rest) => (rest, finish day_break e o)
  end.

(* time_log_t::clock_out (timelog.cc:191-197) *)
Definition clock_out (day_break : bool) (open : list tx) (o : tx) : list tx * outcome :=
  match open with
  | [] => (open, Failed TNoCheckin)
  | _ => clock_out_from day_break open o
  end.

Inductive event : Type :=
| CheckIn (e : tx)
| CheckOut (o : tx).

Definition step (day_break : bool) (open : list tx) (ev : event) : list tx * outcome :=
  match ev with
  | CheckIn e => clock_in open e
  | CheckOut o => clock_out day_break open o
  end.

(* instance_t::parse: every line is processed, an error is counted and parsing goes on *)
Fixpoint run (day_break : bool) (open : list tx) (evs : list event) : list tx * list outcome :=
  match evs with
  | [] => (open, [])
  | ev :: r =>
      let '(open1, oc) := step day_break open ev in
      let '(open2, ocs) := run day_break open1 r in
      (open2, oc :: ocs)
  end.

(* time_log_t::close (timelog.cc:162-177): at the end of the file each account still open is
   checked out at CURRENT_TIME (--now); the first failure is thrown out of the parser *)
Fixpoint close_loop (day_break : bool) (now : Z) (accts : list acct) (open : list tx)
  : list post + tlerr :=
  match accts with
  | [] => inl []
  | a :: r =>
      match clock_out_from day_break open (mkTx now false a []) with
      | (_, Failed e) => inr e
      | (open', Posted ps) =>
          match close_loop day_break now r open' with
          | inl rest => inl (ps ++ rest)
          | inr e => inr e
          end
      end
  end.

Definition close (day_break : bool) (now : Z) (open : list tx) : list post + tlerr :=
  close_loop day_break now (map tx_acct open) open.

Fixpoint posted (ocs : list outcome) : list post :=
  match ocs with
  | [] => []
  | Posted ps :: r => ps ++ posted r
  | Failed _ :: r => posted r
  end.

Fixpoint failures (n : Z) (ocs : list outcome) : list (Z * tlerr) :=
  match ocs with
  | [] => []
  | Posted _ :: r => failures (n + 1) r
  | Failed e :: r => (n, e) :: failures (n + 1) r
  end.

(* a whole time-clock file: either the postings of the report, in journal order, or the
   failing event indices (from 0) with their classes and the failure of close, if any *)
Inductive report : Type :=
| Report (ps : list post)
| Errors (lines : list (Z * tlerr)) (at_close : option tlerr).

Definition journal (day_break : bool) (now : Z) (evs : list event) : report :=
  let '(open, ocs) := run day_break [] evs in
  let errs := failures 0 ocs in
  match close day_break now open with
  | inl ps =>
      match errs with
      | [] => Report (posted ocs ++ ps)
      | _ => Errors errs None
      end
  | inr e => Errors errs (Some e)
  end.

(* time reported for an account: the sum of its postings *)
Fixpoint total_for (a : acct) (ps : list post) : Z :=
  match ps with
  | [] => 0
  | p :: r => (if acct_eqb a (p_acct p) then p_secs p else 0) + total_for a r
  end.

(* ------------------------------------------------------------------ the postings an account holds *)
(* account_t::posts, the list behind `stats` ("Number of postings"), `%(count)` / `%(subcount)` of bal and
   `%(account.count)` of reg.  account_t::add_post appends unconditionally (account.cc:128-130).  A
   time-clock posting is appended by create_timelog_xact itself (timelog.cc:70,
   `in_event.account->add_post(post)`) and once more by xact_base_t::finalize (xact.cc:429), which
   journal_t::add_xact runs on the transaction create_timelog_xact hands it (timelog.cc:72).  How many
   calls each of the two makes is re-read from the source on every run (Gen/TimelogPosts.v).  The
   amounts are not counted twice: account_t::amount marks a posting POST_EXT_CONSIDERED the first time
   it meets it (account.cc:627-634); details_t::update has no such mark (account.cc:712-715). *)
From LedgerV Require Import Gen.TimelogPosts.

Fixpoint posts_for (a : acct) (ps : list post) : Z :=
  match ps with
  | [] => 0
  | p :: r => (if acct_eqb a (p_acct p) then 1 else 0) + posts_for a r
  end.

Definition account_adds : Z := src_timelog_account_adds + src_finalize_account_adds.

(* self_details().posts_count of the account after the file is read *)
Definition held_posts (a : acct) (ps : list post) : Z := account_adds * posts_for a ps.

(* the same from the number of postings alone (what the driver is asked) *)
Definition held_of_rows (n : Z) : Z := account_adds * n.

(* ------------------------------------------------------------------ reported time: display scaling *)
(* amount_t::in_place_unreduce (amount.cc:727-757), applied by report_t::display_value to every
   amount and total a report shows unless --base is given.  A time-clock posting is in seconds (`s`);
   `chain` lists the ever larger units above the amount's own, each with the factor
   comm->larger()->number() that leads to it from the unit before: built in are m = 60 s and h = 60 m
   (session.cc:49-50), a journal extends the chain with `C 1.00d = 24h` and the like
   (amount_t::parse_conversion).  The walk divides by the factor of the NEXT unit of the chain - the
   cursor's, which Gen/UnreduceWalk.v re-reads from the source - and stops before the first unit in
   which the quantity would be below 1 in absolute value.  The result is exact (amount division is
   rational division); only the printing rounds it, to the display precision of the unit reached
   (Base/Round.v print_scaled).  commodity_t::time_colon_by_default is off and not modelled. *)
Definition at_least_one (q : Q) : bool := Qle_bool 1 q || Qle_bool q (-1).

Fixpoint unreduce_walk (chain : list (str * Q)) (lab : str) (q : Q) : str * Q :=
  match chain with
  | [] => (lab, q)
  | (l, f) :: r =>
      let nq := Qred (q / f) in
      if at_least_one nq then unreduce_walk r l nq else (lab, q)
  end.
