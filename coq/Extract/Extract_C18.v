Require Extraction.
Require Import ExtrOcamlBasic.
From LedgerV Require Import Base.Prelude Base.ExtractHelpers Gen.CsvFormat Model.Escape.
Extraction "model_C18.ml" h_add h_mul h_div h_mod h_opp h_ltb h_eqb h_qred h_qmake h_qnum h_qden
  src_csv_format csv_out emacs_out xml_transactions xml_accounts xml_commodities
  emacs_escape csv_quoted csv_quoted_rfc join_lines xml_encode xml_walk_name
  lisp_read csv_read_rfc csv_read_bs xml_decode xml_tags well_nested.
