Require Extraction.
Require Import ExtrOcamlBasic.
From LedgerV Require Import Base.Prelude Base.Round Base.ExtractHelpers Model.Amount Model.Totals Model.Deferred.
Extraction "model_C05.ml" h_add h_mul h_div h_mod h_opp h_ltb h_eqb h_qred h_qmake h_qnum h_qden
  reg_rows row_shown display_value bal_rows grand_total collapsed collapsed_rows mark own_of own_lazy_twice simplified_or_zero
  max_depth total_of bal_layout read_tree layout_ok
  account_view acct_final jp_post.
