Require Extraction.
Require Import ExtrOcamlBasic.
From LedgerV Require Import Base.Prelude Base.Round Base.ExtractHelpers Model.Amount Model.AmountText Model.Xact Model.Assert Model.Print.
Extraction "model_C06.ml" h_add h_mul h_div h_mod h_opp h_ltb h_eqb h_qred h_qmake h_qnum h_qden
  run_journal cost_per_unit cost_total finalize learn_posts cp_of
  attach decide reread read_back read_back_value equity_account equity_account_reread xact_printed account_width sep_blanks posting_blanks run_journal_l run_journal_a.
