Require Extraction.
Require Import ExtrOcamlBasic.
From LedgerV Require Import Base.Prelude Base.Round Base.ExtractHelpers Model.Amount Model.Xact Model.PostLine.
Extraction "model_C01.ml" h_add h_mul h_div h_mod h_opp h_ltb h_eqb h_qred h_qmake h_qnum h_qden
  run_journal cost_per_unit cost_total finalize split_post_line has_amount_text read_post_line.
