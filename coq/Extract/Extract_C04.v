Require Extraction.
Require Import ExtrOcamlBasic.
From LedgerV Require Import Base.Prelude Base.Round Base.ExtractHelpers Model.Amount Model.AmountText Model.DecimalComma.
Extraction "model_C04.ml" h_add h_mul h_div h_mod h_opp h_ltb h_eqb h_qred h_qmake h_qnum h_qden
  split_amount parse_amount_text learn learn_f fix_format amount_text amount_text_col value_column_text amt_div amt_mul amt_neg roundto_scaled print_scaled
  reader_dc session_style amount_text_session value_column_text_session parse_amount_text_session.
