Require Extraction.
Require Import ExtrOcamlBasic.
From LedgerV Require Import Base.Prelude Base.Round Base.ExtractHelpers Model.Amount Model.Xact Model.Journal Model.Subtotal Model.Glob Model.Aliases Model.Layout.
Extraction "model_C08.ml" h_add h_mul h_div h_mod h_opp h_ltb h_eqb h_qred h_qmake h_qnum h_qden
  run_journal cost_per_unit cost_total flatten journal_balances final_pool pool_get accepted_posts date_range group_range include_matches read_journal closed.
