Require Extraction.
Require Import ExtrOcamlBasic.
From LedgerV Require Import Base.Prelude Base.Round Base.ExtractHelpers Model.Amount Model.Xact Model.PostLine Model.XactBase.
Extraction "model_C02.ml" h_add h_mul h_div h_mod h_opp h_ltb h_eqb h_qred h_qmake h_qnum h_qden
  cost_per_unit cost_total run_periodic two_null_error finalize.
