Require Extraction.
Require Import ExtrOcamlBasic.
From LedgerV Require Import Base.Prelude Base.Round Base.ExtractHelpers Model.Amount.
Extraction "model_C03.ml" h_add h_mul h_div h_mod h_opp h_ltb h_eqb h_qred h_qmake h_qnum h_qden
  aeval is_zero print_scaled top_amount.
