Require Extraction.
Require Import ExtrOcamlBasic.
From LedgerV Require Import Base.Prelude Base.ExtractHelpers Gen.StatusOfCount Gen.CheckingStyle Gen.NameChecks Gen.LineReader Model.Errors Model.ErrorsReader.
Extraction "model_C12.ml" h_add h_mul h_div h_mod h_opp h_ltb h_eqb h_qred h_qmake h_qnum h_qden
  session parse_file items item_fault item_ok file_clean expected status_of_count
  run_session resolve_files checking_style unknown_name_reaction position_checked
  resolve run_xsession expand_files src_rd.
