Require Extraction.
Require Import ExtrOcamlBasic.
From LedgerV Require Import Base.Prelude Base.Round Base.ExtractHelpers Model.Amount Model.Xact Model.Assert.
Extraction "model_C09.ml" h_add h_mul h_div h_mod h_opp h_ltb h_eqb h_qred h_qmake h_qnum h_qden
  run_journal_a run_journal_x run_journal_d under auto_ext cost_per_unit cost_total.
