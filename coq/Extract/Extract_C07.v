Require Extraction.
Require Import ExtrOcamlBasic.
From LedgerV Require Import Base.Prelude Base.ExtractHelpers Model.Filter Model.Query.
Extraction "model_C07.ml" h_add h_mul h_div h_mod h_opp h_ltb h_eqb h_qred h_qmake h_qnum h_qden
  parse print_expr report_posts report_with begin_pred end_pred pred eval.
