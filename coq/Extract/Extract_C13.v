Require Extraction.
Require Import ExtrOcamlBasic.
From LedgerV Require Import Base.Prelude Base.ExtractHelpers Model.PeriodCalendar Gen.PeriodSources Gen.PeriodWords Model.Period Model.PeriodExpr.
Extraction "model_C13.ml" h_add h_mul h_div h_mod h_opp h_ltb h_eqb h_qred h_qmake h_qnum h_qden
  init dump flush_posts group_by_report bound_of_text qsum spec_intervals civil_from_days days_from_civil weekday add_dur
  parse_text tokens_of_text week_start_of_text.
