Require Extraction.
Require Import ExtrOcamlBasic.
From LedgerV Require Import Base.Prelude Base.ExtractHelpers Model.PeriodCalendar Model.Period.
Extraction "model_C13.ml" h_add h_mul h_div h_mod h_opp h_ltb h_eqb h_qred h_qmake h_qnum h_qden
  init dump flush_posts qsum spec_intervals civil_from_days days_from_civil weekday add_dur.
