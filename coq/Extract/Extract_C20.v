Require Extraction.
Require Import ExtrOcamlBasic.
From LedgerV Require Import Base.Prelude Base.Round Base.ExtractHelpers Model.Timelog.
Extraction "model_C20.ml" h_add h_mul h_div h_mod h_opp h_ltb h_eqb h_qred h_qmake h_qnum h_qden
  journal run close total_for tl_class unreduce_walk print_scaled held_of_rows.
