Require Extraction.
Require Import ExtrOcamlBasic.
From LedgerV Require Import Base.Prelude Base.Round Base.ExtractHelpers Model.Amount Model.Buffers Model.Nesting
  Model.Stepping Model.FormatRef Model.Aliases Model.UnknownPayee Model.Width Gen.BufferSites Gen.SafetyGuards.
Extraction "model_C11.ml" h_add h_mul h_div h_mod h_opp h_ltb h_eqb h_qred h_qmake h_qnum h_qden
  aeval extent write_ok outcome_of site_table read_into getline_store parse_depth nest
  period_start parse_guarded within_limit query_accept field_ref number_from src_format_field_ref_guard expand src_alias_records_what_it_looks_up register_unknown src_unknown_payee_tests_post_and_xact ustr_width is_cut src_unistring_width_clamps_negative src_parse_depth_limit src_expr_token_limit src_query_depth_limit
  src_query_term_limit src_roundto_places_limit src_period_zero_guard src_max_line src_line_getline.
