Require Extraction.
Require Import ExtrOcamlBasic.
From LedgerV Require Import Base.Prelude Base.Round Base.ExtractHelpers Model.Amount Model.Regroup.
Extraction "model_C17.ml" h_add h_mul h_div h_mod h_opp h_ltb h_eqb h_qred h_qmake h_qnum h_qden
  report report_determined.
