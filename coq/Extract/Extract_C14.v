Require Extraction.
Require Import ExtrOcamlBasic.
From LedgerV Require Import Base.Prelude Base.ExtractHelpers Base.Calendar Model.Dates.
Extraction "model_C14.ml" h_add h_mul h_div h_mod h_opp h_ltb h_eqb h_qred h_qmake h_qnum h_qden
  parse_date boost_from_day_number boost_day_number format_date format_written date_ltb date_eqb
  days_from_civil weekday run_events.
