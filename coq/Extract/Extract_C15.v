Require Extraction.
Require Import ExtrOcamlBasic.
From LedgerV Require Import Base.Prelude Base.Round Base.ExtractHelpers Model.Amount Model.Expr Model.ExprLex.
Extraction "model_C15.ml" h_add h_mul h_div h_mod h_opp h_ltb h_eqb h_qred h_qmake h_qnum h_qden
  parse parse_fuel print relit_tok run amt_digits fixed_text parse_text text_tokens lex.
