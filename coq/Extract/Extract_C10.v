Require Extraction.
Require Import ExtrOcamlBasic.
From LedgerV Require Import Base.Prelude Base.ExtractHelpers Model.Prices.
Extraction "model_C10.ml" h_add h_mul h_div h_mod h_opp h_ltb h_eqb h_qred h_qmake h_qnum h_qden
  bal_row percent_row percent_den reg_report prices_report bal_row_memo midnight bal_row_via bal_row_via_tie find_price_via via_tie build history_of.
