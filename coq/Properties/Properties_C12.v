(* C12 - errors are located, counted and never yield a partial report.
   Property theorems only; proofs are in Proofs/ErrorsProofs.v.
   `parse_file file chain ls` is the model of instance_t::parse on the lines `ls` of `file`
   reached through the include chain `chain`; `session fs` reads all the -f files `fs` in order,
   and yields the messages on stderr, the error count, the exit status the parent process sees
   and whether the report command ran.  `items ls` cuts a file in front of every unindented
   non-blank line; `item_ok g` says that nothing in item `g` is rejected; `file_clean ls` that
   every item of the file and of the files it includes is valid.  `status_of_count` is
   regenerated from src/main.cc on every run (Gen/StatusOfCount.v). *)
From LedgerV Require Import Base.Prelude Gen.StatusOfCount Gen.CheckingStyle Gen.NameChecks Gen.LineReader Model.Errors Model.ErrorsReader
     Proofs.ErrorsProofs Proofs.ErrorsReaderProofs.
Local Open Scope Z_scope.

(* ---- one located message per invalid item ------------------------------------------------- *)
(* stderr of a file is the concatenation, in file order, of what each item contributes when it
   is looked at alone, knowing only the line it starts at (`expected` numbers the items): no
   item influences what another item reports - an invalid item does not hide a later one,
   whatever was swallowed by error_flag, and a valid one never produces a message. *)
Theorem one_message_per_invalid_item : forall file chain ls,
  s_msgs (parse_file file chain ls) = expected file chain 1 (items ls).
Proof. exact parse_file_msgs. Qed.
Print Assumptions one_message_per_invalid_item.

(* ... where an item contributes: for an include, everything the included file writes (this
   theorem applies to it again, with the include's location added to the chain); then nothing of
   its own when it is valid, and exactly one message when it is invalid, naming the item's file,
   its include chain, and a line inside the item (a rejected transaction's `lines A-B` starts at
   the item's first line and ends at the reported line). *)
Theorem item_contribution : forall ls g, In g (items ls) -> forall file chain start,
  item_msgs file chain start g = inc_msgs file chain start g ++ own_msgs file chain start g /\
  (item_ok g = true -> own_msgs file chain start g = []) /\
  (item_ok g = false ->
   exists m, own_msgs file chain start g = [m] /\
             m_file m = file /\ m_chain m = chain /\
             start <= m_line m < start + Z.of_nat (length g) /\
             (forall a b, m_range m = Some (a, b) -> a = start /\ b = m_line m)).
Proof.
  intros ls g Hg file chain start. split; [reflexivity|].
  apply own_msgs_spec. exact (items_in_shape ls g Hg).
Qed.
Print Assumptions item_contribution.

(* the items are the file: nothing is dropped or reordered by the cut *)
Theorem items_partition : forall ls, concat (items ls) = ls.
Proof. intros ls. exact (proj1 (items_spec ls)). Qed.
Print Assumptions items_partition.

(* the error counter equals the number of messages written, included files' counts added to
   the parent's *)
Theorem error_count_is_message_count : forall file chain ls,
  s_errs (parse_file file chain ls) = Z.of_nat (length (s_msgs (parse_file file chain ls))).
Proof. exact parse_file_errs. Qed.
Print Assumptions error_count_is_message_count.

Theorem session_error_count_is_message_count : forall fs,
  r_errors (session fs) = Z.of_nat (length (r_msgs (session fs))).
Proof. exact session_errors_count. Qed.
Print Assumptions session_error_count_is_message_count.

(* a file writes nothing exactly when all its items, and those of its includes, are valid *)
Theorem file_silent_iff_clean : forall ls file chain,
  s_msgs (parse_file file chain ls) = [] <-> file_clean ls = true.
Proof. exact silent_iff_clean_all. Qed.
Print Assumptions file_silent_iff_clean.

(* with one journal file on the command line every invalid item is reported *)
Theorem single_file_session_reports_every_item : forall name ls,
  r_msgs (session [(name, ls)]) = expected name [] 1 (items ls).
Proof. exact session_single. Qed.
Print Assumptions single_file_session_reports_every_item.

(* ---- no partial report -------------------------------------------------------------------- *)
Theorem no_partial_report : forall fs,
  r_errors (session fs) > 0 -> r_report (session fs) = false.
Proof. exact session_no_partial_report. Qed.
Print Assumptions no_partial_report.

Theorem report_iff_no_errors : forall fs,
  r_report (session fs) = true <-> r_errors (session fs) = 0.
Proof. exact session_report_iff. Qed.
Print Assumptions report_iff_no_errors.

(* ---- valid input is silent and succeeds --------------------------------------------------- *)
Theorem valid_input_clean : forall fs,
  (forall f, In f fs -> file_clean (snd f) = true) ->
  session fs = mk_result [] 0 0 true.
Proof. exact session_clean. Qed.
Print Assumptions valid_input_clean.

(* ---- any invalid item: non-zero status, no report ----------------------------------------- *)
Theorem invalid_input_rejected : forall fs,
  (exists f, In f fs /\ file_clean (snd f) = false) ->
  r_status (session fs) <> 0 /\ r_report (session fs) = false /\ r_errors (session fs) > 0.
Proof.
  intros fs H. pose proof (session_unclean fs H) as E.
  split; [apply session_status_iff; exact E|].
  split; [apply session_no_partial_report; exact E|exact E].
Qed.
Print Assumptions invalid_input_rejected.

(* ---- exit status -------------------------------------------------------------------------- *)
(* the mapping of main.cc as regenerated from the source: no positive count reads as success
   after the operating system keeps the low 8 bits *)
Theorem status_of_count_never_wraps : forall n, n > 0 -> status_of_count n mod 256 <> 0.
Proof. exact status_of_count_nonzero. Qed.
Print Assumptions status_of_count_never_wraps.

Theorem status_nonzero_iff_errors : forall fs,
  r_status (session fs) <> 0 <-> r_errors (session fs) > 0.
Proof. exact session_status_iff. Qed.
Print Assumptions status_nonzero_iff_errors.

(* ---- several -f files -------------------------------------------------------------------------
   session_t::read_data catches error_count per file, adds the counts up and goes on: every
   invalid item of every -f file gets its message, in command-line order, and the count is the
   sum over the files.  (Before fix b67234d reading stopped at the first file that had errors:
   with -f a.dat -f b.dat and one unbalanced transaction in each, no message named b.dat.) *)
Theorem every_file_reports_every_item : forall fs,
  r_msgs (session fs) = flat_map (fun f => expected (fst f) [] 1 (items (snd f))) fs.
Proof. exact session_msgs. Qed.
Print Assumptions every_file_reports_every_item.

Theorem session_error_count_is_sum_over_files : forall fs,
  r_errors (session fs) =
  fold_right Z.add 0 (map (fun f => s_errs (parse_file (fst f) [] (snd f))) fs).
Proof. exact session_errors_sum. Qed.
Print Assumptions session_error_count_is_sum_over_files.

(* ---- checking options -------------------------------------------------------------------------
   `checking_style o` follows the else-if chain of session_t::read_data as regenerated from
   src/session.cc on every run (Gen/CheckingStyle.v).  --pedantic makes every undeclared account,
   commodity and tag (payee with --check-payees) an error whatever else is set, except
   --permissive; --strict alone makes them warnings; otherwise they are accepted silently. *)
Theorem pedantic_wins_over_strict : forall o,
  o_pedantic o = true -> o_permissive o = false -> checking_style o = SError.
Proof. exact pedantic_style. Qed.
Print Assumptions pedantic_wins_over_strict.

Theorem pedantic_unknown_names_are_errors : forall o nk k,
  o_pedantic o = true -> o_permissive o = false ->
  (nk = NPayee -> o_check_payees o = true) ->
  unknown_name_reaction o nk = RError /\ resolve_ann o (AUnknown nk k) = Some k.
Proof. exact pedantic_unknown_is_error. Qed.
Print Assumptions pedantic_unknown_names_are_errors.

(* ... and they are counted: a transaction whose posting uses an undeclared name is one error,
   exit status 1, no report - with or without --strict / --check-payees on top *)
Theorem pedantic_unknown_name_is_counted : forall o nk k name,
  o_pedantic o = true -> o_permissive o = false ->
  (nk = NPayee -> o_check_payees o = true) ->
  run_session o [(name, [RLItem [] true []; RLSub [AUnknown nk k]; RLSub []])] =
  mk_result [mk_msg [] name 2 k None] 1 1 false.
Proof.
  intros o nk k name Hp Hq Hc. unfold run_session, resolve_files.
  cbn [map fst snd resolve first_throw].
  rewrite (proj2 (pedantic_unknown_is_error o nk k Hp Hq Hc)). reflexivity.
Qed.
Print Assumptions pedantic_unknown_name_is_counted.

(* whatever else is set next to --pedantic (--strict, from the command line, an init file or the
   environment) the whole session reads the same: same messages, count, status, no report *)
Theorem pedantic_session_independent_of_other_options : forall o o' files,
  o_pedantic o = true -> o_permissive o = false ->
  o_pedantic o' = true -> o_permissive o' = false ->
  o_check_payees o = o_check_payees o' ->
  run_session o files = run_session o' files.
Proof. exact pedantic_session_same. Qed.
Print Assumptions pedantic_session_independent_of_other_options.

Theorem strict_alone_unknown_names_are_warnings : forall o nk k,
  o_strict o = true -> o_pedantic o = false -> o_permissive o = false ->
  (nk = NPayee -> o_check_payees o = true) ->
  unknown_name_reaction o nk = RWarning /\ resolve_ann o (AUnknown nk k) = None.
Proof. exact strict_alone_unknown_is_warning. Qed.
Print Assumptions strict_alone_unknown_names_are_warnings.

Theorem unknown_names_quiet_otherwise : forall o nk k,
  (o_permissive o = true \/ (o_strict o = false /\ o_pedantic o = false) \/
   (nk = NPayee /\ o_check_payees o = false)) ->
  unknown_name_reaction o nk = RQuiet /\ resolve_ann o (AUnknown nk k) = None.
Proof. exact quiet_unknown. Qed.
Print Assumptions unknown_names_quiet_otherwise.

(* a commodity that stands as a posting's cost, as a lot price or after `=`: where parse_post hands
   it to register_commodity (Gen/NameChecks.v, regenerated from src/textual.cc) an undeclared one
   is treated exactly like an undeclared commodity of the amount - an error under --pedantic -;
   where it does not, it is accepted whatever the options (findings F130 / F131 while that lasts) *)
Theorem commodity_in_checked_position_is_checked : forall o p k,
  position_checked p = true ->
  resolve_ann o (AUnknownAt p k) = resolve_ann o (AUnknown NCommodity k) /\
  (o_pedantic o = true -> o_permissive o = false -> resolve_ann o (AUnknownAt p k) = Some k).
Proof.
  intros o p k H. split; [apply checked_position_like_amount; exact H|].
  intros Hp Hq. rewrite (checked_position_like_amount o p k H).
  apply (pedantic_unknown_is_error o NCommodity k Hp Hq). discriminate.
Qed.
Print Assumptions commodity_in_checked_position_is_checked.

Theorem commodity_in_unchecked_position_is_accepted : forall o p k,
  position_checked p = false -> resolve_ann o (AUnknownAt p k) = None.
Proof. exact unchecked_position_accepted. Qed.
Print Assumptions commodity_in_unchecked_position_is_accepted.

(* a balance assertion that is off is an error unless --permissive *)
Theorem balance_assertion_error_unless_permissive : forall o k,
  (o_permissive o = false -> resolve_ann o (ABalAssert k) = Some k) /\
  (o_permissive o = true -> resolve_ann o (ABalAssert k) = None).
Proof.
  intros o k. split; [apply balance_assertion_checked|apply permissive_accepts_balance_assertion].
Qed.
Print Assumptions balance_assertion_error_unless_permissive.

(* ---- the hypotheses are satisfiable; the model computes ------------------------------------ *)
(* a valid transaction, an unbalanced one (lines 5-7), one whose 2nd posting is malformed (class
   3, line 10; its 3rd line is swallowed), an include at line 13 whose file has a bad date at
   its line 1 *)
Example sample_file : list line :=
  [LItem None true None; LSub None; LSub None; LEmpty;
   LItem None true (Some 1); LSub None; LSub None; LEmpty;
   LItem None true None; LSub (Some 3); LSub (Some 5); LEmpty;
   LInclude 2 [LItem (Some 2) true None; LSub None; LSub None]].

Example sample_session :
  session [(1, sample_file)] =
  mk_result [mk_msg [] 1 7 1 (Some (5, 7)); mk_msg [] 1 10 3 None; mk_msg [(1, 13)] 2 1 2 None]
            3 3 false.
Proof. vm_compute. reflexivity. Qed.

(* two -f files with one unbalanced transaction each: both are reported, the count is 2 *)
Example sample_two_files :
  session [(1, [LItem None true (Some 1); LSub None; LSub None]);
           (2, [LItem None true (Some 1); LSub None; LSub None])] =
  mk_result [mk_msg [] 1 3 1 (Some (1, 3)); mk_msg [] 2 3 1 (Some (1, 3))] 2 2 false.
Proof. vm_compute. reflexivity. Qed.

Example sample_clean :
  file_clean [LItem None true None; LSub None; LSub None; LWs; LItem None false None;
              LInclude 2 [LEmpty; LItem None true None; LSub None]] = true.
Proof. vm_compute. reflexivity. Qed.

Example sample_unclean : file_clean sample_file = false.
Proof. vm_compute. reflexivity. Qed.

(* --strict from an init file, --pedantic on the command line: still an error *)
Example sample_strict_and_pedantic :
  run_session (mk_opts true true false false)
              [(1, [RLItem [] true []; RLSub [AUnknown NAccount 5]; RLSub []])] =
  mk_result [mk_msg [] 1 2 5 None] 1 1 false.
Proof. vm_compute. reflexivity. Qed.

Example sample_strict_alone :
  run_session (mk_opts true false false false)
              [(1, [RLItem [] true []; RLSub [AUnknown NAccount 5]; RLSub []])] =
  mk_result [] 0 0 true.
Proof. vm_compute. reflexivity. Qed.

Example status_256 : status_of_count 256 mod 256 = 255.
Proof. vm_compute. reflexivity. Qed.

(* ---- lines that are no item: comment blocks, byte-order mark, over-long lines ---------------
   Model/ErrorsReader.v reads a file whose elements are the lines above, `comment` / `test` blocks
   with the physical lines they swallow (empty / blanks only / text), over-long lines, and
   includes of such files, possibly starting with a byte-order mark.  `src_rd` are the facts
   regenerated from read_line / comment_directive / parse (Gen/LineReader.v). *)

(* a comment block moves the line counter by the number of its physical lines - its head, every
   line of its body whether empty, blank or text, and its end marker - and changes nothing else:
   whatever follows is read as if the block were that many lines of nothing.  Needs
   comment_body_reader = BRReadLine and read_line_count_rule = CountGcount. *)
Theorem comment_block_counts_every_line : forall file chain body closed rest s,
  s_mode s = MTop ->
  xrun src_rd file chain false (XComment body closed :: rest) s =
  xrun src_rd file chain false rest
       (mk_st false MTop (s_line s + 1 + Z.of_nat (consumed body closed)) (s_errs s) (s_msgs s)).
Proof. exact (ErrorsReaderProofs.comment_block_counts_every_line src_rd). Qed.
Print Assumptions comment_block_counts_every_line.

(* hence every theorem above speaks about files with comment blocks too: such a file writes
   exactly what its expansion (block = a valid one-line item followed by empty lines, same number
   of physical lines) writes, one located message per invalid item, each at its own line *)
Theorem reader_is_item_reader : forall file chain bom xs,
  all_long_fine src_rd xs = true ->
  xparse_file src_rd file chain bom xs = parse_file file chain (expand src_rd bom xs).
Proof. exact (xparse_file_expand src_rd). Qed.
Print Assumptions reader_is_item_reader.

Theorem one_message_per_invalid_item_with_comment_blocks : forall file chain bom xs,
  all_long_fine src_rd xs = true ->
  s_msgs (xparse_file src_rd file chain bom xs) = expected file chain 1 (items (expand src_rd bom xs)).
Proof. intros file chain bom xs H. rewrite (xparse_file_expand src_rd file chain bom xs H). apply parse_file_msgs. Qed.
Print Assumptions one_message_per_invalid_item_with_comment_blocks.

Theorem session_with_comment_blocks : forall files,
  files_long_fine src_rd files = true ->
  run_xsession files = session (expand_files src_rd files).
Proof. exact (xsession_expand src_rd). Qed.
Print Assumptions session_with_comment_blocks.

(* byte-order mark: transparent when the test is made against the line number the first line has
   (1); with the test the source has now (0, after the increment: never true) a valid transaction
   on the first line is dropped and its posting reported - finding F1201 *)
Theorem bom_transparent_when_stripped : bom_test_linenum = 1 -> forall file chain xs,
  xparse_file src_rd file chain true xs = xparse_file src_rd file chain false xs.
Proof. intros H file chain xs. apply bom_stripped_transparent. exact H. Qed.
Print Assumptions bom_transparent_when_stripped.

Theorem bom_valid_first_line_refuted : bom_test_linenum <> 1 ->
  exists xs, s_msgs (xparse_file src_rd 1 [] false xs) = [] /\
             s_msgs (xparse_file src_rd 1 [] true xs) = [mk_msg [] 1 2 k_stray None].
Proof. intros H. exists bom_witness. exact (proj2 (bom_not_stripped_refuted src_rd H)). Qed.
Print Assumptions bom_valid_first_line_refuted.

(* over-long line: as the source stands the message names the line before it and the file's
   loop ends, so the unbalanced transaction after it is never reported - finding F1202; with the
   throw after the increment and the rest of the line skipped both are located *)
Theorem long_line_hides_later_items_refuted : long_line_counted = false -> long_line_recovers = false ->
  s_msgs (xparse_file src_rd 1 [] false long_witness) = [mk_msg [] 1 1 k_long None].
Proof. exact (long_line_refuted src_rd). Qed.
Print Assumptions long_line_hides_later_items_refuted.

Theorem long_line_located_when_counted : long_line_counted = true -> long_line_recovers = true ->
  s_msgs (xparse_file src_rd 1 [] false long_witness) =
  [mk_msg [] 1 2 k_long None; mk_msg [] 1 5 1 (Some (3, 5))].
Proof. exact (long_line_fixed src_rd). Qed.
Print Assumptions long_line_located_when_counted.

Example sample_comment_block :
  s_msgs (xparse_file src_rd 1 [] false
            [XComment [CText; CEmpty; CEmpty; CWs] true; XPlain LEmpty;
             XPlain (LItem None true (Some 1)); XPlain (LSub None)]) = [mk_msg [] 1 9 1 (Some (8, 9))].
Proof. reflexivity. Qed.
