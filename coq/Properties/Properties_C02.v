(* C02 - an elided amount is inferred as the exact negation of the rest.
   Property theorems only; proofs in Proofs/XactProofs.v.  See Properties_C01.v for the names. *)
From LedgerV Require Import Base.Prelude Base.Round Model.Amount Model.Xact
  Proofs.AmountProofs Proofs.XactProofs Proofs.GainLossProofs Gen.SourceGuards Model.PostLine Proofs.PostLineProofs
  Gen.NullFill Model.XactBase Proofs.OrderProofs Proofs.XactBaseProofs.
From Coq Require Import Permutation Sorting.Sorted.
Local Open Scope Q_scope.

(* a transaction with exactly one elided amount (index i found by the scan) is completed by
   fill_null with the entries of the balance, whatever the pool and the hash order *)
Theorem null_posting_is_filled : forall ord cp ps bal i amts,
  wf_costs ps ->
  scan_posts ord ps 0 VVoid None = Ok (bal, Some i) ->
  fill_amounts bal = Ok amts ->
  finalize ord cp None ps = completed ps i amts.
Proof. exact null_fill. Qed.
Print Assumptions null_posting_is_filled.

(* the amounts it receives are, per commodity, exactly minus the sum of the other balancing
   postings (cost where a cost was given) *)
Theorem inferred_amounts_negate_the_rest : forall ord ps bal i amts c,
  scan_posts ord ps 0 VVoid None = Ok (bal, Some i) ->
  fill_amounts bal = Ok amts ->
  fold_right (fun a acc => at_comm (amt_neg a) c + acc) 0 amts == - bsum ps c.
Proof. exact null_fill_amounts_are_the_sums. Qed.
Print Assumptions inferred_amounts_negate_the_rest.

(* the elided posting itself gets the first amount, flagged calculated *)
Theorem elided_posting_gets_first_amount : forall ps i a rest d,
  (i < length ps)%nat ->
  p_amt (nth i (fill_null ps i (a :: rest)) d) = Some (amt_neg a) /\
  p_calculated (nth i (fill_null ps i (a :: rest)) d) = true.
Proof. exact fill_null_first. Qed.
Print Assumptions elided_posting_gets_first_amount.

(* one generated posting per further commodity, on the same account *)
Theorem further_commodities_get_generated_postings : forall ps i a rest k d,
  (k < length rest)%nat ->
  let q := nth (length ps + k) (fill_null ps i (a :: rest)) d in
  p_amt q = Some (amt_neg (nth k rest a)) /\ p_generated q = true /\ p_calculated q = true /\
  p_acct q = p_acct (nth i ps (mkPost [] PReal None None None false false false)).
Proof. exact fill_null_generated. Qed.
Print Assumptions further_commodities_get_generated_postings.

(* every other written posting is untouched *)
Theorem other_postings_unchanged : forall ps i amts j d,
  j <> i -> (j < length ps)%nat -> nth j (fill_null ps i amts) d = nth j ps d.
Proof. exact fill_null_others_unchanged. Qed.
Print Assumptions other_postings_unchanged.

(* two or more elided amounts are an error, whatever else the transaction contains *)
Theorem two_elided_amounts_rejected : forall ord cp bucket ps,
  (2 <= count_nulls ps)%nat -> finalize ord cp bucket ps = Err ETwoNulls.
Proof. exact two_nulls_rejected. Qed.
Print Assumptions two_elided_amounts_rejected.

(* a single posting is balanced against the bucket account when one is set *)
Theorem single_posting_uses_bucket : forall ord cp b p bal amts,
  wf_costs [p] ->
  scan_posts ord [p] 0 VVoid None = Ok (bal, None) -> bal <> VVoid ->
  fill_amounts bal = Ok amts ->
  finalize ord cp (Some b) [p] =
  completed ([p] ++ [mkPost b PReal None None None false false false]) 1 amts.
Proof. exact bucket_single_posting. Qed.
Print Assumptions single_posting_uses_bucket.

(* non-vacuity: $10.00, 3 EUR, <elided> : the elided posting receives $-10.00 and a generated
   posting receives -3 EUR ($ sorts before EUR) *)
Example null_fill_example :
  let usd := Some [36%Z] in let eur := Some [69; 85; 82]%Z in
  let mk a amt := mkPost a PReal amt None None false false false in
  finalize false (fun _ => 2%Z) None
    [mk [65%Z] (Some (mkAmt 10 2 false usd)); mk [66%Z] (Some (mkAmt 3 0 false eur)); mk [67%Z] None]
  = Ok (Accepted
    [mk [65%Z] (Some (mkAmt 10 2 false usd)); mk [66%Z] (Some (mkAmt 3 0 false eur));
     mkPost [67%Z] PReal (Some (mkAmt (-10) 2 false usd)) None None true false false;
     mkPost [67%Z] PReal (Some (mkAmt (-3) 0 false eur)) None None true true false]).
Proof. vm_compute. reflexivity. Qed.

(* the gain/loss of a lot sale ({price} differing from the @ cost) reaches the balance an elided amount is computed
   from only through postings that must balance: exchange() hands on the same balance whether or not the (virtual)
   postings are there *)
Theorem virtual_postings_never_alter_the_balance : forall ord cp ps bal ps' bal',
  exchange_posts ord cp ps bal = Ok (ps', bal') ->
  exists ps'', exchange_posts ord cp (filter must_balance ps) bal = Ok (ps'', bal').
Proof. exact exchange_posts_skips_nonbalancing. Qed.
Print Assumptions virtual_postings_never_alter_the_balance.

Theorem only_virtual_postings_leave_the_balance_alone : forall ord cp ps bal ps' bal',
  Forall (fun p => must_balance p = false) ps ->
  exchange_posts ord cp ps bal = Ok (ps', bal') -> bal' = bal.
Proof. exact exchange_posts_nonbalancing_only. Qed.
Print Assumptions only_virtual_postings_leave_the_balance_alone.

(* when the other postings cancel exactly and a zero amount (or zero cost) in a further commodity sits among them, the
   balance finalize is left with holds nothing at all: the elided posting then receives a plain zero (ledger used to
   leave it null and refuse the transaction - F69, repaired in /repo) *)
Theorem elided_amount_is_zero_when_nothing_is_left : fill_amounts (VBal []) = Ok [amt_of_Z 0].
Proof. reflexivity. Qed.
Print Assumptions elided_amount_is_zero_when_nothing_is_left.

Example ex_elided_amount_with_zero_posting :
  let x q := mkAmt q 0 false (Some [88%Z]) in
  let y q := mkAmt q 0 false (Some [89%Z]) in
  let ps := [mkPost [65%Z] PReal (Some (x 5)) None None false false false;
             mkPost [66%Z] PReal (Some (x (-5))) None None false false false;
             mkPost [67%Z] PReal (Some (y 0)) None None false false false;
             mkPost [68%Z] PReal None None None false false false] in
  finalize false (fun _ => 0%Z) None ps =
  Ok (Accepted [mkPost [65%Z] PReal (Some (x 5)) None None false false false;
                mkPost [66%Z] PReal (Some (x (-5))) None None false false false;
                mkPost [67%Z] PReal (Some (y 0)) None None false false false;
                mkPost [68%Z] PReal (Some (amt_neg (amt_of_Z 0))) None None true false false]).
Proof. vm_compute. reflexivity. Qed.

(* the written form of a posting line (Model/PostLine.v transcribes next_element, skip_ws and the account part of
   parse_post; the driver reads account, kind and the presence of an amount off the written line through it):
   whatever separates the account from the amount - a tab, two or more spaces, any run of blanks holding a tab - the
   account found is the written name and the amount text is what follows.  name_ok: no control white space in the
   name, a space only between two non-blank bytes; sep_ok: blanks only, a tab among them or at least two of them;
   the amount text starts with a byte that is not white space *)
Theorem account_and_amount_found_whatever_the_gap : forall a sep rest,
  name_ok a = true -> sep_ok sep = true -> skip_ws rest = rest ->
  split_post_line (a ++ sep ++ rest) = (classify_name a, Some rest).
Proof. exact split_post_line_gap. Qed.
Print Assumptions account_and_amount_found_whatever_the_gap.

Theorem posting_line_reading_independent_of_the_gap : forall a sep1 sep2 rest,
  name_ok a = true -> sep_ok sep1 = true -> sep_ok sep2 = true -> skip_ws rest = rest ->
  split_post_line (a ++ sep1 ++ rest) = split_post_line (a ++ sep2 ++ rest).
Proof. exact split_post_line_gap_independent. Qed.
Print Assumptions posting_line_reading_independent_of_the_gap.

Theorem posting_line_without_amount : forall a, name_ok a = true -> split_post_line a = (classify_name a, None).
Proof. exact split_post_line_bare. Qed.
Print Assumptions posting_line_without_amount.

Example ex_posting_line_gaps :
  let a := [69;120;112;58;68;32;79]%Z in
  name_ok a = true /\ sep_ok [SP; TAB] = true /\ sep_ok [TAB] = true /\ sep_ok [SP; SP; SP] = true /\
  sep_ok [SP] = false /\
  split_post_line (a ++ [SP; TAB] ++ [36; 53]%Z) = ((KReal, a), Some [36; 53]%Z) /\
  split_post_line (a ++ [TAB] ++ [36; 53]%Z) = ((KReal, a), Some [36; 53]%Z) /\
  split_post_line (a ++ [SP] ++ [36; 53]%Z) = ((KReal, a ++ [SP; 36; 53]%Z), None).
Proof. exact gap_forms_agree. Qed.

(* the tie to the source by translation: the lines of /repo/src this model transcribes (harness/translators/src_guards.py
   lists them, with the function each is looked for in) are still there, in the same order, in the source as it is NOW -
   coq/Gen/SourceGuards.v is regenerated on every run and names the guards that are false *)
Theorem model_transcribes_current_source : forallb (fun b => b) src_guards_C02 = true.
Proof. vm_compute. reflexivity. Qed.
Print Assumptions model_transcribes_current_source.

(* ---------------------------------------------------------------------------------------------------------------
   The completed transaction SUMS TO ZERO, exactly, commodity by commodity, at cost basis (bsum: the postings that
   must balance, cost where there is one, else amount - no display precision, no rounding anywhere). *)
Theorem completed_transaction_sums_to_zero : forall ord ps bal i amts c,
  scan_posts ord ps 0 VVoid None = Ok (bal, Some i) ->
  fill_amounts bal = Ok amts ->
  bsum (fill_null ps i amts) c == 0.
Proof. exact filled_sums_to_zero. Qed.
Print Assumptions completed_transaction_sums_to_zero.

Theorem accepted_with_elided_amount_sums_to_zero : forall ord cp ps bal i ps' c,
  wf_costs ps ->
  scan_posts ord ps 0 VVoid None = Ok (bal, Some i) ->
  finalize ord cp None ps = Ok (Accepted ps') ->
  bsum ps' c == 0.
Proof. exact dated_null_fill_sums_to_zero. Qed.
Print Assumptions accepted_with_elided_amount_sums_to_zero.

(* the index the scan reports IS an amount-less posting that must balance (no amount, no cost) *)
Theorem scan_finds_the_elided_posting : forall ord ps bal i,
  scan_posts ord ps 0 VVoid None = Ok (bal, Some i) ->
  (i < length ps)%nat /\ is_null_post (nth i ps dpost) = true.
Proof. exact scan_null_index_is_null_post. Qed.
Print Assumptions scan_finds_the_elided_posting.

(* the inferred postings, all of them: the written postings come first, unchanged but for the elided one, and what
   follows is EXACTLY one generated posting per further amount - the elided posting's account and kind, the negated
   amount, no cost, flags calculated+generated *)
Theorem inferred_postings_are_exactly_these : forall ps i a rest,
  firstn (length ps) (fill_null ps i (a :: rest)) = set_null ps i (amt_neg a) /\
  skipn (length ps) (fill_null ps i (a :: rest)) =
  map (fun x => mkPost (p_acct (nth i ps dpost)) (p_kind (nth i ps dpost)) (Some (amt_neg x)) None None true true false) rest.
Proof. exact fill_null_whole_shape. Qed.
Print Assumptions inferred_postings_are_exactly_these.

(* with two or more commodities left the amounts handed out are the balance's entries, one per commodity, in strictly
   ascending (base symbol, commodity key) order *)
Theorem one_inferred_amount_per_commodity_in_order : forall b,
  distinct_keys b -> (2 <= length b)%nat ->
  exists amts, fill_amounts (VBal b) = Ok amts /\ Permutation b amts /\ StronglySorted key_lt amts.
Proof. exact several_commodities_sorted_one_each. Qed.
Print Assumptions one_inferred_amount_per_commodity_in_order.

(* ---------------------------------------------------------------------------------------------------------------
   A `~ PERIOD` transaction (Model/XactBase.v): finalized when read, but it has no date and is no xact_t.  The three
   facts are read from the source as it is now (harness/translators/c02_null_fill.py -> Gen/NullFill.v); the
   theorems below hold only while they do. *)
Theorem periodic_transaction_source_facts :
  src_period_xact_is_finalized = true /\ src_exchange_only_when_dated = true /\ src_null_check_only_for_xact = true.
Proof. repeat split. Qed.
Print Assumptions periodic_transaction_source_facts.

Theorem dated_transaction_is_the_c01_model : forall ord cp b ps,
  finalize_base true true ord cp b ps = finalize ord cp b ps.
Proof. exact finalize_base_dated_xact. Qed.
Print Assumptions dated_transaction_is_the_c01_model.

(* its elided amount is filled exactly as in a dated transaction - WITHOUT any condition on the costs (exchange() never
   runs), and it is accepted *)
Theorem periodic_elided_posting_is_filled : forall ord cp ps bal i amts,
  scan_posts ord ps 0 VVoid None = Ok (bal, Some i) ->
  fill_amounts bal = Ok amts ->
  finalize_periodic ord cp None ps = Ok (Accepted (fill_null ps i amts)).
Proof. exact periodic_null_fill. Qed.
Print Assumptions periodic_elided_posting_is_filled.

Theorem periodic_with_elided_amount_sums_to_zero : forall ord cp ps bal i,
  scan_posts ord ps 0 VVoid None = Ok (bal, Some i) ->
  exists ps', finalize_periodic ord cp None ps = Ok (Accepted ps') /\ forall c, bsum ps' c == 0.
Proof. exact periodic_null_fill_sums_to_zero. Qed.
Print Assumptions periodic_with_elided_amount_sums_to_zero.

Theorem periodic_single_posting_is_balanced_by_bucket : forall ord cp b p bal amts,
  scan_posts ord [p] 0 VVoid None = Ok (bal, None) -> bal <> VVoid ->
  fill_amounts bal = Ok amts ->
  finalize_periodic ord cp (Some b) [p] =
  Ok (Accepted (fill_null ([p] ++ [mkPost b PReal None None None false false false]) 1 amts)).
Proof. exact periodic_single_posting_uses_bucket. Qed.
Print Assumptions periodic_single_posting_is_balanced_by_bucket.

Theorem periodic_agrees_with_dated : forall ord cp ps bal i amts,
  wf_costs ps ->
  scan_posts ord ps 0 VVoid None = Ok (bal, Some i) ->
  fill_amounts bal = Ok amts ->
  existsb (fun p => match p_amt p with None => true | Some _ => false end) (fill_null ps i amts) = false ->
  finalize_periodic ord cp None ps = finalize ord cp None ps.
Proof. exact periodic_agrees_with_dated_on_null_fill. Qed.
Print Assumptions periodic_agrees_with_dated.

(* where the two differ (replayed on ledger: `~ Monthly / Expenses:Rent  10 AAA @ 2 AAA / Assets:Checking` forecasts
   -20 AAA on Assets:Checking; `~ Monthly / (Expenses:Rent)  $500.00 / Assets:Checking` is accepted and forecasts the
   first posting alone) *)
Example ex_periodic_differs_from_dated :
  let aaa q k := mkAmt q 0 k (Some [65; 65; 65]%Z) in
  let mk a kd amt cost := mkPost a kd amt cost None false false false in
  let ps1 := [mk [82%Z] PReal (Some (aaa 10 false)) (Some (aaa 20 true)); mk [67%Z] PReal None None] in
  let ps2 := [mk [82%Z] PVirtual (Some (aaa 5 false)) None; mk [67%Z] PReal None None] in
  finalize false (fun _ => 0%Z) None ps1 = Err ECostSameComm /\
  finalize_periodic false (fun _ => 0%Z) None ps1 =
    Ok (Accepted [mk [82%Z] PReal (Some (aaa 10 false)) (Some (aaa 20 true));
                  mkPost [67%Z] PReal (Some (aaa (-20) false)) None None true false false]) /\
  finalize false (fun _ => 0%Z) None ps2 = Err ENullLeft /\
  finalize_periodic false (fun _ => 0%Z) None ps2 = Ok (Accepted ps2).
Proof. vm_compute. repeat split. Qed.

(* ---------------------------------------------------------------------------------------------------------------
   The wording of the error for a second elided amount. *)
Theorem second_elided_amount_error_is_worded : forall ord cp bucket ps,
  (2 <= count_nulls ps)%nat ->
  finalize ord cp bucket ps = Err ETwoNulls /\ exists cls, two_null_error ps = Some cls.
Proof. exact two_nulls_error_worded. Qed.
Print Assumptions second_elided_amount_error_is_worded.

Theorem wording_only_for_two_elided_amounts : forall ps cls,
  two_null_error ps = Some cls -> (2 <= count_nulls ps)%nat.
Proof. exact two_null_error_only_with_two_nulls. Qed.
Print Assumptions wording_only_for_two_elided_amounts.

Theorem misspelt_wording_names_an_elided_account : forall ps n,
  two_null_error ps = Some (TwoNullsMisspelt n) -> In n (null_accts ps) /\ ends_special n = true.
Proof. exact misspelt_names_an_elided_account. Qed.
Print Assumptions misspelt_wording_names_an_elided_account.

Theorem plain_wording_means_no_special_last_byte : forall ps,
  two_null_error ps = Some TwoNullsPlain ->
  exists a b l, null_accts ps = a :: b :: l /\ ends_special a = false /\ ends_special b = false.
Proof. exact plain_wording_means_no_special_ending. Qed.
Print Assumptions plain_wording_means_no_special_last_byte.

(* REQUIRES the byte table of account_ends_with_special_char as it is in the source now *)
Theorem special_last_byte_is_digit_or_closing_bracket : forall pre c,
  ends_special (pre ++ [c]) = (((48 <=? c) && (c <=? 57)) || (c =? 41) || (c =? 125) || (c =? 93))%Z.
Proof. exact ends_special_spec. Qed.
Print Assumptions special_last_byte_is_digit_or_closing_bracket.

Example ex_two_null_wording :
  let mk a := mkPost a PReal None None None false false false in
  two_null_error [mk [65; 49]%Z; mk [66%Z]] = Some (TwoNullsMisspelt [65; 49]%Z) /\
  two_null_error [mk [65; 49]%Z; mk [66; 93]%Z] = Some (TwoNullsMisspelt [66; 93]%Z) /\
  two_null_error [mk [65%Z]; mk [66%Z]; mk [67; 50]%Z] = Some TwoNullsPlain /\
  two_null_error [mk [65%Z]] = None.
Proof. vm_compute. repeat split. Qed.
