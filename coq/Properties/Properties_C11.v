(* C11 - no input makes ledger crash, corrupt memory or hang.   PARTIAL.
   Memory safety of the compiled program is not a statement about a Gallina model.  What is
   logic in the anchored mechanisms is stated here and proved in Proofs/BuffersProofs.v,
   NestingProofs.v, DivGuardProofs.v, SteppingProofs.v:
   (a) the arithmetic of every copy into a fixed `char NAME[N]` buffer, against the list of
       (buffer, writing statement) sites regenerated from /repo/src on every run;
   (b) the nesting depth and the length of what the recursive-descent expression parser accepts;
   (c) the zero tests in front of every division cell of the amount/balance/value model;
   (d) the variant of the period-stepping loop and the guard that makes it apply.
   Property theorems only. *)
From Coq Require Import String.
From LedgerV Require Import Base.Prelude Base.Round Model.Amount Model.Buffers Model.Nesting Model.Stepping Model.FormatRef Model.Aliases Model.Selection Model.Recursion Model.UnknownPayee Model.Width
  Gen.BufferSites Gen.SafetyGuards Gen.DepthEdges
  Proofs.BuffersProofs Proofs.NestingProofs Proofs.DivGuardProofs Proofs.SteppingProofs Proofs.FormatRefProofs Proofs.AliasesProofs Proofs.SelectionProofs Proofs.RecursionProofs Proofs.UnknownPayeeProofs Proofs.WidthProofs.
Import List.
Local Open Scope Z_scope.

(* ================= (a) bounded copies ================= *)

(* every site of the current source stores at most `capacity` bytes, whatever the length n of the
   text it copies.  Unbounded in n; the site list is finite and regenerated from the source, so
   shrinking a buffer, raising a bound or dropping a guard in the C++ makes this theorem fail.
   (Before their repair two sites failed it: find_option wrote 129 bytes into buf[128] for a
   127-character option name, prompt_string wrote n + 2 bytes into prompt[32] for n pushed reports.) *)
Theorem all_sites_in_bounds :
  Forall (fun s => forall n, 0 <= n -> extent (swrite s) n <= capacity s) sites.
Proof. exact all_sites_in_bounds_proof. Qed.
Print Assumptions all_sites_in_bounds.

(* the repaired sites have exactly the guarded shapes the repairs introduced *)
Theorem repaired_sites_guarded :
  map (fun s => (capacity s, swrite s))
      (filter (fun s => String.eqb (sname s) "option.cc:find_option:buf" ||
                        String.eqb (sname s) "global.cc:prompt_string:prompt") sites)
  = [ (32, IndexLoopBounded 30 2); (128, CopyGuarded 126 2) ].
Proof. exact repaired_sites_proof. Qed.
Print Assumptions repaired_sites_guarded.

(* the scanner classified every statement that names a fixed buffer (fail closed) *)
Theorem all_sites_recognised : forallb recognised sites = true.
Proof. exact all_sites_recognised_proof. Qed.
Print Assumptions all_sites_recognised.

Theorem site_table_matches : site_table = map (fun s => (capacity s, swrite s)) sites.
Proof. exact site_table_matches_proof. Qed.
Print Assumptions site_table_matches.

(* ... and it found the buffers the property is anchored in *)
Theorem anchored_sites_present :
  forallb has_site
    [ "amount.cc:parse_quantity:buf"; "commodity.cc:parse_symbol:buf"; "annotate.cc:parse:buf";
      "item.cc:parse_tags:buf"; "token.cc:parse_ident:buf"; "token.cc:next:buf";
      "token.cc:parse_reserved_word:buf"; "times.cc:parse_date_mask_routine:buf";
      "times.cc:parse_datetime:buf"; "textual.cc:parse_post:buf";
      "textual.cc:general_directive:buf"; "option.cc:find_option:buf";
      "global.cc:prompt_string:prompt" ]%string = true.
Proof. exact anchored_sites_present_proof. Qed.
Print Assumptions anchored_sites_present.

(* the decidable test used on the list is sound for every capacity and write kind *)
Theorem bounded_write_kinds_sound :
  forall cap w, write_ok cap w = true -> forall n, 0 <= n -> extent w n <= cap.
Proof. exact write_ok_sound. Qed.
Print Assumptions bounded_write_kinds_sound.

(* the READ_INTO macro, transcribed: at most `size` characters and one NUL, for every stream
   content and every character class *)
Theorem read_into_writes_le :
  forall cond size inp, 0 <= size -> Z.of_nat (length (read_into cond size inp)) <= size + 1.
Proof. exact BuffersProofs.read_into_writes_le. Qed.
Print Assumptions read_into_writes_le.

Theorem read_into_within_extent :
  forall cond M inp, 0 <= M ->
    Z.of_nat (length (read_into cond M inp)) <= extent (ReadInto M) (Z.of_nat (length inp)).
Proof. exact read_into_extent. Qed.
Print Assumptions read_into_within_extent.

(* the journal line reader: getline(linebuf, MAX_LINE) into linebuf[MAX_LINE + 1] *)
Theorem line_reader_in_bounds :
  forall inp, Z.of_nat (length (fst (getline_store src_line_getline inp))) <= src_max_line.
Proof. intros inp. apply getline_store_le. vm_compute. discriminate. Qed.
Print Assumptions line_reader_in_bounds.

(* ================= (b) recursion depth ================= *)

(* the source bounds the nesting of parenthesised sub-expressions (parser.cc parse_value_term,
   constant picked up by the translator): every accepted expression nests at most that deep, so
   the parser's stack need is at most frames_per_level * (L + 1) frames *)
Theorem parse_depth_le_limit :
  exists L, src_parse_depth_limit = Some L /\ 0 <= L /\
    forall ts d, parse_depth src_parse_depth_limit ts = Ok d -> d <= L /\ stack_frames d <= stack_frames L.
Proof.
  destruct src_parse_depth_limit as [L|] eqn:E; [|discriminate].
  exists L. split; [reflexivity|]. assert (HL : 0 <= L) by (injection E as <-; lia).
  split; [exact HL|]. intros ts d H.
  pose proof (parse_depth_le_limit_proof L ts d HL H) as Hd. split; [exact Hd|].
  unfold stack_frames, frames_per_level. lia.
Qed.
Print Assumptions parse_depth_le_limit.

Theorem parse_depth_le_any_limit :
  forall L ts d, 0 <= L -> parse_depth (Some L) ts = Ok d -> d <= L.
Proof. exact parse_depth_le_limit_proof. Qed.
Print Assumptions parse_depth_le_any_limit.

Theorem over_limit_nesting_rejected :
  forall L n, 0 <= L -> L < Z.of_nat n -> exists e, parse_depth (Some L) (nest n) = Err e.
Proof. exact nest_rejected_over_limit. Qed.
Print Assumptions over_limit_nesting_rejected.

(* why the guard is needed (the behaviour of the source before the repair, kept as a statement
   about the model WITHOUT a limit): every depth is reached by some accepted input *)
Theorem unguarded_parse_depth_unbounded :
  forall n, exists ts d, parse_depth None ts = Ok d /\ n <= d.
Proof. exact parse_depth_unbounded_proof. Qed.
Print Assumptions unguarded_parse_depth_unbounded.

(* the length bound of parser.h next_token: an accepted expression stays within both limits of
   the source; the tokens it consumed plus the one that ends it are at most the token limit, which
   bounds the depth of the operator tree that compile / calc / the destructor descend *)
Theorem accepted_expression_within_limits :
  exists L T, src_parse_depth_limit = Some L /\ src_expr_token_limit = Some T /\
    forall ts d, parse_guarded src_parse_depth_limit src_expr_token_limit ts = Ok d ->
      d <= L /\ consumed src_parse_depth_limit ts + 1 <= T.
Proof.
  destruct src_parse_depth_limit as [L|] eqn:E1; [|discriminate].
  destruct src_expr_token_limit as [T|] eqn:E2; [|discriminate].
  exists L, T. repeat split; try reflexivity;
    assert (HL : 0 <= L) by (injection E1 as <-; lia);
    destruct (parse_guarded_both_limits L T ts d HL H); assumption.
Qed.
Print Assumptions accepted_expression_within_limits.

Theorem long_chain_rejected :
  forall T k, T < 2 * Z.of_nat k + 2 -> parse_guarded None (Some T) (chain k) = Err EOther.
Proof. exact chain_rejected_over_limit. Qed.
Print Assumptions long_chain_rejected.

Theorem chain_within_limit_accepted :
  forall T k, 2 * Z.of_nat k + 2 <= T -> parse_guarded None (Some T) (chain k) = Ok 0.
Proof. exact chain_accepted_within_limit. Qed.
Print Assumptions chain_within_limit_accepted.

(* why that guard is needed: without it expressions of every length are accepted *)
Theorem unguarded_expression_length_unbounded :
  forall n, exists ts d, parse_guarded None None ts = Ok d /\ n <= consumed None ts.
Proof. exact expression_length_unbounded_proof. Qed.
Print Assumptions unguarded_expression_length_unbounded.

(* ================= (c) division ================= *)

(* in every cell of value_t::operator/= the operand divided by is tested first: when it is
   zero the result is an error (or the untouched all-zero balance), never a quotient *)
Theorem no_unguarded_zero_division :
  forall cp v w, zero_divisor (used_divisor v w) ->
    v_div cp v w = Err EDivZero \/ v_div cp v w = Err EBadOp \/
    (exists b, v = VBal b /\ bal_is_realzero b = true /\ v_div cp v w = Ok (VBal b)).
Proof. exact v_div_zero_divisor. Qed.
Print Assumptions no_unguarded_zero_division.

Theorem amount_division_guarded :
  forall cp a b, is_realzero b = true -> amt_div cp a b = Err EDivZero.
Proof. exact amt_div_zero. Qed.
Print Assumptions amount_division_guarded.

Theorem balance_division_guarded :
  forall cp b a, is_realzero a = true ->
    bal_div cp b a = Err EDivZero \/ (bal_is_realzero b = true /\ bal_div cp b a = Ok b).
Proof. exact bal_div_zero. Qed.
Print Assumptions balance_division_guarded.

Theorem integer_division_guarded :
  forall cp x y, (y = 0 -> v_div cp (VInt x) (VInt y) = Err EDivZero) /\
                 (forall r, v_div cp (VInt x) (VInt y) = Ok r -> y <> 0).
Proof.
  intros cp x y. split.
  - intros ->. reflexivity.
  - intros r. apply v_div_int_ok_nonzero.
Qed.
Print Assumptions integer_division_guarded.

(* ================= (d) termination of the period stepping ================= *)

Theorem add_dur_increasing :
  forall ms q n d, month_step_ok ms -> 1 <= n -> d < add_dur ms q n d.
Proof. exact add_dur_increasing_proof. Qed.
Print Assumptions add_dur_increasing.

Theorem catch_up_terminates :
  forall ms q n start date, month_step_ok ms -> 1 <= n ->
    exists s, catch_up ms q n (catch_up_fuel start date) start date = Ok s /\ start <= s /\
              (start < date -> s <= date /\ date < add_dur ms q n s).
Proof. intros. apply catch_up_terminates_proof; assumption. Qed.
Print Assumptions catch_up_terminates.

(* with the quantity test the source has today, every accepted `every n <unit>` terminates;
   the statement is about the SOURCE's guard: it stops compiling when the guard is removed *)
Theorem accepted_period_terminates :
  forall ms q n n' start date, month_step_ok ms ->
    accept_quantity src_period_zero_guard n = Ok n' ->
    exists s, catch_up ms q n' (catch_up_fuel start date) start date = Ok s.
Proof. exact accepted_period_terminates_proof. Qed.
Print Assumptions accepted_period_terminates.

(* why the guard is needed: a zero quantity never leaves the loop *)
Theorem zero_quantity_never_terminates :
  forall ms q fuel start date, (q = Days \/ q = Weeks) -> start < date ->
    catch_up ms q 0 fuel start date = Err EOutOfFuel.
Proof. exact zero_quantity_never_terminates_proof. Qed.
Print Assumptions zero_quantity_never_terminates.

Theorem day_period_start_closed_form :
  forall n start date, 1 <= n -> start <= date ->
    catch_up no_months Days n (catch_up_fuel start date) start date
    = Ok (start + n * ((date - start) / n)).
Proof. exact catch_up_days_closed_form_proof. Qed.
Print Assumptions day_period_start_closed_form.

(* ================= (e) the `%$N` prior-field reference of format strings ================= *)

(* with the tests the SOURCE has today the walk along the template never dereferences the null
   pointer, whatever the template and whatever character follows `%$`; the statement is about the
   source's guard and stops compiling when `&& tmpl_elem` (or one of the tests around it) is dropped *)
Theorem format_field_ref_never_crashes :
  forall els index, field_ref src_format_field_ref_guard els index <> Crash.
Proof. exact field_ref_guarded_no_crash. Qed.
Print Assumptions format_field_ref_never_crashes.

Theorem format_field_ref_found_in_template :
  forall guard els index e, field_ref guard els index = Found e -> In e els.
Proof. exact field_ref_found_in. Qed.
Print Assumptions format_field_ref_found_in_template.

(* the bounds, for both variants of the loop: F = EXPR elements after the first element; N <= F + 1
   is found, N = F + 2 stops exactly at the end of the list, N >= F + 3 has to step from the null
   pointer - an error with the guard, a crash without it *)
Theorem format_field_ref_bounds :
  forall guard els index, 1 <= index <= 15 ->
  match els with
  | [] => (index = 1 -> field_ref guard els index = NoSuchField) /\
          (2 <= index -> field_ref guard els index = if guard then NoSuchField else Crash)
  | _ :: t =>
      let F := Z.of_nat (count_exprs t) in
      (index <= F + 1 -> exists e, field_ref guard els index = Found e) /\
      (index = F + 2 -> field_ref guard els index = NoSuchField) /\
      (F + 3 <= index -> field_ref guard els index = if guard then NoSuchField else Crash)
  end.
Proof. exact field_ref_spec. Qed.
Print Assumptions format_field_ref_bounds.

(* the escape branch of the same loop.  The first statement becomes effective when the source tests
   the character after a backslash (src_format_backslash_guard, the repair proposed for F67); the
   second one says what the unguarded branch does to a format ending in a lone backslash - a read
   past the end of the buffer, which the sanitizer build and valgrind report on the current tree *)
Theorem format_escape_never_overruns :
  src_format_backslash_guard = true -> forall s, scan_format src_format_backslash_guard s <> ScanOverrun.
Proof. intros -> s. apply scan_format_guarded. Qed.
Print Assumptions format_escape_never_overruns.

Theorem format_escape_guarded_never_overruns : forall s, scan_format true s <> ScanOverrun.
Proof. exact scan_format_guarded. Qed.
Print Assumptions format_escape_guarded_never_overruns.

Theorem format_trailing_backslash_unguarded_overruns :
  forall s, Forall (fun c => c <> 92) s -> scan_format false (s ++ [92]) = ScanOverrun.
Proof. exact scan_format_unguarded_overrun. Qed.
Print Assumptions format_trailing_backslash_unguarded_overruns.

(* ================= (f) termination of the alias expansion loop ================= *)

(* journal_t::expand_aliases, with what the SOURCE records in already_seen: whatever the alias
   table and the account name, with or without --recursive-aliases, the loop ends within one
   round per alias and one more - it stops or reports a cycle.  (Each round that goes on records a
   key of the table that was not recorded before.)  The statement is about the source's choice
   of what to record and stops compiling when a branch records something it did not look up. *)
Theorem alias_expansion_terminates :
  forall recursive m name, expand src_alias_records_what_it_looks_up recursive m name <> NoEnd.
Proof. exact expand_terminates_proof. Qed.
Print Assumptions alias_expansion_terminates.

Theorem alias_expansion_fuel_irrelevant :
  forall recursive m fuel name seen r,
    expand_aliases true recursive fuel m name seen = r -> r <> NoEnd ->
    forall fuel', (fuel <= fuel')%nat -> expand_aliases true recursive fuel' m name seen = r.
Proof. intros recursive m. exact (expand_fuel_irrelevant recursive m). Qed.
Print Assumptions alias_expansion_fuel_irrelevant.

(* why it matters what is recorded: recording the whole name in the first-segment branch, the
   aliases A = B:X, B = A:Y and a posting to A:Z are expanded for ever *)
Theorem alias_wrong_record_never_ends :
  forall fuel, expand_aliases false true fuel cycle_table [seg_A; seg_Z] [] = NoEnd.
Proof. exact wrong_record_never_ends_proof. Qed.
Print Assumptions alias_wrong_record_never_ends.

(* ================= (f') the payee look-up for accounts called Unknown ================= *)

(* journal_t::register_account with the tests the SOURCE makes before it reads
   post->xact->payee (the translator recognises `post && post->xact &&` in front of the match):
   whatever the account name, the table of `payee` sub-directives and the registrant - an account
   directive (no posting), a posting of an automated or periodic transaction or one generated by
   extend_xact (no transaction), a posting of a dated transaction - no null pointer is read. *)
Theorem unknown_payee_lookup_never_null :
  forall name maps who, register_unknown src_unknown_payee_tests_post_and_xact name maps who <> NullDeref.
Proof. exact guarded_never_null. Qed.
Print Assumptions unknown_payee_lookup_never_null.

(* why the test of post->xact matters: without it every posting without a transaction to an
   account ...:Unknown reads the null pointer once the table has an entry - and nothing else
   depends on the test *)
Theorem unknown_payee_unguarded_null :
  forall name m maps, last_is_unknown name = true ->
    register_unknown false name (m :: maps) PostNoXact = NullDeref.
Proof. exact unguarded_null. Qed.
Print Assumptions unknown_payee_unguarded_null.

Theorem unknown_payee_test_matters_only_there :
  forall name maps who,
    register_unknown false name maps who <> register_unknown src_unknown_payee_tests_post_and_xact name maps who ->
    last_is_unknown name = true /\ maps <> [] /\ who = PostNoXact.
Proof. exact unguarded_differs_only_there. Qed.
Print Assumptions unknown_payee_test_matters_only_there.

(* what the look-up computes: a registrant without a payee keeps the account it named, an account
   whose last segment is not Unknown is never re-routed, and a posting of a dated transaction goes
   to the account of the FIRST table entry whose mask matches the payee *)
Theorem unknown_payee_without_payee_keeps_name :
  forall name maps who, who = NoPost \/ who = PostNoXact ->
    register_unknown src_unknown_payee_tests_post_and_xact name maps who = Registered name.
Proof. exact no_payee_keeps_name. Qed.
Print Assumptions unknown_payee_without_payee_keeps_name.

Theorem unknown_payee_other_names_untouched :
  forall g name maps who, last_is_unknown name = false -> register_unknown g name maps who = Registered name.
Proof. exact other_names_untouched. Qed.
Print Assumptions unknown_payee_other_names_untouched.

Theorem unknown_payee_first_match_is_first :
  forall maps payee a,
    first_match maps payee = Some a <->
    exists before m after, maps = before ++ (m, a) :: after /\ mask_match m payee = true /\
                           forall m' a', In (m', a') before -> mask_match m' payee = false.
Proof. exact first_match_spec. Qed.
Print Assumptions unknown_payee_first_match_is_first.

Theorem unknown_payee_dated_posting_routed :
  forall name maps payee, last_is_unknown name = true ->
    register_unknown src_unknown_payee_tests_post_and_xact name maps (PostIn payee) =
    Registered (match first_match maps payee with Some a => a | None => name end).
Proof. exact dated_posting_routed. Qed.
Print Assumptions unknown_payee_dated_posting_routed.

(* non-vacuity: "Expenses:Unknown", payee "GROCER Ltd", table [^grocer -> Expenses:Food] *)
Example unknown_payee_routes :
  register_unknown src_unknown_payee_tests_post_and_xact [[69]; unknown_word]
    [({| at_start := true; at_end := false; word := [103; 114; 111; 99; 101; 114] |}, [[69]; [70]])]
    (PostIn [71; 82; 79; 67; 69; 82; 32; 76; 116; 100]) = Registered [[69]; [70]].
Proof. reflexivity. Qed.

(* ================= (f'') the columns of a name ================= *)

(* unistring::width adds the answers of mk_wcwidth in a std::size_t.  When a negative answer (a
   control character) is taken as 0 columns, a name is between 0 and length-many columns wide
   and format_t::truncate cuts it only when it is longer than the column. *)
Theorem unistring_width_clamped_le_length :
  forall s, Z.of_nat (length s) < size_modulus -> 0 <= ustr_width true s <= Z.of_nat (length s).
Proof. exact clamped_width_le_length. Qed.
Print Assumptions unistring_width_clamped_le_length.

Theorem unistring_cut_only_when_longer :
  forall s columns, Z.of_nat (length s) < size_modulus -> is_cut true s columns = true -> columns < Z.of_nat (length s).
Proof. exact clamped_cut_only_when_longer. Qed.
Print Assumptions unistring_cut_only_when_longer.

(* added as they are, the answers wrap the sum around: the account "^A^A^A:B" is 2^64 - 1 columns
   wide (F211: `reg` dies in format_t::truncate) *)
Theorem unistring_width_le_length_refuted :
  exists s, Z.of_nat (length s) < ustr_width false s.
Proof. exact raw_width_exceeds_length. Qed.
Print Assumptions unistring_width_le_length_refuted.

(* and the one of the two that applies to the source as it is now *)
Theorem unistring_width_as_in_source :
  if src_unistring_width_clamps_negative
  then forall s, Z.of_nat (length s) < size_modulus ->
                 0 <= ustr_width src_unistring_width_clamps_negative s <= Z.of_nat (length s)
  else exists s, Z.of_nat (length s) < ustr_width src_unistring_width_clamps_negative s.
Proof. exact (width_as_in_source src_unistring_width_clamps_negative). Qed.
Print Assumptions unistring_width_as_in_source.

(* ================= (g) operands picked under a precondition computed earlier ================= *)

(* xact_base_t::finalize, two-commodity block: because the loop that counts commodities_left and
   the loop that picks x and y apply the same test (the translator checks that they do), entering
   the block means that both pointers are set, and to components that pass the test - whatever the
   test is.  `*x`, `*y`, `x->commodity()` are therefore never a null dereference. *)
Theorem finalize_two_commodity_operands_exist :
  forall (A : Type) (p : A -> bool) (l : list A) r,
    finalize_operands p p l = Some r -> exists a b, r = (Some a, Some b) /\ p a = true /\ p b = true.
Proof. exact @finalize_operands_exist. Qed.
Print Assumptions finalize_two_commodity_operands_exist.

(* why the two tests must be the same: counting the components that are not exactly zero but
   picking only those that do not display as zero can enter the block with y unset *)
Theorem finalize_mismatched_tests_leave_y_unset :
  exists (l : list Z) x, finalize_operands (fun z => negb (z =? 0)) (fun z => 10 <=? Z.abs z) l = Some (x, None).
Proof. exact finalize_operands_mismatch. Qed.
Print Assumptions finalize_mismatched_tests_leave_y_unset.

(* journal_t::add_xact, duplicate UUID: with the sizes compared first the three-iterator std::equal
   never reads past other_posts; without, it does whenever the later transaction has more postings *)
Theorem uuid_compare_guarded_in_bounds :
  forall (A : Type) (this other : list A), uuid_compare true this other <> ReadPastEnd.
Proof. exact @uuid_compare_size_first. Qed.
Print Assumptions uuid_compare_guarded_in_bounds.

Theorem uuid_compare_of_source_in_bounds :
  src_uuid_size_test_first = true ->
  forall (A : Type) (this other : list A), uuid_compare src_uuid_size_test_first this other <> ReadPastEnd.
Proof. intros -> A this other. apply uuid_compare_size_first. Qed.
Print Assumptions uuid_compare_of_source_in_bounds.

Theorem uuid_compare_unguarded_reads_past_end :
  forall (A : Type) (this other : list A), (length other < length this)%nat -> uuid_compare false this other = ReadPastEnd.
Proof. exact @uuid_compare_unguarded_reads_past. Qed.
Print Assumptions uuid_compare_unguarded_reads_past_end.

(* ================= (h) the recursion depth of the evaluator ================= *)

(* every place where the evaluator re-enters calc / compile, or builds the call scope through
   which the arguments of a call are evaluated later, hands the recursion depth on (list
   regenerated from the source; the only edge without a depth is the top-level entry
   expr_t::real_calc).  A call_scope_t built as (scope, locus) instead of (scope, locus,
   depth + 1), or a calc() called without its depth, makes this fail. *)
Theorem recursion_edges_hand_the_depth_on :
  forallb (fun e => snd e || String.eqb (fst e) "expr.cc:real_calc:calc#1") src_depth_edges = true.
Proof. vm_compute. reflexivity. Qed.
Print Assumptions recursion_edges_hand_the_depth_on.

(* then no chain of nested evaluations puts more than MAX_DEPTH + 1 frames of calc on the stack,
   and every longer chain is cut by the guard *)
Theorem evaluation_depth_bounded :
  exists L, src_calc_depth_limit = Some L /\ 0 <= L /\
    forall es, Forall (fun e => e = Propagate) es ->
      match descend L es 0 0 with Cut k | Deeper k => Z.of_nat k <= L + 1 end /\
      (L + 1 < Z.of_nat (length es) -> exists k, descend L es 0 0 = Cut k).
Proof.
  destruct src_calc_depth_limit as [L|] eqn:E; [|discriminate].
  exists L. split; [reflexivity|]. assert (HL : 0 <= L) by (injection E as <-; lia).
  split; [exact HL|]. intros es Hall. split.
  - pose proof (descend_propagating_bounded L es 0 0 Hall ltac:(lia)) as H.
    destruct (descend L es 0 0); cbn in H; lia.
  - intros Hlen. apply descend_propagating_cut; try assumption; lia.
Qed.
Print Assumptions evaluation_depth_bounded.

(* one edge that starts again at depth 0 loses the bound: a recursion cycle of any period up to the
   limit that passes through it is followed for ever *)
Theorem reset_edge_recursion_unbounded :
  forall L p, 0 <= L -> Z.of_nat p <= L ->
    forall k n, descend L (cycles p k) 0 n = Deeper (n + k * S p).
Proof. intros L p HL Hp. exact (descend_cycles_unbounded L p HL Hp). Qed.
Print Assumptions reset_edge_recursion_unbounded.

(* the depth limit does not cut any expression the parser accepts: an expression of T tokens is at
   most T / 2 levels deep (an operator or a pair of parentheses per level) *)
Theorem depth_limit_admits_every_parsed_expression :
  exists L T, src_calc_depth_limit = Some L /\ src_expr_token_limit = Some T /\ T <= 2 * L.
Proof.
  destruct src_calc_depth_limit as [L|] eqn:E1; [|discriminate].
  destruct src_expr_token_limit as [T|] eqn:E2; [|discriminate].
  exists L, T. split; [reflexivity|]. split; [reflexivity|].
  injection E1 as <-. injection E2 as <-. lia.
Qed.
Print Assumptions depth_limit_admits_every_parsed_expression.

(* ================= the guards the theorems rely on are in the source ================= *)
Theorem source_guards_present :
  src_period_zero_guard = true /\ src_int_div_guard = true /\ src_line_too_long_guard = true /\
  src_asserts_throw = true /\ src_read_into_as_modelled = true /\ src_line_getline = src_max_line /\
  (* guards added by the repairs of F42 F47 F39 F43 F45 *)
  src_conversion_cycle_guard = true /\ src_expr_argument_guard = true /\ src_script_loop_guard = true /\
  src_no_xact_journal_master = true /\ src_find_account_no_frame_buffer = true /\
  src_format_field_ref_guard = true /\ src_alias_records_what_it_looks_up = true /\
  src_finalize_pick_uses_count_predicate = true /\ src_unknown_payee_tests_post_and_xact = true.
Proof. repeat split; reflexivity. Qed.
Print Assumptions source_guards_present.

(* the numeric limits added by the repairs of F44 and F49 are present; `within_limit` is the
   guard `if (n > limit) throw` they share: a value is let through iff it is at most the limit *)
Theorem numeric_limits_present :
  exists QD QT RP, src_query_depth_limit = Some QD /\ src_query_term_limit = Some QT /\
    src_roundto_places_limit = Some RP /\ 0 < QD /\ 0 < QT /\ 0 < RP /\
    forall n, (within_limit src_query_depth_limit n = true <-> n <= QD) /\
              (within_limit src_query_term_limit n = true <-> n <= QT) /\
              (within_limit src_roundto_places_limit n = true <-> n <= RP).
Proof.
  destruct src_query_depth_limit as [QD|] eqn:E1; [|discriminate].
  destruct src_query_term_limit as [QT|] eqn:E2; [|discriminate].
  destruct src_roundto_places_limit as [RP|] eqn:E3; [|discriminate].
  exists QD, QT, RP.
  injection E1 as <-. injection E2 as <-. injection E3 as <-.
  repeat split; try reflexivity; try lia; cbn [within_limit]; try apply Z.leb_le.
Qed.
Print Assumptions numeric_limits_present.

(* which of the query parser's two limits bites: k plain terms inside d nested parentheses are
   accepted iff d is within the nesting limit and the 2 d + k + 1 calls of parse_query_term are
   within the term limit (so with the source's constants plain terms are bounded by T - 1 and pure
   nesting by (T - 2) / 2, below the nesting limit itself) *)
Theorem query_limits_effective :
  exists D T, src_query_depth_limit = Some D /\ src_query_term_limit = Some T /\
    forall d k, query_accept src_query_depth_limit src_query_term_limit d k = true
                <-> d <= D /\ 2 * d + k + 1 <= T.
Proof.
  destruct src_query_depth_limit as [D|] eqn:E1; [|discriminate].
  destruct src_query_term_limit as [T|] eqn:E2; [|discriminate].
  exists D, T. split; [reflexivity|]. split; [reflexivity|]. intros d k. apply query_accept_spec.
Qed.
Print Assumptions query_limits_effective.

(* non-vacuity *)
Example nest_three : parse_depth src_parse_depth_limit (nest 3) = Ok 3.
Proof. reflexivity. Qed.
Example ops_do_not_nest :
  parse_guarded src_parse_depth_limit src_expr_token_limit [TVal; TOp; TLp; TVal; TOp; TVal; TRp; TOp; TVal] = Ok 1.
Proof. reflexivity. Qed.
Example month_steps_exist : month_step_ok (fun _ k => 30 * k).
Proof. intros d k Hk. lia. Qed.
Example read_into_escape :
  read_into (fun c => negb (c =? 39)) 255 [97; 92; 116; 98; 39; 99] = [97; 9; 98; 0].
Proof. reflexivity. Qed.
