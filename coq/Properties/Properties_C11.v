(* C11 - no input makes ledger crash, corrupt memory or hang.   PARTIAL.
   Memory safety of the compiled program is not a statement about a Gallina model.  What is
   logic in the anchored mechanisms is stated here and proved in Proofs/BuffersProofs.v,
   NestingProofs.v, DivGuardProofs.v, SteppingProofs.v:
   (a) the arithmetic of every copy into a fixed `char NAME[N]` buffer, against the list of
       (buffer, writing statement) sites regenerated from /repo/src on every run;
   (b) the nesting depth of the recursive-descent expression parser;
   (c) the zero tests in front of every division cell of the amount/balance/value model;
   (d) the variant of the period-stepping loop and the guard that makes it apply.
   Property theorems only. *)
From Coq Require Import String.
From LedgerV Require Import Base.Prelude Base.Round Model.Amount Model.Buffers Model.Nesting Model.Stepping
  Gen.BufferSites Gen.SafetyGuards
  Proofs.BuffersProofs Proofs.NestingProofs Proofs.DivGuardProofs Proofs.SteppingProofs.
Import List.
Local Open Scope Z_scope.

(* ================= (a) bounded copies ================= *)

(* every site of the current source - except the two findings refuted below - stores at most
   `capacity` bytes, whatever the length n of the text it copies.  Unbounded in n; the site list
   is finite and regenerated from the source, so shrinking a buffer, raising a bound or
   dropping a guard in the C++ makes this theorem fail. *)
Theorem all_sites_in_bounds :
  Forall (fun s => forall n, 0 <= n -> extent (swrite s) n <= capacity s) checked_sites.
Proof. exact all_sites_in_bounds_proof. Qed.
Print Assumptions all_sites_in_bounds.

(* the scanner classified every statement that names a fixed buffer (fail closed) *)
Theorem all_sites_recognised : forallb recognised sites = true.
Proof. exact all_sites_recognised_proof. Qed.
Print Assumptions all_sites_recognised.

Theorem site_table_matches : site_table = map (fun s => (capacity s, swrite s)) sites.
Proof. exact site_table_matches_proof. Qed.
Print Assumptions site_table_matches.

(* ... and it found the buffers the property is anchored in *)
Theorem anchored_sites_present :
  forallb has_site
    [ "amount.cc:parse_quantity:buf"; "commodity.cc:parse_symbol:buf"; "annotate.cc:parse:buf";
      "item.cc:parse_tags:buf"; "token.cc:parse_ident:buf"; "token.cc:next:buf";
      "token.cc:parse_reserved_word:buf"; "times.cc:parse_date_mask_routine:buf";
      "times.cc:parse_datetime:buf"; "textual.cc:parse_post:buf";
      "textual.cc:general_directive:buf"; "account.cc:find_account:buf";
      "option.cc:find_option:buf" ]%string = true.
Proof. exact anchored_sites_present_proof. Qed.
Print Assumptions anchored_sites_present.

(* the decidable test used on the list is sound for every capacity and write kind *)
Theorem bounded_write_kinds_sound :
  forall cap w, write_ok cap w = true -> forall n, 0 <= n -> extent w n <= cap.
Proof. exact write_ok_sound. Qed.
Print Assumptions bounded_write_kinds_sound.

(* the READ_INTO macro, transcribed: at most `size` characters and one NUL, for every stream
   content and every character class *)
Theorem read_into_writes_le :
  forall cond size inp, 0 <= size -> Z.of_nat (length (read_into cond size inp)) <= size + 1.
Proof. exact BuffersProofs.read_into_writes_le. Qed.
Print Assumptions read_into_writes_le.

Theorem read_into_within_extent :
  forall cond M inp, 0 <= M ->
    Z.of_nat (length (read_into cond M inp)) <= extent (ReadInto M) (Z.of_nat (length inp)).
Proof. exact read_into_extent. Qed.
Print Assumptions read_into_within_extent.

(* the journal line reader: getline(linebuf, MAX_LINE) into linebuf[MAX_LINE + 1] *)
Theorem line_reader_in_bounds :
  forall inp, Z.of_nat (length (fst (getline_store src_line_getline inp))) <= src_max_line.
Proof. intros inp. apply getline_store_le. vm_compute. discriminate. Qed.
Print Assumptions line_reader_in_bounds.

(* findings: two sites of the unchanged tree overrun their buffer *)
Theorem site_prompt_string_refuted :
  exists s n, In s sites /\ sname s = "global.cc:prompt_string:prompt"%string /\
              0 <= n /\ capacity s < extent (swrite s) n.
Proof. exact prompt_site_overruns. Qed.
Print Assumptions site_prompt_string_refuted.

Theorem site_find_option_refuted :
  exists s n, In s sites /\ sname s = "option.cc:find_option:buf"%string /\
              0 <= n /\ capacity s < extent (swrite s) n.
Proof. exact option_site_overruns. Qed.
Print Assumptions site_find_option_refuted.

(* ================= (b) recursion depth ================= *)

(* what the source's guard (or its absence) implies: with a bound L every accepted expression
   nests at most L deep; with no bound every depth is reached by some accepted input *)
Theorem parse_depth_of_source :
  match src_parse_depth_limit with
  | Some L => 0 <= L -> forall ts d, parse_depth (Some L) ts = Ok d -> d <= L
  | None => forall n, exists ts d, parse_depth None ts = Ok d /\ n <= d
  end.
Proof.
  destruct src_parse_depth_limit as [L|].
  - intros HL ts d. apply parse_depth_le_limit_proof. exact HL.
  - exact parse_depth_unbounded_proof.
Qed.
Print Assumptions parse_depth_of_source.

Theorem parse_depth_unbounded :
  forall n, exists ts d, parse_depth None ts = Ok d /\ n <= d.
Proof. exact parse_depth_unbounded_proof. Qed.
Print Assumptions parse_depth_unbounded.

Theorem parse_depth_le_limit :
  forall L ts d, 0 <= L -> parse_depth (Some L) ts = Ok d -> d <= L.
Proof. exact parse_depth_le_limit_proof. Qed.
Print Assumptions parse_depth_le_limit.

Theorem over_limit_nesting_rejected :
  forall L n, 0 <= L -> L < Z.of_nat n -> exists e, parse_depth (Some L) (nest n) = Err e.
Proof. exact nest_rejected_over_limit. Qed.
Print Assumptions over_limit_nesting_rejected.

(* finding F4: the source has no bound, so no stack size is enough for every accepted
   expression (each level costs frames_per_level C++ frames) *)
Theorem bounded_parse_stack_refuted :
  src_parse_depth_limit = None ->
  forall B, exists ts d, parse_depth src_parse_depth_limit ts = Ok d /\ B < stack_frames d.
Proof.
  intros H B. destruct src_parse_depth_limit; [discriminate | apply stack_need_unbounded_proof].
Qed.
Print Assumptions bounded_parse_stack_refuted.

(* ================= (c) division ================= *)

(* in every cell of value_t::operator/= the operand divided by is tested first: when it is
   zero the result is an error (or the untouched all-zero balance), never a quotient *)
Theorem no_unguarded_zero_division :
  forall cp v w, zero_divisor (used_divisor v w) ->
    v_div cp v w = Err EDivZero \/ v_div cp v w = Err EBadOp \/
    (exists b, v = VBal b /\ bal_is_realzero b = true /\ v_div cp v w = Ok (VBal b)).
Proof. exact v_div_zero_divisor. Qed.
Print Assumptions no_unguarded_zero_division.

Theorem amount_division_guarded :
  forall cp a b, is_realzero b = true -> amt_div cp a b = Err EDivZero.
Proof. exact amt_div_zero. Qed.
Print Assumptions amount_division_guarded.

Theorem balance_division_guarded :
  forall cp b a, is_realzero a = true ->
    bal_div cp b a = Err EDivZero \/ (bal_is_realzero b = true /\ bal_div cp b a = Ok b).
Proof. exact bal_div_zero. Qed.
Print Assumptions balance_division_guarded.

Theorem integer_division_guarded :
  forall cp x y, (y = 0 -> v_div cp (VInt x) (VInt y) = Err EDivZero) /\
                 (forall r, v_div cp (VInt x) (VInt y) = Ok r -> y <> 0).
Proof.
  intros cp x y. split.
  - intros ->. reflexivity.
  - intros r. apply v_div_int_ok_nonzero.
Qed.
Print Assumptions integer_division_guarded.

(* ================= (d) termination of the period stepping ================= *)

Theorem add_dur_increasing :
  forall ms q n d, month_step_ok ms -> 1 <= n -> d < add_dur ms q n d.
Proof. exact add_dur_increasing_proof. Qed.
Print Assumptions add_dur_increasing.

Theorem catch_up_terminates :
  forall ms q n start date, month_step_ok ms -> 1 <= n ->
    exists s, catch_up ms q n (catch_up_fuel start date) start date = Ok s /\ start <= s /\
              (start < date -> s <= date /\ date < add_dur ms q n s).
Proof. intros. apply catch_up_terminates_proof; assumption. Qed.
Print Assumptions catch_up_terminates.

(* with the quantity test the source has today, every accepted `every n <unit>` terminates;
   the statement is about the SOURCE's guard: it stops compiling when the guard is removed *)
Theorem accepted_period_terminates :
  forall ms q n n' start date, month_step_ok ms ->
    accept_quantity src_period_zero_guard n = Ok n' ->
    exists s, catch_up ms q n' (catch_up_fuel start date) start date = Ok s.
Proof. exact accepted_period_terminates_proof. Qed.
Print Assumptions accepted_period_terminates.

(* why the guard is needed: a zero quantity never leaves the loop *)
Theorem zero_quantity_never_terminates :
  forall ms q fuel start date, (q = Days \/ q = Weeks) -> start < date ->
    catch_up ms q 0 fuel start date = Err EOutOfFuel.
Proof. exact zero_quantity_never_terminates_proof. Qed.
Print Assumptions zero_quantity_never_terminates.

Theorem day_period_start_closed_form :
  forall n start date, 1 <= n -> start <= date ->
    catch_up no_months Days n (catch_up_fuel start date) start date
    = Ok (start + n * ((date - start) / n)).
Proof. exact catch_up_days_closed_form_proof. Qed.
Print Assumptions day_period_start_closed_form.

(* ================= the guards the theorems rely on are in the source ================= *)
Theorem source_guards_present :
  src_period_zero_guard = true /\ src_int_div_guard = true /\ src_line_too_long_guard = true /\
  src_asserts_throw = true /\ src_read_into_as_modelled = true /\ src_line_getline = src_max_line.
Proof. repeat split; reflexivity. Qed.
Print Assumptions source_guards_present.

(* non-vacuity *)
Example nest_three : parse_depth None (nest 3) = Ok 3.
Proof. reflexivity. Qed.
Example ops_do_not_nest : parse_depth None [TVal; TOp; TLp; TVal; TOp; TVal; TRp; TOp; TVal] = Ok 1.
Proof. reflexivity. Qed.
Example month_steps_exist : month_step_ok (fun _ k => 30 * k).
Proof. intros d k Hk. lia. Qed.
Example read_into_escape :
  read_into (fun c => negb (c =? 39)) 255 [97; 92; 116; 98; 39; 99] = [97; 9; 98; 0].
Proof. reflexivity. Qed.
