(* C18 - machine-readable outputs are well-formed and faithful.
   Property theorems only; proofs are in Proofs/EscapeProofs.v.
   Writers (Model/Escape.v): emacs_out, csv_out (row assembly from the csv format regenerated from
   report.h into Gen/CsvFormat.v), xml_encode / write_el.  Readers are specifications of the
   consumers: lisp_lex / lisp_read_string (Emacs Lisp), csv_read_rfc (RFC 4180), csv_read_bs
   (backslash escapes), xml_decode (XML character data).  All statements hold for ALL byte strings
   (no printability or length restriction) unless a hypothesis says otherwise. *)
From LedgerV Require Import Base.Prelude Gen.CsvFormat Gen.PayeeRule Gen.JoinRule Gen.XmlWalk Model.Escape Proofs.EscapeProofs Proofs.EscapeXmlProofs Proofs.EscapeJoinProofs.
Local Open Scope Z_scope.

(* ---- emacs ---- *)
(* every string escape_string writes is read back unchanged, and the reader meets no escape
   other than backslash-backslash and backslash-dquote on the way (it would fail) *)
Theorem emacs_roundtrip : forall s, lisp_read_string (emacs_string s) = Some s.
Proof. exact emacs_roundtrip_lemma. Qed.
Print Assumptions emacs_roundtrip.

(* the whole output lexes to exactly the expected tokens: per transaction the file name, line,
   time triple, code or nil, payee or nil; per posting the line, account, amount, state and the
   optional cost and note - each string token being the original, unescaped field *)
Theorem emacs_tokens_faithful : forall aux path xs,
  lisp_lex LsNorm (emacs_out aux path xs) = Some (emacs_tokens aux path xs).
Proof. exact emacs_lex_lemma. Qed.
Print Assumptions emacs_tokens_faithful.

(* ... and its parentheses (outside strings) balance, never closing more than was opened *)
Theorem emacs_balanced : forall aux path xs,
  exists toks, lisp_lex LsNorm (emacs_out aux path xs) = Some toks /\ balanced toks = true.
Proof.
  intros aux path xs. exists (emacs_tokens aux path xs).
  split; [apply emacs_lex_lemma|apply emacs_balanced_lemma].
Qed.
Print Assumptions emacs_balanced.

(* read as a tree, the output is one list of transactions
   (file line (hi lo 0) code-or-nil payee-or-nil (line account amount state [cost] [note]) ...) *)
Theorem emacs_readable_faithful : forall aux path xs,
  lisp_read (emacs_out aux path xs) = Some (emacs_sexp aux path xs).
Proof. exact emacs_read_lemma. Qed.
Print Assumptions emacs_readable_faithful.

(* ---- xml ---- *)
Theorem xml_roundtrip : forall s, xml_decode (xml_encode s) = Some s.
Proof. exact xml_roundtrip_lemma. Qed.
Print Assumptions xml_roundtrip.

(* encoded text holds no < and every & starts one of &lt; &gt; &amp; &quot; &apos; &#32; *)
Theorem xml_no_markup : forall s, ~ In 60 (xml_encode s) /\ amp_entities (xml_encode s) = true.
Proof. exact xml_no_markup_lemma. Qed.
Print Assumptions xml_no_markup.

(* printable input (no ASCII control character) gives printable output *)
Theorem xml_printable : forall s, Forall printable s -> Forall printable (xml_encode s).
Proof. exact xml_printable_lemma. Qed.
Print Assumptions xml_printable.

(* an element that holds only text is <key>encoded text</key>, an empty one <key/> *)
Theorem xml_leaf_text : forall key data ind, data <> [] ->
  write_el key (leaf data) ind
  = indent_str ind ++ [60] ++ key ++ [62] ++ xml_encode data ++ [60; 47] ++ key ++ [62; 10].
Proof. exact write_leaf. Qed.
Print Assumptions xml_leaf_text.

(* element structure: for every property tree whose element names are names (no < > / space
   quote =) and whose attribute names hold no quote / < >, the tag scanner finds exactly the
   elements of the tree - so no text or attribute value is ever taken for markup - and every end
   tag closes the innermost open element *)
Theorem xml_elements_well_nested : forall key pt ind,
  names_okb key pt = true ->
  xml_tags XsText (write_el key pt ind) = Some (tag_events key pt) /\
  well_nested [] (tag_events key pt) = true.
Proof. exact xml_structure_lemma. Qed.
Print Assumptions xml_elements_well_nested.

(* the three sections ledger writes satisfy that hypothesis whatever the journal's texts are *)
Theorem xml_transactions_well_formed : forall xs,
  exists evs, xml_tags XsText (xml_transactions xs) = Some evs /\ well_nested [] evs = true.
Proof. exact xml_transactions_structure. Qed.
Print Assumptions xml_transactions_well_formed.

Theorem xml_accounts_well_formed : forall accts,
  exists evs, xml_tags XsText (xml_accounts accts) = Some evs /\ well_nested [] evs = true.
Proof. exact xml_accounts_structure. Qed.
Print Assumptions xml_accounts_well_formed.

Theorem xml_commodities_well_formed : forall cs,
  exists evs, xml_tags XsText (xml_commodities cs) = Some evs /\ well_nested [] evs = true.
Proof. exact xml_commodities_structure. Qed.
Print Assumptions xml_commodities_well_formed.

(* ---- dates ---- *)
(* xml carries each date under its own element: <date> holds _date and <aux-date> holds _date_aux,
   for the transaction and for a posting that has dates of its own ... *)
Theorem xml_date_elements : forall x p,
  ptree_child k_date (put_xact x) = Some (date_leaf (x_primary x)) /\
  ptree_child k_aux_date (put_xact x) = option_map date_leaf (x_aux x) /\
  ptree_child k_date (put_post x p) = option_map date_leaf (p_date p) /\
  ptree_child k_aux_date (put_post x p) = option_map date_leaf (p_aux p).
Proof.
  intros x p. split; [apply xact_date_element|]. split; [apply xact_aux_element|].
  split; [apply post_date_element|apply post_aux_element].
Qed.
Print Assumptions xml_date_elements.

(* ... so that a reader who takes the posting's element if present and the transaction's otherwise
   recovers the register's date without --aux-date, and with it *)
Theorem xml_dates_faithful : forall x p,
  xml_date x p = post_date false x p /\ xml_aux_date x p = post_date true x p.
Proof. intros x p. split; [apply xml_date_is_register|apply xml_aux_date_is_register]. Qed.
Print Assumptions xml_dates_faithful.

(* the csv date cell is post_t::date() by csv_default_row_fields below.  emacs gives one time value
   per transaction (xact.date()): it is the register date of a posting without dates of its own *)
Theorem emacs_date_faithful_partial : forall aux x p,
  p_date p = None -> p_aux p = None -> post_date aux x p = xact_date aux x.
Proof. exact emacs_date_without_posting_dates. Qed.
Print Assumptions emacs_date_faithful_partial.

(* ... and not of a posting that carries its own date (finding F150) *)
Theorem emacs_date_refuted :
  exists x p, In p (x_posts x) /\ post_date false x p <> xact_date false x.
Proof. exact emacs_date_differs. Qed.
Print Assumptions emacs_date_refuted.

(* ---- payee overrides (Payee tags) ---- *)
(* The csv payee cell is post_t::payee() by csv_default_row_fields below.  The xml output lets a
   reader recover the posting <payee> child if present, else the transaction <payee>.  Whether that
   is the register payee depends on how textual.cc stores the payee; Gen/PayeeRule.v
   (src_payee_rule) is regenerated from the source on every run and selects the statement:
     PayeeFollowsLaterTags   (a note line after the posting that changes the Payee tag updates the
                              stored payee): xml and register agree for every posting whose
                              later-line Payee tags carry a value;
     PayeeFixedAtPostingLine (payee stored once, when the posting line is read): they agree when
                              the posting has no later-line tags or no payee was stored, and
                              DISAGREE on a witness (finding F116);
     unrecognised source shape: no statement is accepted (False). *)
Theorem payee_rule_recognised : src_payee_rule <> PayeeRuleUnrecognised.
Proof. discriminate. Qed.
Print Assumptions payee_rule_recognised.

Theorem xml_payee_faithful : xml_payee_statement src_payee_rule.
Proof. apply xml_payee_statement_holds. exact payee_rule_recognised. Qed.
Print Assumptions xml_payee_faithful.
(* the statement selected on this run *)
Eval cbv [xml_payee_statement src_payee_rule] in xml_payee_statement src_payee_rule.

(* emacs prints one payee per transaction, the header's (emacs_tokens_faithful): it is the
   register payee of a posting when no tag is present at all ... *)
Theorem emacs_payee_faithful_partial : forall x p,
  x_meta x = [] -> p_meta_inline p = [] -> p_meta_later p = [] -> post_payee x p = x_payee x.
Proof.
  intros x p H1 H2 H3. apply header_payee_without_tags; try assumption. exact payee_rule_recognised.
Qed.
Print Assumptions emacs_payee_faithful_partial.

(* ... and not in general (finding F115): a transaction-level Payee tag overrides the header *)
Theorem emacs_payee_refuted : exists x p, In p (x_posts x) /\ post_payee x p <> x_payee x.
Proof. exists pw_xact, pw_post. split; [left; reflexivity|]. vm_compute. discriminate. Qed.
Print Assumptions emacs_payee_refuted.

(* ---- which postings the xml report lists (ptree.cc format_ptree::flush; Gen/XmlWalk.v is
   regenerated from the source on every run and selects the statement): with the postings that
   REACHED the handler the report lists exactly the displayed ones, as register, csv and emacs do;
   with the postings calc_posts visited it lists more under --display (finding F1801) ---- *)
Definition xml_walk_statement (w : xml_walk) : Prop :=
  match w with
  | WalkDisplayed => forall displayed all, xml_walked_rule w displayed all = displayed
  | WalkVisited => (forall displayed all, displayed = all -> xml_walked_rule w displayed all = displayed)
                   /\ exists displayed all, xml_walked_rule w displayed all <> displayed
  | WalkUnrecognised => False
  end.
Definition wit_walk_post : post := mkPost 2 0 0 [65] (mkAmt [49] [80] None [49]) None None None None [] [].
Theorem xml_walk_recognised : src_xml_walk <> WalkUnrecognised.
Proof. discriminate. Qed.
Print Assumptions xml_walk_recognised.
Theorem xml_walk_faithful : xml_walk_statement src_xml_walk.
Proof.
  unfold src_xml_walk, xml_walk_statement; cbn;
  first [ split; [intros d a H; symmetry; exact H | exists [], [wit_walk_post]; discriminate]
        | intros d a; reflexivity ].
Qed.
Print Assumptions xml_walk_faithful.

(* ---- csv written with quoted_rfc ---- *)
Theorem csv_rfc_roundtrip : forall rows,
  Forall (fun row => row <> [] /\ Forall (fun c => fst c = QRfc) row) rows ->
  csv_read_rfc (csv_text rows) = Some (plain_rows rows).
Proof.
  intros rows H. apply csv_rfc_read_lemma.
  eapply Forall_impl; [|exact H]. intros row [Hne Hq]. split; [exact Hne|].
  eapply Forall_impl; [|exact Hq]. intros c Hc. unfold rfc_ok. rewrite Hc. exact I.
Qed.
Print Assumptions csv_rfc_roundtrip.

Theorem csv_rfc_format_roundtrip : forall aux fmt xs,
  fmt <> [] -> (forall qf, In qf fmt -> fst qf = QRfc) ->
  csv_read_rfc (csv_out aux fmt xs) = Some (plain_rows (csv_rows aux fmt xs)).
Proof. exact csv_out_rfc_format. Qed.
Print Assumptions csv_rfc_format_roundtrip.

(* ---- the DEFAULT csv format (Gen/CsvFormat.v, regenerated from report.h) ---- *)
(* its cells are the posting's date (post_t::date(): its own date or the transaction's, the
   auxiliary one under --aux-date), code, the posting's payee (post_t::payee(): a Payee tag overrides the
   transaction's), display account, commodity, quantity, state mark and the
   joined note, each wrapped by quoted() *)
Theorem csv_default_row_fields : forall aux x p,
  map snd (csv_cells aux src_csv_format x p) =
  [fmt_ymd (post_date aux x p); opt_str (x_code x); post_payee x p; display_account p;
   opt_str (a_sym (p_amount p)); a_qty (p_amount p); state_mark (eff_state x p);
   join_lines (post_note x p)].
Proof. intros aux x p. reflexivity. Qed.
Print Assumptions csv_default_row_fields.

Theorem csv_default_all_quoted : forall qf, In qf src_csv_format -> fst qf = QDefault.
Proof. apply all_quoter_dec. reflexivity. Qed.
Print Assumptions csv_default_all_quoted.

(* ---- join(), applied to the note column (report.cc fn_join; its chain of tests on the plain
   `char` loop variable is regenerated into Gen/JoinRule.v on every run and evaluated by the model
   on the signed value of the byte) ---- *)
Theorem join_rule_recognised : src_join_clauses <> [].
Proof. discriminate. Qed.
Print Assumptions join_rule_recognised.

(* join() changes nothing but line feeds: every other byte of the note - letters of any script,
   i.e. bytes >= 0x80, and control bytes as well - reaches the csv row as written *)
Theorem join_keeps_bytes : forall s, Forall byte s -> ~ In 10 s -> join_lines s = s.
Proof. exact join_keeps_bytes_lemma. Qed.
Print Assumptions join_keeps_bytes.

(* the joined note holds no line feed (one record per line) *)
Theorem join_one_line : forall s, Forall byte s -> ~ In 10 (join_lines s).
Proof. exact join_one_line_lemma. Qed.
Print Assumptions join_one_line.

(* a reader that takes the two characters backslash n for a line break recovers a note of
   several lines, provided the note has no backslash of its own *)
Theorem join_unjoin : forall s, Forall byte s -> ~ In 92 s -> unjoin (join_lines s) = s.
Proof. exact unjoin_join_lemma. Qed.
Print Assumptions join_unjoin.

(* with a backslash in the note the two are confused (join does not escape it) - stated, not a finding:
   the property speaks of field values, and a one-line note is recovered exactly (next theorem) *)
Theorem join_unjoin_refuted : exists s, Forall byte s /\ unjoin (join_lines s) <> s.
Proof. exists [92; 110]. split; [repeat constructor; unfold byte; lia|]. vm_compute. discriminate. Qed.
Print Assumptions join_unjoin_refuted.

(* the note cell of the DEFAULT csv row is the posting's note followed by the transaction's,
   byte for byte, whenever that text is a single line *)
Theorem csv_note_cell_faithful : forall aux x p,
  Forall byte (post_note x p) -> ~ In 10 (post_note x p) ->
  nth 7 (map snd (csv_cells aux src_csv_format x p)) [] = post_note x p.
Proof.
  intros aux x p Hb Hn. rewrite csv_default_row_fields. cbn [nth].
  apply join_keeps_bytes_lemma; assumption.
Qed.
Print Assumptions csv_note_cell_faithful.

(* the backslash-escape reader (escapechar = backslash, no quote doubling) recovers every row of
   the default csv report, WHATEVER the fields hold: quoted() writes a double quote as backslash
   dquote and a backslash as two backslashes *)
Theorem csv_default_roundtrip : forall aux xs,
  csv_read_bs (csv_out aux src_csv_format xs) = Some (plain_rows (csv_rows aux src_csv_format xs)).
Proof.
  intros aux xs. apply csv_out_default_bs; [discriminate|exact csv_default_all_quoted].
Qed.
Print Assumptions csv_default_roundtrip.

(* the same for any rows of cells written with quoted() *)
Theorem csv_quoted_roundtrip : forall rows,
  Forall (fun row => row <> [] /\ Forall (fun c => fst c = QDefault) row) rows ->
  csv_read_bs (csv_text rows) = Some (plain_rows rows).
Proof.
  intros rows H. apply csv_bs_read_lemma.
  eapply Forall_impl; [|exact H]. intros row [Hne Hq]. split; [exact Hne|].
  eapply Forall_impl; [|exact Hq]. intros c Hc. unfold bs_ok. rewrite Hc. exact I.
Qed.
Print Assumptions csv_quoted_roundtrip.

(* the other conventional reader, RFC 4180 (doubled quotes), recovers the default report when no
   field holds a double quote or a backslash ... *)
Theorem csv_default_roundtrip_rfc_partial : forall aux xs,
  (forall x p f, In x xs -> In p (x_posts x) ->
                 ~ In 34 (field_value aux x p f) /\ ~ In 92 (field_value aux x p f)) ->
  csv_read_rfc (csv_out aux src_csv_format xs) = Some (plain_rows (csv_rows aux src_csv_format xs)).
Proof.
  intros aux xs H. apply csv_out_default_rfc; [discriminate|exact csv_default_all_quoted|exact H].
Qed.
Print Assumptions csv_default_roundtrip_rfc_partial.

(* the hypothesis is satisfiable, and both readers then agree *)
Definition wit_amt : amt := mkAmt [36; 49] [80] (Some [36]) [49].
Definition wit_post : post := mkPost 2 0 0 [65; 58; 66] wit_amt None (Some [32; 110]) None None [] [].
Definition wit_xact (payee : str) : xact := mkXact 1 2020 1 2 None 1 (Some [99]) payee None [] [wit_post].

Example csv_default_clean_report :
  csv_read_rfc (csv_out false src_csv_format [wit_xact [80; 44; 59; 60]])
  = Some [[[50;48;50;48;47;48;49;47;48;50]; [99]; [80; 44; 59; 60]; [65; 58; 66]; [36]; [49]; [42]; [32; 110]]]
  /\ csv_read_bs (csv_out false src_csv_format [wit_xact [80; 44; 59; 60]])
     = csv_read_rfc (csv_out false src_csv_format [wit_xact [80; 44; 59; 60]]).
Proof. split; vm_compute; reflexivity. Qed.

(* the payee a dquote b backslash c, which no reader recovered before quoted() escaped the
   backslash, is recovered by the backslash reader *)
Example csv_default_hard_payee :
  csv_read_bs (csv_out false src_csv_format [wit_xact [97; 34; 98; 92; 99]])
  = Some [[[50;48;50;48;47;48;49;47;48;50]; [99]; [97; 34; 98; 92; 99]; [65; 58; 66]; [36]; [49]; [42]; [32; 110]]].
Proof. vm_compute. reflexivity. Qed.

(* ... but not in general: the default format is written for the backslash dialect, and the RFC
   4180 reader is refuted by a field with a double quote (it takes backslash dquote for the end of
   the cell) and by a field with a backslash (it reads both backslashes).  This is a statement
   about that reader, not a defect: the property asks for one conventional reader. *)
Theorem csv_default_refuted_rfc : exists xs,
  csv_read_rfc (csv_out false src_csv_format xs) <> Some (plain_rows (csv_rows false src_csv_format xs)).
Proof. exists [wit_xact [97; 34; 98]]. vm_compute. discriminate. Qed.      (* payee a dquote b *)
Print Assumptions csv_default_refuted_rfc.

Theorem csv_default_refuted_rfc_backslash : exists xs rows,
  csv_read_rfc (csv_out false src_csv_format xs) = Some rows /\
  rows <> plain_rows (csv_rows false src_csv_format xs).
Proof.
  exists [wit_xact [97; 92; 98]]. eexists. split; [vm_compute; reflexivity|].      (* payee a backslash b *)
  vm_compute. discriminate.
Qed.
Print Assumptions csv_default_refuted_rfc_backslash.
