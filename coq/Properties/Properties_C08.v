(* C08 - aggregate reports do not depend on input order or file layout.
   Property theorems only; proofs in Proofs/JournalProofs.v.
   acct_sum ps a c = exact sum in commodity c of the postings of ps to account a (lots
   stripped) = what `bal` shows for a (account_balance_is_sum); a transaction is STABLE with
   contribution f when what it adds to every account is f under every pool state and hash
   order; exactly balanced transactions without elided amounts are stable (the order-free
   fragment of the property; exactly_balanced_is_stable). *)
From LedgerV Require Import Base.Prelude Base.Round Model.Amount Model.Xact Model.Journal
  Proofs.AmountProofs Proofs.XactProofs Proofs.JournalProofs Proofs.CompareProofs Proofs.GainLossProofs
  Model.AmountText Proofs.AmountTextProofs Model.Subtotal Proofs.SubtotalProofs Model.Glob Proofs.GlobProofs Gen.GlobTable Gen.SourceGuards
  Model.Aliases Model.Layout Proofs.LayoutProofs Gen.LayoutScope.
From Coq Require Import Permutation.
Local Open Scope Q_scope.

Theorem account_balance_is_sum : forall ord acct c ps acc b,
  account_balance ord acct ps acc = Ok b -> den b c == den acc c + acct_sum ps acct c.
Proof. exact account_balance_exact. Qed.
Print Assumptions account_balance_is_sum.

Theorem account_balance_hash_order_free : forall acct c ps b b',
  account_balance false acct ps VVoid = Ok b -> account_balance true acct ps VVoid = Ok b' ->
  den b c == den b' c.
Proof. exact account_balance_order_free. Qed.
Print Assumptions account_balance_hash_order_free.

(* reordering the transactions of a journal changes no account's exact balance *)
Theorem balances_do_not_depend_on_transaction_order : forall ord ord' bucket
    (l l' : list ((list post) * (str -> option comm -> Q))) a c,
  (forall xf, In xf l -> stable bucket (fst xf) (snd xf)) ->
  Permutation l l' ->
  acct_sum (accepted_posts (run_journal ord bucket [] (map fst l))) a c ==
  acct_sum (accepted_posts (run_journal ord' bucket [] (map fst l'))) a c.
Proof. exact balances_perm_xacts. Qed.
Print Assumptions balances_do_not_depend_on_transaction_order.

Theorem exactly_balanced_is_stable : forall ps,
  wf_costs ps -> ps <> [] -> all_have_amounts ps ->
  (forall ord, exists bal, scan_posts ord ps 0 VVoid None = Ok (bal, None) /\ two_entries bal = false) ->
  (forall c, bsum ps c == 0) ->
  stable None ps (acct_sum ps).
Proof. exact exactly_balanced_stable. Qed.
Print Assumptions exactly_balanced_is_stable.

(* reordering the postings inside a transaction: still exactly balanced, same contributions *)
Theorem balances_do_not_depend_on_posting_order : forall ps qs,
  Permutation ps qs ->
  (forall c, bsum ps c == 0) ->
  (forall c, bsum qs c == 0) /\ (forall a c, acct_sum ps a c == acct_sum qs a c).
Proof. exact balances_perm_posts. Qed.
Print Assumptions balances_do_not_depend_on_posting_order.

(* commodity display precision is independent of the order in which amounts were seen *)
Theorem display_precision_independent_of_transaction_order : forall xs ys s,
  Forall (fun sp => (0 <= snd sp)%Z) (learned xs) ->
  Permutation xs ys ->
  pool_get (final_pool xs) s = pool_get (final_pool ys) s.
Proof. exact pool_order_free_xacts. Qed.
Print Assumptions display_precision_independent_of_transaction_order.

Theorem display_precision_independent_of_posting_order : forall pre x x' post s,
  Forall (fun sp => (0 <= snd sp)%Z) (learned (pre ++ x :: post)) ->
  Permutation x x' ->
  pool_get (final_pool (pre ++ x :: post)) s = pool_get (final_pool (pre ++ x' :: post)) s.
Proof. exact pool_order_free_posts. Qed.
Print Assumptions display_precision_independent_of_posting_order.

(* the display STYLE a commodity learns (symbol side, separating blank, thousands marks, decimal comma) is the union of
   the styles of the amounts seen - every amount contributes, whatever its precision - hence independent of their order
   (amount.cc parse(): commodity().add_flags(comm_flags), unconditionally) *)
Theorem display_style_independent_of_order : forall ci l l',
  Permutation l l' -> ci_style (learn_all ci l) = ci_style (learn_all ci l').
Proof. exact learn_all_style_perm. Qed.
Print Assumptions display_style_independent_of_order.

(* a commodity-less amount is displayed with its own precision; the precision of a sum of such amounts is the
   largest among the summands, so what an account shows does not depend on the order they arrived in *)
Theorem plain_sum_displayed_precision_order_free : forall a l a' l' r r',
  Forall plain (a :: l) -> Permutation (a :: l) (a' :: l') ->
  sum_from a l = Ok r -> sum_from a' l' = Ok r' -> aprec r = aprec r'.
Proof. exact plain_sum_precision_order_free. Qed.
Print Assumptions plain_sum_displayed_precision_order_free.

Example ex_plain_sum :
  let x := mkAmt (12505 # 10) 1 false None in let y := mkAmt (99125 # 1000) 3 false None in
  (match sum_from x [y] with Ok r => aprec r | _ => (-1)%Z end,
   match sum_from y [x] with Ok r => aprec r | _ => (-1)%Z end) = (3, 3)%Z.
Proof. vm_compute. reflexivity. Qed.

(* distributing the transactions over included files: same processing *)
Theorem include_two_files : forall ord bucket a b,
  process_files ord bucket [FInclude (map FXact a); FInclude (map FXact b)] =
  run_journal ord bucket [] (a ++ b).
Proof. exact include_split. Qed.
Print Assumptions include_two_files.

Theorem include_nested_file : forall ord bucket a b c,
  process_files ord bucket [FInclude (map FXact a ++ [FInclude (map FXact b)] ++ map FXact c)] =
  run_journal ord bucket [] (a ++ b ++ c).
Proof. exact include_nested. Qed.
Print Assumptions include_nested_file.

(* finding F11 (recorded, not repairable): OUTSIDE the exactly-balanced fragment acceptance
   itself depends on the order, because the display-zero test uses the precision learned so
   far:  a = `1 AAA @ $3.334 / $-3.33`,  b = `X $1.000 / Y $-1.000`;
   a then b: a is accepted;  b then a: a is rejected *)
Theorem acceptance_order_dependence_refuted :
  exists a b, (exists ps, nth 0 (run_journal false None [] [a; b]) (Err EOther) = Ok (Accepted ps)) /\
              nth 1 (run_journal false None [] [b; a]) (Err EOther) = Err EUnbalanced.
Proof.
  exists [mkPost [65%Z] PReal (Some (mkAmt 1 0 false (Some [65; 65; 65]%Z)))
                 (Some (mkAmt (3334 # 1000) 3 true (Some [36%Z]))) None false false false;
          mkPost [66%Z] PReal (Some (mkAmt (-333 # 100) 2 false (Some [36%Z]))) None None false false false].
  exists [mkPost [88%Z] PReal (Some (mkAmt 1 3 false (Some [36%Z]))) None None false false false;
          mkPost [89%Z] PReal (Some (mkAmt (-1) 3 false (Some [36%Z]))) None None false false false].
  split; [eexists; vm_compute; reflexivity | vm_compute; reflexivity].
Qed.
Print Assumptions acceptance_order_dependence_refuted.

(* repaired finding F65 (/repo c406784): whether a transaction's balance counts as "two commodities" (the implied
   conversion rate branch) is decided on the components that are not exactly zero - a component left behind by a
   commodity whose postings cancelled (posting order decides whether there is one) plays no part, and neither does the
   hash-table order *)
Theorem implied_rate_test_ignores_cancelled_components : forall b b',
  filter (fun a => negb (is_realzero a)) b = filter (fun a => negb (is_realzero a)) b' ->
  two_entries (VBal b) = two_entries (VBal b').
Proof. exact two_entries_ignores_zero_components. Qed.
Print Assumptions implied_rate_test_ignores_cancelled_components.

Theorem implied_rate_test_order_free : forall b b',
  Permutation b b' -> two_entries (VBal b) = two_entries (VBal b').
Proof. exact two_entries_perm. Qed.
Print Assumptions implied_rate_test_order_free.

(* aggregated registers: the date of a subtotal row (reg --subtotal, --by-payee, --dow: subtotal_posts::report_subtotal)
   is the earliest date of the postings gathered for it, its label shows the latest - in whatever order the postings
   arrive (Model/Subtotal.v transcribes the loop; the correspondence compares both dates of every group with ledger's rows) *)
Theorem subtotal_row_dates_are_earliest_and_latest : forall d ds,
  exists s f, date_range (d :: ds) = Some (s, f) /\ bounds s f (d :: ds).
Proof. exact date_range_is_min_max. Qed.
Print Assumptions subtotal_row_dates_are_earliest_and_latest.

Theorem subtotal_row_dates_order_free : forall ds ds', Permutation ds ds' -> date_range ds = date_range ds'.
Proof. exact date_range_order_free. Qed.
Print Assumptions subtotal_row_dates_order_free.

Theorem group_row_dates_order_free : forall label ps ps',
  Permutation ps ps' -> group_range label ps = group_range label ps'.
Proof. exact group_range_order_free. Qed.
Print Assumptions group_row_dates_order_free.

Example ex_subtotal_dates :
  (date_range [20210105; 20210310; 20210215] = Some (20210105, 20210310) /\
   date_range [20210310; 20210105; 20210215] = Some (20210105, 20210310) /\
   date_range [] = None)%Z.
Proof. exact range_examples. Qed.

(* files joined by `include`: the file-name part of the path is a glob (Model/Glob.v: `?` one byte, `*` any run, the
   empty one too, anything else itself).  A name without glob characters reads the file of exactly that name - no sibling
   whose name merely matches it as a regular expression (F161: `include f.dat` also read `fxdat`, `a+b.dat` could not be
   included; repaired in /repo); `PRE*POST` reads PRE ++ anything ++ POST, the bare PRE ++ POST included.  The
   translation mask_t::assign_glob performs is re-read on every run (Gen/GlobTable.v): `?` -> `.`, `*` -> `.*`, and the
   bytes . + ( ) | { } written with a backslash; the correspondence lays journals out over files named to match and to
   miss such patterns and compares what ledger reads with what the model says is read *)
Theorem plain_include_reads_exactly_that_file : forall pat name,
  no_glob_chars pat = true -> (include_matches pat name = true <-> name = pat).
Proof. exact plain_include_reads_that_file_only. Qed.
Print Assumptions plain_include_reads_exactly_that_file.

Theorem star_in_an_include_matches_any_run : forall a b m,
  gmatch (lits a ++ GStar :: lits b) (a ++ m ++ b) = true.
Proof. exact star_pattern_matches. Qed.
Print Assumptions star_in_an_include_matches_any_run.

Theorem star_in_an_include_matches_the_bare_name : forall a b,
  gmatch (lits a ++ GStar :: lits b) (a ++ b) = true.
Proof. exact star_pattern_matches_the_bare_name. Qed.
Print Assumptions star_in_an_include_matches_the_bare_name.

Theorem glob_translation_is_faithful :
  (src_glob_any = [46] /\ src_glob_star = [46; 42] /\
   forallb (fun c => existsb (Z.eqb c) src_glob_escaped) [46; 43; 40; 41; 124; 123; 125] = true)%Z.
Proof. vm_compute. repeat split. Qed.
Print Assumptions glob_translation_is_faithful.

Example ex_include_globs :
  (include_matches [116;120;42;46;100;97;116] [116;120;46;100;97;116] = true /\
   include_matches [116;120;42;46;100;97;116] [116;120;49;46;100;97;116] = true /\
   include_matches [116;120;42;46;100;97;116] [116;121;49;46;100;97;116] = false /\
   include_matches [102;46;100;97;116] [102;120;100;97;116] = false /\
   include_matches [112;63;46;100;97;116] [112;46;100;97;116] = false)%Z.
Proof. exact glob_examples. Qed.

(* the tie to the source by translation: the lines of /repo/src this model transcribes (harness/translators/src_guards.py
   lists them, with the function each is looked for in) are still there, in the same order, in the source as it is NOW -
   coq/Gen/SourceGuards.v is regenerated on every run and names the guards that are false *)
Theorem model_transcribes_current_source : forallb (fun b => b) src_guards_C08 = true.
Proof. vm_compute. reflexivity. Qed.
Print Assumptions model_transcribes_current_source.

(* ---- file layout in the presence of apply account / apply tag / alias / bucket (Model/Layout.v) ----
   Which state of the reader belongs to one FILE and which to the JOURNAL.  read_items pt l stk g reads the items l of a
   file whose apply stack is stk (pt: the tags in force in the files above), g being the journal-wide state (alias
   table, default account, error count); read_journal reads the files named on the command line.  The model computes
   with the numbers of Gen/LayoutScope.v (re-read from textual.cc on every run): the proofs below hold for the source
   as it is now, and stop compiling when `end apply` may remove the bottom entry of a file's stack, or an included
   file no longer starts from the including file's top account. *)

(* an `apply` left open in an included file ends with that file: the including file's stack is what it was *)
Theorem include_leaves_the_apply_stack_alone : forall pt items stk g,
  fst (fst (read_item pt (LInclude items) stk g)) = stk.
Proof. exact include_keeps_stack. Qed.
Print Assumptions include_leaves_the_apply_stack_alone.

(* an included file cannot end an `apply` of the file that includes it: its `end apply` is an error, nothing is popped *)
Theorem included_file_cannot_end_the_includers_apply : forall pt kind stk g,
  let r := read_item pt (LInclude [LEnd kind]) stk g in
  fst (fst r) = stk /\ g_errs (snd (fst r)) = S (g_errs g) /\ snd r = [].
Proof. exact included_end_cannot_reach_the_includer. Qed.
Print Assumptions included_file_cannot_end_the_includers_apply.

(* an alias and a default account declared in an included file stay in force after it (both are resolved under the
   account in force where they are declared) *)
Theorem alias_and_bucket_outlive_the_included_file : forall pt k t n stk g,
  str_eqb k (include_master stk ++ t) = false ->
  let r := read_item pt (LInclude [LAlias k t; LBucket n]) stk g in
  fst (fst r) = stk /\
  g_alias (snd (fst r)) = (k, top_account stk ++ t) :: g_alias g /\
  g_bucket (snd (fst r)) = Some (top_account stk ++ n).
Proof. exact alias_and_bucket_outlive_the_file. Qed.
Print Assumptions alias_and_bucket_outlive_the_included_file.

(* `apply account p` around an include reaches into the included file; the `apply account q` that file leaves open
   applies to its own transactions only; after `end apply account` the names are looked up under the master again *)
Theorem apply_account_reaches_into_an_included_file_and_ends_with_it : forall pt m p q names after bk,
  let g := mkG [] bk O in
  snd (read_items pt [LApplyAccount p; LInclude [LApplyAccount q; LXact names]; LXact after; LEnd (Some true); LXact after]
                  [EAcct m] g) =
  [mkRx (map (fun n => ((m ++ p) ++ q) ++ n) names) bk pt;
   mkRx (map (fun n => (m ++ p) ++ n) after) bk pt;
   mkRx (map (fun n => m ++ n) after) bk pt].
Proof. exact apply_account_reaches_included_file. Qed.
Print Assumptions apply_account_reaches_into_an_included_file_and_ends_with_it.

(* FILE LAYOUT: a piece b of a file that ends every `apply` it begins and no other (closed b) can be cut out into a
   file of its own, included at the place it stood - whatever directives (alias, bucket, apply .., nested includes,
   transactions) stand before it, in it and after it: every transaction is booked under the same accounts, with the same
   default account and the same tags, and the same errors are counted *)
Theorem cutting_a_closed_piece_into_an_included_file_changes_nothing : forall pt a b c stk g,
  stk <> [] -> closed b = true ->
  read_items pt (a ++ LInclude b :: c) stk g = read_items pt (a ++ b ++ c) stk g.
Proof. exact cut_into_include. Qed.
Print Assumptions cutting_a_closed_piece_into_an_included_file_changes_nothing.

(* ... and NOT a piece that leaves an `apply account` open: what follows the include is no longer under it *)
Theorem cutting_an_open_piece_refuted :
  exists b c, closed b = false /\
    snd (read_items [] (LInclude b :: c) [EAcct []] g0) <> snd (read_items [] (b ++ c) [EAcct []] g0).
Proof. exists [LApplyAccount [1%Z]], [LXact [[2%Z]]]. exact open_piece_witness. Qed.
Print Assumptions cutting_an_open_piece_refuted.

(* several files named on the command line (--file given several times) are read as ONE file including them in that
   order would be: alias table and default account carry over from one to the next, apply stacks do not *)
Theorem files_on_the_command_line_are_read_as_includes : forall master files g,
  read_files master files g =
  (let r := read_items [] (map LInclude files) [EAcct master] g in (snd (fst r), snd r)).
Proof. exact files_are_includes. Qed.
Print Assumptions files_on_the_command_line_are_read_as_includes.

(* the static tie: the lines of textual.cc / journal.cc that decide what belongs to a file and what to the journal,
   as harness/translators/c08_layout_scope.py reads them NOW *)
Theorem layout_scope_is_the_sources :
  (src_end_apply_keep = 1 /\ src_eof_keep = 1 /\ src_include_master = 1 /\ src_file_master = 1 /\
   src_lookup_own_first = 1 /\ src_tags_own_then_parent = 1 /\ src_alias_in_journal = 1 /\
   src_bucket_in_journal = 1 /\ src_apply_account_nests = 1 /\ src_post_under_top = 1)%Z.
Proof. vm_compute. repeat split. Qed.
Print Assumptions layout_scope_is_the_sources.

Example ex_layout :
  (read_journal [] [[LApplyAccount [7]; LInclude [LApplyAccount [8]; LAlias [5] [6; 4]; LBucket [9]]; LEnd None;
                    LXact [[5; 3]; [2]]]] =
  (mkG [([5], [7; 8; 6; 4])] (Some [7; 8; 9]) O, [mkRx [[7; 8; 6; 4; 3]; [2]] (Some [7; 8; 9]) []]) /\
  snd (read_journal [] [[LApplyAccount [7]]; [LXact [[2]]]]) = [mkRx [[2]] None []] /\
  snd (read_journal [] [[LApplyAccount [7]; LInclude [LXact [[2]]]]]) = [mkRx [[7; 2]] None []] /\
  snd (read_journal [1] [[LApplyTag 30; LInclude [LApplyTag 31; LXact [[2]]]; LXact [[2]]]]) =
    [mkRx [[1; 2]] None [31; 30]; mkRx [[1; 2]] None [30]])%Z.
Proof. exact layout_examples. Qed.
