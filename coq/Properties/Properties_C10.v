(* C10 - market valuation uses the most recent price not after the valuation date.
   Property theorems only; proofs are in Proofs/PricesProofs.v.
   `h` is the price history: every recorded price (from `P` lines and posting costs) in
   insertion order; `build h` the price graph ledger keeps (one price map per commodity
   pair); `edge_point g a b D` the price point the graph offers for the pair a-b at the
   valuation moment D; `pair_entries h a b` the recorded (moment, price) observations that
   quote a in b or b in a, in insertion order; `find_price g s t D` the conversion rate of
   -X; `spath g D [] s t p` says p is a simple path s -> t through pairs that have a price
   point at D, `at_most_one_path` that there is no second one (the property's quantifier:
   an edge, a reversed edge, a simple chain). *)
From LedgerV Require Import Base.Prelude Gen.PriceMemo Gen.CostDate Gen.PercentExpr Gen.FindPriceDispatch Gen.PathWeight Model.Prices Proofs.PricesProofs Proofs.PricePathProofs.
Local Open Scope Z_scope.

(* ---- which entry an edge offers: the latest not after D, the later insertion winning a tie ---- *)
Theorem edge_latest_not_after : forall h a b D w p,
  edge_point (build h) a b D = Some (w, p) <->
  exists l1 l2, pair_entries h a b = l1 ++ (w, p) :: l2 /\ w <= D /\
    (forall w' p', In (w', p') l1 -> w' <= D -> w' <= w) /\
    (forall w' p', In (w', p') l2 -> w' <= D -> w' < w).
Proof. intros. rewrite edge_point_build. apply latest_spec. Qed.
Print Assumptions edge_latest_not_after.

Theorem edge_none_iff_all_later : forall h a b D,
  edge_point (build h) a b D = None <-> (forall w p, In (w, p) (pair_entries h a b) -> D < w).
Proof. intros. rewrite edge_point_build. apply latest_none. Qed.
Print Assumptions edge_none_iff_all_later.

Theorem edge_is_undirected : forall g a b D, edge_point g a b D = edge_point g b a D.
Proof. exact edge_point_sym. Qed.
Print Assumptions edge_is_undirected.

(* the price map itself: insertion keeps the map strictly ascending, and the lookup
   (upper_bound, step back) is the incremental "newest not after D" *)
Theorem price_map_lookup_is_latest : forall l D, pm_recent (pm_of l) D = latest l D.
Proof. exact recent_pm_of. Qed.
Print Assumptions price_map_lookup_is_latest.

(* ---- prices dated after D never influence the result, however they are interleaved ---- *)
Theorem future_irrelevant_edge : forall h h' a b D,
  filter (entry_not_after D) h = filter (entry_not_after D) h' ->
  edge_point (build h) a b D = edge_point (build h') a b D.
Proof. exact edge_point_future. Qed.
Print Assumptions future_irrelevant_edge.

Theorem future_irrelevant : forall h h' D s t,
  filter (entry_not_after D) h = filter (entry_not_after D) h' ->
  at_most_one_path (build h) D s t ->
  find_price (build h) s t D = find_price (build h') s t D.
Proof. exact find_price_future. Qed.
Print Assumptions future_irrelevant.

(* ---- direct quote, reversed quote, chain ---- *)
Theorem direct_is_quote : forall h D s t w p,
  s <> t -> edge_point (build h) s t D = Some (w, p) -> pc p = t ->
  at_most_one_path (build h) D s t ->
  exists r, find_price (build h) s t D = Some r /\ pc r = t /\ (pq r == pq p)%Q.
Proof. exact direct_quote. Qed.
Print Assumptions direct_is_quote.

Theorem reverse_is_reciprocal : forall h D s t w p,
  s <> t -> edge_point (build h) s t D = Some (w, p) -> pc p = s ->
  at_most_one_path (build h) D s t ->
  exists r, find_price (build h) s t D = Some r /\ pc r = t /\ (pq r == / pq p)%Q.
Proof. exact reverse_quote. Qed.
Print Assumptions reverse_is_reciprocal.

Theorem chain_is_product : forall h D s t p,
  s <> t -> spath (build h) D [] s t p -> at_most_one_path (build h) D s t ->
  exists r, find_price (build h) s t D = Some r /\ pc r = t /\ (pq r == path_product p)%Q.
Proof. exact chain_product. Qed.
Print Assumptions chain_is_product.

(* every step of a path carries its own pair's latest entry not after D; its factor is the
   quote when it is expressed in the commodity stepped to, the reciprocal otherwise *)
Theorem chain_steps_use_latest : forall g D s t p,
  spath g D [] s t p ->
  Forall (fun st => edge_point g (s_from st) (s_to st) D = Some (s_pt st)) p.
Proof. intros g D s t p. apply spath_steps. Qed.
Print Assumptions chain_steps_use_latest.

Theorem step_factor : forall st,
  factor st = if comm_eqb (pc (snd (s_pt st))) (s_to st) then pq (snd (s_pt st))
              else Qinv (pq (snd (s_pt st))).
Proof. reflexivity. Qed.
Print Assumptions step_factor.

Theorem no_path_no_price : forall h D s t,
  find_price (build h) s t D = None <-> s = t \/ (forall p, ~ spath (build h) D [] s t p).
Proof. intros. apply find_price_none. apply wf_build. Qed.
Print Assumptions no_path_no_price.

Theorem unique_path_decidable_by_enumeration : forall h D s t,
  (length (paths (2 * length (build h)) (build h) D [] s t) <= 1)%nat ->
  at_most_one_path (build h) D s t.
Proof. intros. apply at_most_one_by_enumeration; [apply wf_build | assumption]. Qed.
Print Assumptions unique_path_decidable_by_enumeration.

(* ---- the converted amount is exactly price times quantity; no price, no conversion ---- *)
Theorem value_exact : forall g prim a t D q c,
  hc a <> t -> value g prim a (Some t) D = Some (q, c) ->
  exists p, find_price g (hc a) t D = Some p /\ c = pc p /\ (q == pq p * hq a)%Q.
Proof. exact value_exact. Qed.
Print Assumptions value_exact.

Theorem priced_converted : forall g prim a t D p,
  hc a <> t -> find_price g (hc a) t D = Some p ->
  snd (convert g prim a (Some t) D) = t /\ (fst (convert g prim a (Some t) D) == pq p * hq a)%Q.
Proof. exact convert_priced. Qed.
Print Assumptions priced_converted.

Theorem no_price_unconverted : forall g prim a t D,
  hc a <> t -> find_price g (hc a) t D = None ->
  convert g prim a (Some t) D = (Qred (hq a), hc a).
Proof. exact convert_unpriced. Qed.
Print Assumptions no_price_unconverted.

Theorem target_commodity_unchanged : forall g prim a D,
  convert g prim a (Some (hc a)) D = (Qred (hq a), hc a).
Proof. exact convert_same. Qed.
Print Assumptions target_commodity_unchanged.

(* ---- -V: the most recent point among the priced pairs of the commodity ---- *)
Theorem nearest_is_most_recent : forall g src D w p o,
  nearest g src D None = Some (w, p, o) ->
  (exists e, In e g /\ other_end e src = Some o /\ pm_recent (em e) D = Some (w, p)) /\
  (forall e o' w' p', In e g -> other_end e src = Some o' ->
                      pm_recent (em e) D = Some (w', p') -> w' <= w).
Proof. exact nearest_most_recent. Qed.
Print Assumptions nearest_is_most_recent.

(* ---- a price taken from a posting cost is dated by the TRANSACTION ---- *)
Theorem cost_price_date_source : finalize_cost_date = CostXactDate.
Proof. exact cost_dated_by_xact. Qed.
Print Assumptions cost_price_date_source.

Theorem cost_price_dated_by_transaction : forall d aq ac total cq cc virt e,
  entry_of (ICost d aq ac total cq cc virt) = Some e -> e_when e = midnight (x_prim d).
Proof. exact cost_entry_when. Qed.
Print Assumptions cost_price_dated_by_transaction.

Theorem implied_price_dated_by_transaction : forall d xq xc yq yc e,
  entry_of (IImplied d xq xc yq yc) = Some e -> e_when e = midnight (x_prim d).
Proof. exact implied_entry_when. Qed.
Print Assumptions implied_price_dated_by_transaction.

Theorem posting_dates_do_not_move_a_cost_price : forall xp xa pp pa pp' pa' aq ac total cq cc virt,
  entry_of (ICost (mkDates xp xa pp pa) aq ac total cq cc virt) =
  entry_of (ICost (mkDates xp xa pp' pa') aq ac total cq cc virt).
Proof. exact cost_entry_ignores_posting_dates. Qed.
Print Assumptions posting_dates_do_not_move_a_cost_price.

(* ---- --percent: a share is the quotient of two valuations made by the same rule ---- *)
Theorem percent_market_calls_targeted :
  percent_numerator_targeted = true /\ percent_denominator_targeted = true /\
  immediate_amount_targeted = true.
Proof. exact percent_calls_targeted. Qed.
Print Assumptions percent_market_calls_targeted.

Theorem percent_uses_one_valuation : forall l held pheld tgt D,
  percent_row l held pheld tgt D = percent_of (bal_row l held tgt D) (bal_row l pheld tgt D).
Proof. exact percent_row_same_rule. Qed.
Print Assumptions percent_uses_one_valuation.

Theorem percent_is_quotient_of_values : forall l held pheld t D cn qn cd qd,
  bal_row l held (Some t) D = [(cn, qn)] -> bal_row l pheld (Some t) D = [(cd, qd)] ->
  exists q, percent_row l held pheld (Some t) D = PVal q /\ (q == 100 * qn / qd)%Q.
Proof. exact percent_row_quotient. Qed.
Print Assumptions percent_is_quotient_of_values.

(* ---- -V: the target is the default commodity when one is declared ---- *)
Theorem find_price_dispatches_on_target :
  find_price_dispatch_recognised = true /\ find_price_dispatch_on_target = true.
Proof. exact dispatch_on_target. Qed.
Print Assumptions find_price_dispatches_on_target.

Theorem lookup_target_defaults : forall g dflt src commodity D,
  lookup g dflt src commodity D =
  match (match commodity with Some c => Some c | None => dflt end) with
  | Some t => find_price g src t D
  | None => find_price_any g src D
  end.
Proof. exact lookup_spec. Qed.
Print Assumptions lookup_target_defaults.

Theorem V_with_default_commodity_is_X : forall g prims t a D,
  mem (hc a) prims = false -> hlot a = None -> hc a <> t ->
  value g (mkCtx prims (Some t)) a None D = value g (mkCtx prims (Some t)) a (Some t) D.
Proof. exact value_V_default. Qed.
Print Assumptions V_with_default_commodity_is_X.

Theorem V_without_default_uses_nearest_quote : forall g prims a D,
  mem (hc a) prims = false -> hlot a = None ->
  value g (mkCtx prims None) a None D =
  match find_price_any g (hc a) D with
  | Some p => Some (Qred (pq p * hq a), pc p)
  | None => None
  end.
Proof. exact value_V_plain. Qed.
Print Assumptions V_without_default_uses_nearest_quote.

(* ---- the memo of commodity_t::find_price ---- *)
(* Recording a price clears every commodity's memo (commodity.cc:62-66): memoised lookups
   answer exactly what plain lookups answer, for every interleaving of lookups and recordings. *)
Theorem recorded_price_clears_every_memo :
  add_price_clears_every_memo = true /\ remove_price_clears_every_memo = true.
Proof. exact every_memo_cleared. Qed.
Print Assumptions recorded_price_clears_every_memo.

Theorem memo_transparent : forall g ops,
  fst (run_ops (mkState g []) ops) = plain_ops g ops.
Proof. exact run_ops_transparent. Qed.
Print Assumptions memo_transparent.

(* at the level of a report: a journal in which expressions evaluated while it is read look
   prices up (JLook) shows under -X what the same journal without those lookups shows *)
Theorem parse_time_lookups_invisible : forall l held t D,
  bal_row_memo l held t D = bal_row (items_of l) held (Some t) D.
Proof. exact bal_row_memo_plain. Qed.
Print Assumptions parse_time_lookups_invisible.

(* Before /repo commit abcbc62 recording a price cleared only the memo of the commodity the
   price was FOR, and the statement above was false of that code: with
     [OFind BBB AAA 100; OAdd (AAA costs 3 BBB at 50); OFind BBB AAA 100]
   the memoised session answered [None; None], the plain one [None; Some (1/3 AAA)]. *)
Definition cA : comm := [65; 65; 65].
Definition cB : comm := [66; 66; 66].
Definition cC : comm := [67; 67; 67].

(* ---- the hypotheses are satisfiable: a chain AAA -> BBB -> CCC with a tie and a future price ---- *)
Definition ex_h : history :=
  [mkEntry 20 cA (mkPrice (3 # 1) cB); mkEntry 20 cA (mkPrice (7 # 2) cB);
   mkEntry 10 cC (mkPrice (1 # 4) cB); mkEntry 90 cA (mkPrice (9 # 1) cB)].

Example ex_unique : at_most_one_path (build ex_h) 50 cA cC.
Proof. apply unique_path_decidable_by_enumeration. vm_compute. lia. Qed.

Example ex_edge : edge_point (build ex_h) cA cB 50 = Some (20, mkPrice (7 # 2) cB).
Proof. vm_compute. reflexivity. Qed.

Example ex_chain : find_price (build ex_h) cA cC 50 = Some (mkPrice (14 # 1) cC).
Proof. vm_compute. reflexivity. Qed.

Example ex_before : find_price (build ex_h) cA cC 15 = None.
Proof. vm_compute. reflexivity. Qed.

(* ==== several price paths between two commodities (history.cc:435-546) ====
   `find_price_via g s t D oldest` is the targeted lookup over a graph in which s and t may be
   joined by several simple paths; `via_path g D oldest s t p` says p is a simple path s -> t of
   the FILTERED graph (every pair on it has a price not after D and, when `oldest` is given, its
   latest such price is not before `oldest`); `path_weight D p` is the distance Dijkstra assigns
   to t along p, `step_age D st` = D - (moment of the step's price). *)

(* the facts about history.cc the statements rest on, re-read on every run (Gen/PathWeight.v):
   the weight of an edge is the age of its latest usable price, distances are combined with max,
   the smaller distance wins *)
Theorem path_weight_source_facts :
  dijkstra_combine = CombineMax /\ edge_weight_is_age = true /\ smaller_weight_wins = true.
Proof. exact path_weight_facts. Qed.
Print Assumptions path_weight_source_facts.

(* the weight of a path is the age of its stalest price *)
Theorem path_weight_is_stalest_age : forall g D vis cur tgt p,
  spath g D vis cur tgt p -> p <> [] ->
  (exists st, In st p /\ path_weight D p = step_age D st) /\
  (forall st, In st p -> step_age D st <= path_weight D p).
Proof. exact spath_weight_is_max_age. Qed.
Print Assumptions path_weight_is_stalest_age.

(* what a successful lookup returns: the product, along a simple path of the filtered graph, of
   each pair's latest price not after D (reciprocal where the quote runs the other way), dated
   by the oldest price used; and no simple path of the filtered graph is lighter *)
Theorem via_rate_is_product_along_a_lightest_path : forall h D oldest s t w pr,
  find_price_via (build h) s t D oldest = Some (w, pr) ->
  s <> t /\ exists p, via_path (build h) D oldest s t p /\
    pc pr = t /\ (pq pr == path_product p)%Q /\
    Forall (fun st => edge_point (build h) (s_from st) (s_to st) D = Some (s_pt st)) p /\
    (forall q, via_path (build h) D oldest s t q -> path_weight D p <= path_weight D q) /\
    (forall st, In st p -> w <= step_when st) /\ (exists st, In st p /\ w = step_when st).
Proof. exact via_rate_product. Qed.
Print Assumptions via_rate_is_product_along_a_lightest_path.

Theorem via_no_path_no_price : forall h D oldest s t,
  find_price_via (build h) s t D oldest = None <->
  s = t \/ (forall p, ~ via_path (build h) D oldest s t p).
Proof. intros. apply find_price_via_none. apply wf_build. Qed.
Print Assumptions via_no_path_no_price.

(* a path strictly lighter than every other one is the one taken, whatever the order in which
   the pairs were first quoted (the tie-free case, the one compared with ledger) *)
Theorem via_takes_the_strictly_lightest_path : forall h D oldest s t p,
  s <> t -> via_path (build h) D oldest s t p ->
  (forall q, via_path (build h) D oldest s t q -> path_weight D q <= path_weight D p -> q = p) ->
  exists w pr, find_price_via (build h) s t D oldest = Some (w, pr) /\ pc pr = t /\
    (pq pr == path_product p)%Q.
Proof. exact via_strictly_lightest. Qed.
Print Assumptions via_takes_the_strictly_lightest_path.

(* `via_tie` = false certifies that case *)
Theorem via_no_tie_means_strictly_lightest : forall h D oldest s t w pr,
  via_tie (build h) s t D oldest = false ->
  find_price_via (build h) s t D oldest = Some (w, pr) ->
  exists p, via_path (build h) D oldest s t p /\ pr = mkPrice (Qred (path_q p)) t /\
    forall q, via_path (build h) D oldest s t q -> q <> p -> path_weight D p < path_weight D q.
Proof. intros h D oldest s t w pr. apply via_no_tie_strict. apply wf_build. Qed.
Print Assumptions via_no_tie_means_strictly_lightest.

(* with a unique path it is the lookup of the property's quantifier *)
Theorem via_unique_path_is_find_price : forall h D s t,
  at_most_one_path (build h) D s t ->
  option_map snd (find_price_via (build h) s t D None) = find_price (build h) s t D.
Proof. intros. apply find_price_via_unique_path; [apply wf_build | assumption]. Qed.
Print Assumptions via_unique_path_is_find_price.

Theorem via_unique_path_same_conversion : forall h prim a t D,
  at_most_one_path (build h) D (hc a) t ->
  convert_via (build h) a t D = convert (build h) prim a (Some t) D.
Proof. intros. apply convert_via_unique_path; [apply wf_build | assumption]. Qed.
Print Assumptions via_unique_path_same_conversion.

(* without `oldest` the filtered graph is the one of the unique-path theorems *)
Theorem via_path_without_oldest : forall g D s t p, via_path g D None s t p <-> spath g D [] s t p.
Proof. exact via_path_no_oldest. Qed.
Print Assumptions via_path_without_oldest.

(* ---- satisfiable: a triangle AAA-CCC (stale direct quote, day 10) vs AAA-BBB-CCC (days 40, 45):
   at D = 50 the two-hop path is taken (weight 10 < 40); at D = 42 only AAA-BBB and the direct
   quote are usable and the direct quote is taken; with oldest = 20 the direct quote is out of range ---- *)
Definition ex_tri : history :=
  [mkEntry 10 cA (mkPrice (100 # 1) cC); mkEntry 40 cA (mkPrice (2 # 1) cB);
   mkEntry 45 cC (mkPrice (1 # 4) cB)].

Example ex_tri_fresh : find_price_via (build ex_tri) cA cC 50 None = Some (40, mkPrice (8 # 1) cC).
Proof. vm_compute. reflexivity. Qed.

Example ex_tri_direct : find_price_via (build ex_tri) cA cC 42 None = Some (10, mkPrice (100 # 1) cC).
Proof. vm_compute. reflexivity. Qed.

Example ex_tri_no_tie : via_tie (build ex_tri) cA cC 50 None = false.
Proof. vm_compute. reflexivity. Qed.

Example ex_tri_oldest : find_price_via (build ex_tri) cA cC 42 (Some 20) = None.
Proof. vm_compute. reflexivity. Qed.

Example ex_tri_two_paths : length (candidates (build ex_tri) 50 None cA cC) = 2%nat.
Proof. vm_compute. reflexivity. Qed.

(* the unique-path lookup (first path in creation order) would answer otherwise: the hypothesis of
   the unique-path theorems really is needed there *)
Example ex_tri_first_path : find_price (build ex_tri) cA cC 50 = Some (mkPrice (100 # 1) cC).
Proof. vm_compute. reflexivity. Qed.
