From LedgerV Require Import Base.Prelude Base.Round Model.Amount Model.Expr Proofs.ExprProofs.
Theorem placeholder : True. Proof. exact I. Qed.
Print Assumptions placeholder.
