(* C15 - value expressions evaluate as written and survive printing.
   Property theorems only; proofs are in Proofs/ExprProofs.v.
   `calc ord cp n tbl sc t` evaluates the op tree t with fuel n, session symbols tbl and the
   lambda arguments sc; `compile` is op_t::compile; `parse`/`print` work on token lists.
   `ord` (hash-table order of balances) and `cp` (commodity display precision) are arbitrary. *)
From LedgerV Require Import Base.Prelude Base.Round Model.Amount Model.Expr Proofs.ExprProofs Proofs.ParserProofs
  Model.AmountText Model.ExprLex Proofs.ExprLexProofs Gen.TokenWords Gen.IdentCapture.
Local Open Scope Z_scope.

(* ---- the parser implements the documented precedence grammar ----
   aexpr is the abstract syntax (literals, identifiers, unary - and !, the twelve binary
   operators, ?:); `tree e` is the op tree the grammar assigns to e; `show_min e` writes e with
   the fewest parentheses under: unary - ! > * / > + - > comparisons > & > | > ?:, binary
   operators left-associative; `R 0 e ts` says ts is ANY admissible way of writing e (that
   minimum, plus redundant parentheses anywhere, plus either token of an operator that has
   two: `/` and `div`).  wfv: literals are amounts or booleans.  For all e, with enough fuel: *)
Theorem parse_show_min : forall cp e,
  wfv e -> exists n0, forall n, (n0 <= n)%nat -> parse cp n (show_min e) = Ok (Some (tree cp e)).
Proof. exact parse_show_min_all. Qed.
Print Assumptions parse_show_min.

Theorem parentheses_override_and_are_harmless : forall cp e ts,
  R 0 e ts -> wfv e ->
  exists n0, forall n, (n0 <= n)%nat -> parse cp n ts = Ok (Some (tree cp e)).
Proof. exact rendering_parses. Qed.
Print Assumptions parentheses_override_and_are_harmless.

(* the fuel is monotone: more fuel never changes a result *)
Theorem parser_fuel_monotone : forall cp n ts r,
  parse_value_expr cp n false ts = Ok r -> forall m, (n <= m)%nat -> parse_value_expr cp m false ts = Ok r.
Proof. intros cp n ts r H m Hm. exact (mono_at cp 0 n m ts r H Hm). Qed.
Print Assumptions parser_fuel_monotone.

(* non-vacuity and the shape of the statement on an example: 1 - 2 - 3 * - x < 4 & ! y | z *)
Example show_min_example :
  let one := AVal (w_num 1) in let two := AVal (w_num 2) in let three := AVal (w_num 3) in
  let e := ABin BOr (ABin BAnd (ABin BLt (ABin BSub (ABin BSub one two) (ABin BMul three (ANeg (AId [120]))))
                                          (AVal (w_num 4)))
                               (ANot (AId [121])))
                    (AId [122]) in
  wfv e /\
  show_min e = [TVal (w_num 1); TMinus; TVal (w_num 2); TMinus; TVal (w_num 3); TStar; TMinus; TIdent [120];
                TLess; TVal (w_num 4); TAnd; TExclam; TIdent [121]; TOr; TIdent [122]] /\
  parse w_cp (parse_fuel (show_min e)) (show_min e) = Ok (Some (tree w_cp e)) /\
  (* right-nested operands need their parentheses: 1 - (2 - 3) *)
  show_min (ABin BSub one (ABin BSub two three)) =
    [TVal (w_num 1); TMinus; TLParen; TVal (w_num 2); TMinus; TVal (w_num 3); TRParen].
Proof.
  intros one two three e. split.
  { unfold e, one, two, three, w_num. cbn [wfv]. repeat split; discriminate. }
  split; [vm_compute; reflexivity|]. split; vm_compute; reflexivity.
Qed.

(* ---- print_parse: op_t::print output (fully parenthesised, a conditional as (c ? a : b))
   parses back to the same tree - hence to the same value.  `normal`: literals carry their own
   sign, as in every tree the parser builds. ---- *)
Theorem print_parse : forall cp e,
  wfv e -> normal cp e ->
  exists n0, forall n, (n0 <= n)%nat -> parse cp n (print (tree cp e)) = Ok (Some (tree cp e)).
Proof. exact print_parse_roundtrip. Qed.
Print Assumptions print_parse.

(* 1 < 2 ? 3 : 4 prints as ((1 < 2) ? 3 : 4) and parses back (the witness of the former F6) *)
Example conditional_print_parses_back :
  exists t, parse w_cp (parse_fuel w_ternary) w_ternary = Ok (Some t) /\
            parse w_cp (parse_fuel (print t)) (print t) = Ok (Some t) /\
            run false w_cp [] w_ternary = Ok (Some (XV (w_num 3))).
Proof. destruct ternary_print_parses_back as (t & H1 & _ & H3 & H4). exists t. split; [exact H1|]. split; [exact H3|exact H4]. Qed.

(* ---- calc_spec: and/or short-circuit, ?: evaluates one branch, operators are value_t's ---- *)
Theorem and_short_circuits : forall ord cp n tbl sc l r x,
  calc ord cp n tbl sc l = Ok x -> x_truth cp x = false ->
  calc ord cp (S n) tbl sc (OBin KAnd l (Some r)) = Ok (XV (VBool false)).
Proof. exact and_short_circuit. Qed.
Print Assumptions and_short_circuits.

Theorem or_short_circuits : forall ord cp n tbl sc l r x,
  calc ord cp n tbl sc l = Ok x -> x_truth cp x = true ->
  calc ord cp (S n) tbl sc (OBin KOr l (Some r)) = Ok x.
Proof. exact or_short_circuit. Qed.
Print Assumptions or_short_circuits.

Theorem and_true_is_right_operand : forall ord cp n tbl sc l r x,
  calc ord cp n tbl sc l = Ok x -> x_truth cp x = true ->
  calc ord cp (S n) tbl sc (OBin KAnd l (Some r)) = calc ord cp n tbl sc r.
Proof. exact and_evaluates_right. Qed.
Print Assumptions and_true_is_right_operand.

Theorem or_false_is_right_operand : forall ord cp n tbl sc l r x,
  calc ord cp n tbl sc l = Ok x -> x_truth cp x = false ->
  calc ord cp (S n) tbl sc (OBin KOr l (Some r)) = calc ord cp n tbl sc r.
Proof. exact or_evaluates_right. Qed.
Print Assumptions or_false_is_right_operand.

Theorem conditional_evaluates_one_branch : forall ord cp n tbl sc c a b x,
  calc ord cp n tbl sc c = Ok x ->
  calc ord cp (S n) tbl sc (OBin KQuery c (Some (OBin KColon a (Some b)))) =
  if x_truth cp x then calc ord cp n tbl sc a else calc ord cp n tbl sc b.
Proof. exact query_one_branch. Qed.
Print Assumptions conditional_evaluates_one_branch.

Theorem operators_are_value_cells : forall ord cp n tbl sc k l r v w,
  is_arith k = true ->
  calc ord cp n tbl sc l = Ok (XV v) -> calc ord cp n tbl sc r = Ok (XV w) ->
  calc ord cp (S n) tbl sc (OBin k l (Some r)) = do z <- arith ord cp k v w; Ok (XV z).
Proof. exact calc_arith_values. Qed.
Print Assumptions operators_are_value_cells.

(* ---- scoping: identifiers are bound where they are compiled ---- *)
Theorem scoping_static_resolution : forall ord cp n m tbl ps s d tbl2 sc,
  in_names s ps = false -> builtin_of s = None -> lookup s tbl = Some d -> d <> OPlug ->
  exists t, compile ord cp (S n) tbl ps (OIdent s None) = Ok (mkC t true tbl) /\
            calc ord cp (S m) tbl2 sc t = calc ord cp m tbl2 sc d.
Proof. exact closure_keeps_definition. Qed.
Print Assumptions scoping_static_resolution.

Theorem definition_enters_table : forall ord cp n tbl ps s d0 body c,
  compile ord cp n tbl ps body = Ok c ->
  compile ord cp (S n) tbl ps (OBin KDefine (OIdent s d0) (Some body)) =
  Ok (mkC (OValue VVoid) true ((s, c_op c) :: c_tbl c)).
Proof. exact compile_define_var. Qed.
Print Assumptions definition_enters_table.

(* ---- parameters shadow: inside a lambda - however deeply nested - a name that is a parameter
   of it or of an enclosing lambda is a parameter reference, whatever variable, function or
   built-in of that name exists outside; and its value is the innermost binding. ---- *)
Theorem nested_lambda_sees_enclosing_parameters : forall ord cp n tbl ps l body,
  compile ord cp (S n) tbl ps (OBin KLambda l (Some body)) =
  do names <- param_names n (Some l);
  do c <- compile ord cp n tbl (names ++ ps) body;
  if c_changed c then Ok (mkC (OBin KLambda l (Some (c_op c))) true (c_tbl c))
  else Ok (mkC (OBin KLambda l (Some body)) false (c_tbl c)).
Proof. exact compile_lambda_eq. Qed.
Print Assumptions nested_lambda_sees_enclosing_parameters.

Theorem parameter_shadows_outer_definitions : forall ord cp n tbl names ps s,
  in_names s names || in_names s ps = true ->
  compile ord cp (S n) tbl (names ++ ps) (OIdent s None) = Ok (mkC (OIdent s (Some OPlug)) true tbl).
Proof. exact param_reference_compiles. Qed.
Print Assumptions parameter_shadows_outer_definitions.

Theorem parameter_value_is_innermost_binding : forall ord cp n tbl inner outer s,
  (forall x, lookup s inner = Some x ->
     calc ord cp (S n) tbl (inner ++ outer) (OIdent s (Some OPlug)) = Ok x) /\
  (forall x, lookup s inner = None -> lookup s outer = Some x ->
     calc ord cp (S n) tbl (inner ++ outer) (OIdent s (Some OPlug)) = Ok x).
Proof. intros. split; intros x; [apply param_reference_innermost | apply param_reference_outer]. Qed.
Print Assumptions parameter_value_is_innermost_binding.

(* vx = 10; fn = (vx -> (vy -> vx + vy)(1)); fn(5) is 6 *)
Example shadowing_example : run false w_cp [] w_shadow = Ok (Some (XV (w_num 6))).
Proof. vm_compute. reflexivity. Qed.

(* ---- references to user-defined functions are bound where they are written (round 9).
   `f(params) = body` enters a LAMBDA under f in the symbol table, newest first ... ---- *)
Theorem function_definition_enters_table : forall ord cp n tbl ps f d0 params body c,
  compile ord cp n tbl ps (OBin KLambda (match params with Some p => p | None => OPlug end) (Some body)) = Ok c ->
  compile ord cp (S n) tbl ps (OBin KDefine (OBin KCall (OIdent f d0) params) (Some body)) =
    Ok (mkC (OValue VVoid) true ((f, c_op c) :: c_tbl c)) /\
  exists body', c_op c = OBin KLambda (match params with Some p => p | None => OPlug end) (Some body').
Proof.
  intros ord cp n tbl ps f d0 params body c H. split;
    [exact (compile_define_fun ord cp n tbl ps f d0 params body c H)|exact (compiled_lambda_is_lambda ord cp n tbl ps _ body c H)].
Qed.
Print Assumptions function_definition_enters_table.

(* ... and an identifier compiled while s names the function `l -> b` (s not a parameter in scope, not a built-in) IS that
   function from then on: looking up what a call through it calls gives `l -> b`, and the call is the call of `l -> b`,
   under ANY later symbol table tbl2 (s defined again after the reference was written) and in ANY argument frame sc (the
   reference sits in a body that runs below a caller - or a caller's caller - one of whose parameters is called s,
   whatever was passed for it): neither a later definition nor the parameter names of unrelated callers (alpha-renaming)
   change what the body computes.  REQUIRES the two source facts regenerated by harness/translators/c15_ident_capture.py
   (Gen/IdentCapture.v): op_t::compile copies EVERY definition it finds into the identifier (parameters first, then the
   scope chain), and lookup_ident looks a name up at the time of use only when nothing (or a parameter PLUG) is attached. *)
Theorem function_reference_is_bound_where_it_is_written :
  src_ident_bound_at_compile = true /\ src_ident_late_lookup_only_unbound = true /\
  forall ord cp n m tbl ps s l b tbl2 sc,
  in_names s ps = false -> builtin_of s = None -> lookup s tbl = Some (OBin KLambda l b) ->
  exists t, compile ord cp (S n) tbl ps (OIdent s None) = Ok (mkC t true tbl) /\
            find_def ord cp (S (S m)) tbl2 sc t = Ok (OBin KLambda l b) /\
            forall a, calc ord cp (S (S (S m))) tbl2 sc (OBin KCall t a) =
                      calc ord cp (S (S (S m))) tbl2 sc (OBin KCall (OBin KLambda l b) a).
Proof. split; [reflexivity|]. split; [reflexivity|]. exact function_reference_bound. Qed.
Print Assumptions function_reference_is_bound_where_it_is_written.

(* computed through the tokenizer: gn(va) = va + 1; fn(va) = gn(va) * 2 and then
   hn(gn) = fn(1); hn((vz -> 1000))            is 4   (a caller's parameter is called gn)
   gn(va) = va + 100; fn(1)                    is 4   (gn is defined again afterwards)
   (gn -> fn(1) + gn(1))((vz -> 1000))         is 1004 (the lambda's own gn is its parameter, fn's gn is not) *)
Example function_reference_examples :
  run false w_cp [] (text_tokens [103; 110; 40; 118; 97; 41; 32; 61; 32; 118; 97; 32; 43; 32; 49; 59; 32; 102; 110; 40; 118; 97; 41; 32; 61; 32; 103; 110; 40; 118; 97; 41; 32; 42; 32; 50; 59; 32; 104; 110; 40; 103; 110; 41; 32; 61; 32; 102; 110; 40; 49; 41; 59; 32; 104; 110; 40; 40; 118; 122; 32; 45; 62; 32; 49; 48; 48; 48; 41; 41]) = Ok (Some (XV (w_num 4))) /\
  run false w_cp [] (text_tokens [103; 110; 40; 118; 97; 41; 32; 61; 32; 118; 97; 32; 43; 32; 49; 59; 32; 102; 110; 40; 118; 97; 41; 32; 61; 32; 103; 110; 40; 118; 97; 41; 32; 42; 32; 50; 59; 32; 103; 110; 40; 118; 97; 41; 32; 61; 32; 118; 97; 32; 43; 32; 49; 48; 48; 59; 32; 102; 110; 40; 49; 41]) = Ok (Some (XV (w_num 4))) /\
  run false w_cp [] (text_tokens [103; 110; 40; 118; 97; 41; 32; 61; 32; 118; 97; 32; 43; 32; 49; 59; 32; 102; 110; 40; 118; 97; 41; 32; 61; 32; 103; 110; 40; 118; 97; 41; 32; 42; 32; 50; 59; 32; 40; 103; 110; 32; 45; 62; 32; 102; 110; 40; 49; 41; 32; 43; 32; 103; 110; 40; 49; 41; 41; 40; 40; 118; 122; 32; 45; 62; 32; 49; 48; 48; 48; 41; 41]) = Ok (Some (XV (w_num 1004))).
Proof. repeat split; vm_compute; reflexivity. Qed.

(* ---- compile preserves values on the definition-free fragment; folding is sound ---- *)
Theorem calc_compile : forall ord cp tbl,
  (forall s d, lookup s tbl = Some d -> d <> OPlug) ->
  forall n m o c, pure o = true -> compile ord cp m tbl [] o = Ok c ->
  calc ord cp n (c_tbl c) [] (c_op c) = calc ord cp n tbl [] o.
Proof. exact calc_compile_pure. Qed.
Print Assumptions calc_compile.

Theorem fold_constants_sound : forall ord cp n tbl sc tbl' sc' k a b,
  calc ord cp n tbl sc (OBin k (OValue a) (Some (OValue b))) =
  calc ord cp n tbl' sc' (OBin k (OValue a) (Some (OValue b))).
Proof. exact const_bin_scope_free. Qed.
Print Assumptions fold_constants_sound.

Theorem fold_constants_sound_unary : forall ord cp n tbl sc tbl' sc' k a,
  calc ord cp n tbl sc (OUn k (OValue a)) = calc ord cp n tbl' sc' (OUn k (OValue a)).
Proof. exact const_un_scope_free. Qed.
Print Assumptions fold_constants_sound_unary.

(* ---- constant folding and the conditional: compile never folds - hence never evaluates - the
   branch pair of a conditional; it compiles whenever both branches do and stays a branch pair
   (the former F34: true ? (x = 1; 2) : 3 aborted in compile). ---- *)
Theorem fold_constants_conditional : forall ord cp n tbl ps a b c1 c2,
  compile ord cp n tbl ps a = Ok c1 -> compile ord cp n (c_tbl c1) ps b = Ok c2 ->
  exists c, compile ord cp (S n) tbl ps (OBin KColon a (Some b)) = Ok c /\
            c_tbl c = c_tbl c2 /\ is_value (c_op c) = false /\
            (c_changed c = true -> c_op c = OBin KColon (c_op c1) (Some (c_op c2))) /\
            (c_changed c = false -> c_op c = OBin KColon a (Some b)).
Proof. exact compile_colon_never_folds. Qed.
Print Assumptions fold_constants_conditional.

Example conditional_with_constant_branches :
  exists t, parse w_cp (parse_fuel w_fold) w_fold = Ok (Some t) /\
            calc false w_cp 50 [] [] t = Ok (XV (w_num 2)) /\
            (exists tbl, eval false w_cp 50 [] t = Ok (XV (w_num 2), tbl)).
Proof. exact fold_keeps_ternary. Qed.

(* ---- finding F35: "the printed text evaluates to the same value" is FALSE of the faithful
   model - the printed literals are lexed with KEEP_PREC, which changes the
   display-zero truth test.  Witness $0.01 * $0.01 * $0.01 & 5. ---- *)
Theorem print_parse_value_refuted :
  exists cp ts t v v',
    parse cp (parse_fuel ts) ts = Ok (Some t) /\
    run false cp [] ts = Ok (Some v) /\
    run false cp [] (map (relit_tok cp) (print t)) = Ok (Some v') /\ v <> v'.
Proof.
  destruct reprinted_text_changes_value as (t & H1 & H2 & H3).
  exists w_cp, w_dz, t, (XV (VBool false)), (XV (VAmt (mkAmt 5 0 true None))).
  split; [exact H1|]. split; [exact H2|]. split; [exact H3|discriminate].
Qed.
Print Assumptions print_parse_value_refuted.

(* ---- findings F36, F37: full lexical scoping ("a closure means what it meant where it was
   written") is FALSE of the faithful model for lambda PARAMETERS, which are looked up
   dynamically at call time.  Witnesses: f(a) = (b -> a + b); (f(1))(2) fails although a = 1 was
   in scope where the lambda was written; f(a) = (y = a * 2; g(a) = y; g(5)); f(1) gives 10,
   not 2. ---- *)
Theorem lexical_scoping_parameters_refuted :
  (exists cp ts, run false cp [] ts = Err EOther /\ ts = w_escape) /\
  (exists cp ts, run false cp [] ts = Ok (Some (XV (VAmt (mkAmt 10 0 false None)))) /\ ts = w_dyn).
Proof.
  split; [exists w_cp, w_escape; split; [exact escaping_closure_fails|reflexivity]
         |exists w_cp, w_dyn; split; [exact by_name_variable_sees_callee_parameter|reflexivity]].
Qed.
Print Assumptions lexical_scoping_parameters_refuted.

(* ---- finding F216: "what a function body defines is local to it" is FALSE of the faithful model - op_t::compile gives a
   SCOPE body a bind_scope_t, whose define() writes into the enclosing scope as well, when the function is defined
   (the model's single table).  Witnesses: vt = 1; fn(va) = (vt = 7; vt + 1); fn(2) + vt gives 15 (lexically 8 + 1 = 9), and
   fn(va) = (vy = 7; vy + va); vy gives 7 although fn was never called and vy is unknown outside it. ---- *)
Theorem lexical_scoping_local_definitions_refuted :
  run false w_cp [] (text_tokens [118; 116; 32; 61; 32; 49; 59; 32; 102; 110; 40; 118; 97; 41; 32; 61; 32; 40; 118; 116; 32; 61; 32; 55; 59; 32; 118; 116; 32; 43; 32; 49; 41; 59; 32; 102; 110; 40; 50; 41; 32; 43; 32; 118; 116]) = Ok (Some (XV (w_num 15))) /\
  run false w_cp [] (text_tokens [102; 110; 40; 118; 97; 41; 32; 61; 32; 40; 118; 121; 32; 61; 32; 55; 59; 32; 118; 121; 32; 43; 32; 118; 97; 41; 59; 32; 118; 121]) = Ok (Some (XV (w_num 7))).
Proof. split; vm_compute; reflexivity. Qed.
Print Assumptions lexical_scoping_local_definitions_refuted.

(* ---- the tokenizer (token.cc; Model/ExprLex.v): `lex` reads the expression TEXT (byte list), the same bytes
   ledger gets.  ftok = the tokens with a fixed spelling: & && and | || or ( ) ! not != - -> + * ? : / div = == < <=
   > >= , ; if else true false; `fspell l` writes each token of l followed by k+1 blanks (k chosen per token);
   `slash_ok` says that `/` stands only behind a complete term (`)`, true, false), where parser.cc reads in operator
   context. ---- *)
Theorem lex_round_trip_fixed : forall l, slash_ok false l = true ->
  lex (fspell l) = Ok (map (fun p => fden (fst p)) l).
Proof. exact lex_round_trip_fixed_lemma. Qed.
Print Assumptions lex_round_trip_fixed.

Example lex_round_trip_fixed_hypothesis_satisfiable :
  slash_ok false [(FLP, 0%nat); (FTrue, 2%nat); (FRP, 0%nat); (FSlash, 1%nat); (FNot, 0%nat); (FFalse, 0%nat)] = true
  /\ fspell [(FTrue, 0%nat); (FAnd, 1%nat); (FFalse, 0%nat)] = [116; 114; 117; 101; 32; 97; 110; 100; 32; 32; 102; 97; 108; 115; 101; 32].
Proof. split; reflexivity. Qed.

(* white space in front of any token, and in front of the text, is not part of the expression (any of blank, tab,
   newline, CR, VT, FF; any text s, any fuel) *)
Theorem lex_token_blanks_insensitive : forall c ws s, forallb is_space ws = true ->
  next_tok c (ws ++ s) = next_tok c s.
Proof. exact next_tok_blanks. Qed.
Print Assumptions lex_token_blanks_insensitive.

Theorem lex_leading_blanks_insensitive : forall ws s ts, forallb is_space ws = true ->
  lex s = Ok ts -> lex (ws ++ s) = Ok ts.
Proof. exact lex_leading_blanks. Qed.
Print Assumptions lex_leading_blanks_insensitive.

Theorem lex_fuel_monotone : forall n c s ts e, lex_fuel n c s = (ts, e) -> e <> Some EOutOfFuel ->
  forall m, (n <= m)%nat -> lex_fuel m c s = (ts, e).
Proof. exact lex_fuel_mono. Qed.
Print Assumptions lex_fuel_monotone.

(* REQUIRES the table regenerated from token.cc parse_reserved_word (Gen/TokenWords.v): five letters are read, the
   eight words map to the documented kinds, and each word's first letter is in the set that starts the scan *)
Theorem token_words_as_documented :
  src_token_word_max = 5 /\
  map (fun p => word_kind (fst p) src_token_words) src_token_words =
    [Some TAnd; Some TKwDiv; Some TKwElse; Some (TVal (VBool false)); Some TKwIf; Some TOr; Some TExclam; Some (TVal (VBool true))] /\
  forallb (fun p => existsb (Z.eqb (hd 0 (fst p))) src_token_word_first) src_token_words = true.
Proof. exact token_words_as_documented_lemma. Qed.
Print Assumptions token_words_as_documented.

(* "a blank between two tokens always separates them" is FALSE of the faithful model (and of ledger): the default arm
   of token_t::next tries amount_t::parse first, which reads SYMBOL [blanks] [-]NUMBER as one amount, and
   parse_reserved_word reads five letters whatever follows.  Witnesses: `zqa 3` and `zqa -3` are ONE token (3 and -3 of
   commodity zqa) while `zqa - 3` is three; `falsely` is the word false followed by the identifier ly; `1,5` is the one
   number 1.5; `and_x` is the operator and followed by the identifier _x. *)
Theorem blank_separates_tokens_refuted :
  lex [122; 113; 97; 32; 51] = Ok [TVal (VAmt (mkAmt 3 0 false (Some [122; 113; 97])))] /\
  lex [122; 113; 97; 32; 45; 51] = Ok [TVal (VAmt (mkAmt (-3) 0 false (Some [122; 113; 97])))] /\
  lex [122; 113; 97; 32; 45; 32; 51] = Ok [TIdent [122; 113; 97]; TMinus; TVal (VAmt (mkAmt 3 0 false None))] /\
  lex [102; 97; 108; 115; 101; 108; 121] = Ok [TVal (VBool false); TIdent [108; 121]] /\
  lex [49; 44; 53] = Ok [TVal (VAmt (mkAmt (3 # 2) 1 false None))] /\
  lex [97; 110; 100; 95; 120] = Ok [TAnd; TIdent [95; 120]].
Proof. repeat split; vm_compute; reflexivity. Qed.
Print Assumptions blank_separates_tokens_refuted.

(* literals and identifiers through the tokenizer (computed): `zqx=1.50;zqx*{$2.00}/f(zqx, 3 EUR)` *)
Example lex_literals_and_identifiers :
  lex [122; 113; 120; 61; 49; 46; 53; 48; 59; 122; 113; 120; 42; 123; 36; 50; 46; 48; 48; 125; 47; 102; 40; 122; 113; 120; 44; 32; 51; 32; 69; 85; 82; 41] =
  Ok [TIdent [122; 113; 120]; TAssign; TVal (VAmt (mkAmt (3 # 2) 2 false None)); TSemi; TIdent [122; 113; 120]; TStar;
      TVal (VAmt (mkAmt 2 2 true (Some [36]))); TSlash; TIdent [102]; TLParen; TIdent [122; 113; 120]; TComma;
      TVal (VAmt (mkAmt 3 0 false (Some [69; 85; 82]))); TRParen].
Proof. vm_compute. reflexivity. Qed.
