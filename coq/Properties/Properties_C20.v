(* C20 - time-clock entries yield the exact elapsed time.
   Property theorems only; proofs are in Proofs/TimelogProofs.v.
   A timestamp is a number of seconds; `day_of t = t / 86400` is its calendar day and
   `next_midnight t` the midnight that follows it.  `open` is the list of open check-ins
   (time_log_t::time_xacts), `clock_out db open o` the effect of one check-out line with
   (db = true) or without --day-break, `run`/`journal` the effect of a whole file. *)
From LedgerV Require Import Base.Prelude Model.Timelog Proofs.TimelogProofs Gen.ClockAccount Gen.UnreduceWalk Gen.TimelogPosts.
Local Open Scope Z_scope.

(* ---- one session: exactly t_out - t_in seconds, on the check-in day, to the check-in account;
   the session closed is the only open one, or the first open one with the named account ---- *)
Theorem session_seconds : forall open o open' ps,
  clock_out false open o = (open', Posted ps) ->
  exists e l1 l2 p,
    open = l1 ++ e :: l2 /\ open' = l1 ++ l2 /\
    (open = [e] \/ (tx_acct e = tx_acct o /\ forall x, In x l1 -> tx_acct x <> tx_acct o)) /\
    ps = [p] /\
    p_secs p = tx_t o - tx_t e /\ 0 <= p_secs p /\
    p_day p = day_of (tx_t e) /\ p_acct p = tx_acct e /\
    p_in p = tx_t e /\ p_out p = tx_t o /\ p_cleared p = tx_done o.
Proof. exact session_seconds_lemma. Qed.
Print Assumptions session_seconds.

(* ---- --day-break: the pieces start at t_in, end at t_out, meet at midnights, are dated on
   consecutive days, each lies inside one calendar day and is not empty (`session_piece_ok`),
   their seconds telescope to t_out - t_in, there is one per calendar day touched, and they are
   the intersections of [t_in, t_out) with those days (`session_piece`) ---- *)
Theorem day_break_pieces : forall open o open' ps,
  clock_out true open o = (open', Posted ps) ->
  exists e l1 l2,
    open = l1 ++ e :: l2 /\ open' = l1 ++ l2 /\
    (open = [e] \/ (tx_acct e = tx_acct o /\ forall x, In x l1 -> tx_acct x <> tx_acct o)) /\
    tx_t e <= tx_t o /\
    (tx_t e = tx_t o -> ps = []) /\
    (tx_t e < tx_t o ->
       contiguous (tx_t e) ps (tx_t o) /\ Forall (session_piece_ok e o) ps /\
       sum_secs ps = tx_t o - tx_t e /\
       Z.of_nat (length ps) = day_of (tx_t o - 1) - day_of (tx_t e) + 1 /\
       ps = map (session_piece e o) (zrange (day_of (tx_t e)) (day_count (tx_t e) (tx_t o)))).
Proof. exact day_break_pieces_lemma. Qed.
Print Assumptions day_break_pieces.

(* a check-out no later than the midnight after the check-in - exactly at it included - gives
   one piece, the whole session: no empty piece is dated on the following day *)
Theorem day_break_checkout_at_midnight : forall e o,
  tx_t e < tx_t o -> tx_t o <= next_midnight (tx_t e) ->
  session_posts true e o = [session_post e o (tx_t e) (tx_t o)].
Proof. exact midnight_checkout_lemma. Qed.
Print Assumptions day_break_checkout_at_midnight.

(* the splitting loop always terminates within its fuel: `finish` never reports TFuel *)
Theorem day_break_loop_terminates : forall b o, exists ps, day_pieces b o = Some ps.
Proof. exact day_pieces_total. Qed.
Print Assumptions day_break_loop_terminates.

Theorem finish_is_session_posts : forall db e o,
  finish db e o = if tx_t o <? tx_t e then Failed TNegative else Posted (session_posts db e o).
Proof. exact finish_spec. Qed.
Print Assumptions finish_is_session_posts.

(* ---- account totals: a session gives its account t_out - t_in seconds and nothing to any other
   account, with or without --day-break; over any event sequence, from any state, --day-break
   changes neither what stays open, nor which lines fail, nor the time reported for any account;
   and every posting of a run is the session of a check-in and a later-or-equal check-out ---- *)
Theorem session_account_total : forall db e o a,
  tx_t e <= tx_t o ->
  total_for a (session_posts db e o) = if acct_eqb a (tx_acct e) then tx_t o - tx_t e else 0.
Proof. exact session_total. Qed.
Print Assumptions session_account_total.

Theorem account_total : forall evs open n,
  fst (run true open evs) = fst (run false open evs) /\
  failures n (snd (run true open evs)) = failures n (snd (run false open evs)) /\
  forall a, total_for a (posted (snd (run true open evs))) = total_for a (posted (snd (run false open evs))).
Proof. exact run_day_break. Qed.
Print Assumptions account_total.

Theorem account_total_whole_file : forall now evs,
  match journal true now evs, journal false now evs with
  | Report p, Report q => forall a, total_for a p = total_for a q
  | Errors l c, Errors l' c' => l = l' /\ c = c'
  | _, _ => False
  end.
Proof. exact journal_day_break. Qed.
Print Assumptions account_total_whole_file.

Theorem postings_are_sessions : forall db evs open,
  Forall (fun oc => match oc with
                    | Posted [] => True
                    | Posted ps => is_session db open evs ps
                    | Failed _ => True
                    end) (snd (run db open evs)).
Proof. exact run_sessions. Qed.
Print Assumptions postings_are_sessions.

(* ---- errors: when every check-out names an account and not the F12 form, a line fails exactly
   when it is a second check-in to an open account, a check-out for an account that is not open,
   or a check-out earlier than its check-in; the model's run is the per-account specification ---- *)
Theorem errors : forall db open ev c,
  distinct open -> named ev -> ~ names_other open ev ->
  ((exists x, snd (step db open ev) = Failed x /\ tl_class x = c) <->
   match ev with
   | CheckIn e => c = ETimelogDouble /\ exists e0, lookup (tx_acct e) open = Some e0
   | CheckOut o =>
       (c = ETimelogNoIn /\ lookup (tx_acct o) open = None) \/
       (c = ETimelogNegative /\ exists e, lookup (tx_acct o) open = Some e /\ tx_t o < tx_t e)
   end).
Proof. exact step_fails_iff. Qed.
Print Assumptions errors.

Theorem checkout_failures : forall db open o open' x,
  clock_out db open o = (open', Failed x) ->
  (open' = open /\
   ((open = [] /\ x = TNoCheckin) \/
    ((2 <= length open)%nat /\ tx_acct o = None /\ x = TNeedAccount) \/
    ((2 <= length open)%nat /\ tx_acct o <> None /\ x = TNoMatch /\
      forall e, In e open -> tx_acct e <> tx_acct o))) \/
  (x = TNegative /\ exists e l1 l2, open = l1 ++ e :: l2 /\ open' = l1 ++ l2 /\
     (open = [e] \/ (tx_acct e = tx_acct o /\ forall y, In y l1 -> tx_acct y <> tx_acct o)) /\
     tx_t o < tx_t e).
Proof. exact clock_out_failed. Qed.
Print Assumptions checkout_failures.

Theorem matching_is_per_account : forall db evs open,
  distinct open -> clean_run db open evs ->
  spec_run db open evs = (fst (run db open evs), map verdict_of (snd (run db open evs))).
Proof. exact run_refines_spec. Qed.
Print Assumptions matching_is_per_account.

Theorem never_open_twice : forall db evs open, distinct open -> distinct (fst (run db open evs)).
Proof. exact run_distinct. Qed.
Print Assumptions never_open_twice.

(* ---- end of file: every session still open is ended at --now, in check-in order; the file fails
   when one of them was opened after --now ---- *)
Theorem end_of_file : forall db now evs,
  Forall named_in evs ->
  let open := fst (run db [] evs) in
  let ocs := snd (run db [] evs) in
  journal db now evs =
  if existsb (fun e => now <? tx_t e) open then Errors (failures 0 ocs) (Some TNegative)
  else match failures 0 ocs with
       | [] => Report (posted ocs ++ concat (map (fun e => session_posts db e (close_out now e)) open))
       | l => Errors l None
       end.
Proof. exact journal_spec. Qed.
Print Assumptions end_of_file.

(* ---- F12 (observation, not judged): with exactly one session open a check-out closes it whatever
   account it names (timelog.cc:84-87) ---- *)
Theorem single_open_closed_by_any_checkout : forall db e o,
  clock_out db [e] o =
  ([], if tx_t o <? tx_t e then Failed TNegative else Posted (session_posts db e o)).
Proof. exact single_open_any_checkout. Qed.
Print Assumptions single_open_closed_by_any_checkout.

Theorem checkout_naming_other_account_closes_session :
  exists e o p, tx_acct o <> tx_acct e /\ clock_out false [e] o = ([], Posted [p]) /\
                p_acct p = tx_acct e /\ p_secs p = 3600.
Proof.
  exists (mkTx 0 false (Some [65]) []), (mkTx 3600 false (Some [66]) []).
  eexists. split; [discriminate|]. split; [vm_compute; reflexivity|]. split; reflexivity.
Qed.
Print Assumptions checkout_naming_other_account_closes_session.

(* ---- the tie of `tx_acct` to the text: both time-clock directives of src/textual.cc resolve the
   account written on their line with the same expression, top_account() (regenerated table) ---- *)
Theorem clock_lines_resolve_alike :
  src_clock_in_root = RootTopAccount /\ src_clock_out_root = RootTopAccount.
Proof. exact clock_lines_resolve_alike_lemma. Qed.
Print Assumptions clock_lines_resolve_alike.

(* ---- "produces ONE posting to that account": the postings an account holds (account_t::posts, counted
   by `stats`, `%(count)`, `%(subcount)`, `%(account.count)`).  create_timelog_xact and
   xact_base_t::finalize each put the posting there; how many calls each makes is re-read from the source
   (Gen/TimelogPosts.v).  The account holds exactly the postings it was given iff the two together add
   each once; `account_posts_decided` is, for the source as it is, either that statement for all files or
   a one-session file whose account holds another number than 1 (today: 2, finding F220) ---- *)
Theorem account_adds_recognised :
  (src_timelog_account_adds = 0 \/ src_timelog_account_adds = 1) /\ src_finalize_account_adds = 1.
Proof. exact account_adds_recognised_lemma. Qed.
Print Assumptions account_adds_recognised.

Theorem account_holds_what_it_was_given_iff : forall a ps,
  0 < posts_for a ps -> (held_posts a ps = posts_for a ps <-> account_adds = 1).
Proof. exact held_posts_once_iff. Qed.
Print Assumptions account_holds_what_it_was_given_iff.

Theorem account_posts_decided :
  if account_adds =? 1
  then forall a ps, held_posts a ps = posts_for a ps
  else exists ps, journal false 86400 one_session_file = Report ps /\
                  posts_for (Some [65]) ps = 1 /\ held_posts (Some [65]) ps <> 1.
Proof. exact held_posts_decided_lemma. Qed.
Print Assumptions account_posts_decided.

(* ---- reported time: the scaled quantity a report shows (s -> m -> h -> units a journal declares with
   `C 1.00d = 24h`), times the product of the factors of the units walked, is the number of seconds -
   exactly, before the display rounds it; the walk stops at the last unit in which the quantity is at
   least 1 in absolute value; and the source divides by the factor of the step it takes ---- *)
Theorem reported_time_exact : forall chain lab q,
  Forall (fun x => ~ (snd x == 0)%Q) chain ->
  exists k, (k <= length chain)%nat /\
    (snd (unreduce_walk chain lab q) * prod_factors (firstn k chain) == q)%Q /\
    fst (unreduce_walk chain lab q) = last (map fst (firstn k chain)) lab /\
    (forall x, nth_error chain k = Some x ->
       at_least_one (Qred (snd (unreduce_walk chain lab q) / snd x)) = false).
Proof. exact unreduce_walk_exact. Qed.
Print Assumptions reported_time_exact.

Theorem reported_time_at_least_one : forall chain lab q,
  unreduce_walk chain lab q = (lab, q) \/ at_least_one (snd (unreduce_walk chain lab q)) = true.
Proof. exact unreduce_walk_moved. Qed.
Print Assumptions reported_time_at_least_one.

Theorem unreduce_divides_by_next_factor : src_unreduce_divisor = DivCursorLarger.
Proof. exact unreduce_divides_by_next_factor_lemma. Qed.
Print Assumptions unreduce_divides_by_next_factor.

(* 216000 s with m = 60 s, h = 60 m, d = 24 h is 2.5 d (not 1 d); with a working day d = 8 h and
   w = 5 d it is 1.5 w; 59 s stays 59 s *)
Example reported_time_example :
  let m := (109 :: nil)%Z in let h := (104 :: nil)%Z in let d := (100 :: nil)%Z in let w := (119 :: nil)%Z in
  let s := (115 :: nil)%Z in
  unreduce_walk ((m, 60#1) :: (h, 60#1) :: (d, 24#1) :: nil)%Q s (216000#1)%Q = (d, (5#2)%Q) /\
  unreduce_walk ((m, 60#1) :: (h, 60#1) :: (d, 8#1) :: (w, 5#1) :: nil)%Q s (216000#1)%Q = (w, (3#2)%Q) /\
  unreduce_walk ((m, 60#1) :: (h, 60#1) :: (d, 24#1) :: nil)%Q s (59#1)%Q = (s, (59#1)%Q).
Proof. vm_compute. repeat split. Qed.

(* ---- non-vacuity: 2020-02-28 23:00:00 .. 2020-03-01 01:00:01 (93601 s) splits as
   3600 + 86400 + 3601 over 28 Feb, 29 Feb and 1 Mar; two interleaved sessions are clean ---- *)
Example day_break_example :
  let e := mkTx 1582930800 false (Some [65]) [112] in
  let o := mkTx 1583024401 false (Some [65]) [] in
  map (fun p => (p_day p, p_secs p)) (session_posts true e o) = [(18320, 3600); (18321, 86400); (18322, 3601)] /\
  map (fun p => (p_day p, p_secs p)) (session_posts false e o) = [(18320, 93601)].
Proof. vm_compute. split; reflexivity. Qed.

Example clean_run_example :
  let a := Some [65] in let b := Some [66] in
  let evs := [CheckIn (mkTx 10 false a []); CheckIn (mkTx 20 false b []);
              CheckOut (mkTx 86400 false a []); CheckOut (mkTx 172801 true b [])] in
  clean_run true [] evs /\ Forall named_in evs /\
  exists ps, journal true 259200 evs = Report ps /\ total_for a ps = 86390 /\ total_for b ps = 172781.
Proof.
  cbn [clean_run]. repeat split; try discriminate; try (intros H; exact H);
    try (repeat constructor; discriminate).
  - cbn. intros H. apply H. reflexivity.
  - eexists. split; [vm_compute; reflexivity|]. split; reflexivity.
Qed.
