(* C16 - placeholder until the proofs are written *)
From LedgerV Require Import Base.Prelude Base.Round Model.Amount Model.Xact Model.AutoXact.
Theorem rs_init_quick : rs_quick rs_init = true.
Proof. reflexivity. Qed.
Print Assumptions rs_init_quick.
