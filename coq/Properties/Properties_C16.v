(* C16 - automated transactions add exactly the declared postings to each match.
   Property theorems only; proofs in Proofs/AutoXactProofs.v.
   Model/AutoXact.v: extend = auto_xact_t::extend_xact for one rule (with the rule's quick-match
   flag and memo `rs`), extend_all = journal_t::extend_xact (every rule known so far), process =
   the journal loop (rules join the list in file order; every transaction is finalized, then
   extended).  extend_pure / extend_all_pure / process_pure are the same functions without the
   quick matcher and its memo (memo_transparent shows they are equal).
   rule_made p = ITEM_GENERATED without POST_CALCULATED: a posting an automated transaction made
   (the postings finalize makes for the further commodities of an elided amount carry both flags
   and are matched like written ones, /repo e69e5ce).  not_generated x = negb (rule_made (x_post x)).
   contribution cp st r payee ps = for every not-rule-made posting of ps matching r's predicate,
   in order, one posting per line of r (inst_post: the line's account and kind, the multiplied
   or fixed amount, flagged generated).  cp = the pool's display precision; ord = the
   unspecified hash-table insertion order of balances. *)
From LedgerV Require Import Base.Prelude Base.Round Gen.AutoXactRoot Gen.PostPred Model.Amount Model.Xact Model.AutoXact
  Proofs.AmountProofs Proofs.XactProofs Proofs.AutoXactProofs.
From Coq Require Import Qabs.
Local Open Scope Q_scope.

(* extend_spec: the input transaction, identical, followed by one posting per rule line for
   every non-generated posting matching the predicate *)
Theorem extend_spec : forall ord cp r rs payee st ps ps',
  memo_ok r rs -> fst (extend ord cp r rs payee st ps) = Ok ps' ->
  ps' = ps ++ flat_map (fun x => map (inst_post cp st (x_post x)) (r_lines r))
                       (filter (matchesb r payee) (filter not_generated ps)).
Proof. exact AutoXactProofs.extend_spec. Qed.
Print Assumptions extend_spec.

(* no_rematch: for any number and order of rules, every rule's postings are computed from the
   INPUT transaction; nothing a rule generates is matched by any rule *)
Theorem no_rematch : forall ord cp rules payee st ps ps',
  rules_ok rules -> fst (extend_all ord cp rules payee st ps) = Ok ps' ->
  ps' = ps ++ flat_map (fun r => contribution cp st r payee ps) (map fst rules).
Proof. exact extend_all_spec. Qed.
Print Assumptions no_rematch.

Theorem generated_postings_are_flagged : forall cp st r payee ps x,
  In x (contribution cp st r payee ps) -> rule_made (x_post x) = true.
Proof. exact contribution_generated. Qed.
Print Assumptions generated_postings_are_flagged.

Theorem generated_postings_never_candidates : forall r payee ps new,
  (forall x, In x new -> rule_made (x_post x) = true) ->
  candidates r payee (ps ++ new) = candidates r payee ps.
Proof. exact candidates_app_generated. Qed.
Print Assumptions generated_postings_never_candidates.

(* only_later: the transactions before a rule are what they are without it *)
Theorem only_later : forall ord pl al ds1 r ds2,
  firstn (length (process ord pl al [] ds1)) (process ord pl al [] (ds1 ++ DRule r :: ds2)) = process ord pl al [] ds1.
Proof. exact only_later_stateful. Qed.
Print Assumptions only_later.

(* a transaction sees exactly the rules written before it, in file order *)
Theorem rules_before_only : forall ord pl al rules ds1 t ds2,
  nth_error (process_pure ord pl al rules (ds1 ++ DTxn t :: ds2)) (length (process_pure ord pl al rules ds1)) =
  Some (txn_result ord (pool_after pl ds1) (aliases_after al ds1) (rules ++ rules_in ds1) t).
Proof. exact txn_sees_rules_before. Qed.
Print Assumptions rules_before_only.

(* the property for a whole journal *)
Theorem journal_extension : forall ord pl al ds1 t ds2 xs,
  let cp := cp_of (learn_posts (pool_after pl ds1) (t_posts t)) in
  let al' := aliases_after al ds1 in
  nth_error (process ord pl al [] (ds1 ++ DTxn t :: ds2)) (length (process ord pl al [] ds1)) = Some (Ok (XAccepted xs)) ->
  exists ps, finalize ord cp None (t_posts t) = Ok (Accepted ps) /\
    let base := lift (t_state t) (map (annotate_cost cp) ps) in
    xs = base ++ flat_map (fun r => contribution cp (t_state t) (realias_rule al' r) (t_payee t) base) (rules_in ds1).
Proof. exact journal_extension_spec. Qed.
Print Assumptions journal_extension.

Theorem no_rule_before_means_untouched : forall ord pl al ds1 t ds2 xs,
  let cp := cp_of (learn_posts (pool_after pl ds1) (t_posts t)) in
  rules_in ds1 = [] ->
  nth_error (process ord pl al [] (ds1 ++ DTxn t :: ds2)) (length (process ord pl al [] ds1)) = Some (Ok (XAccepted xs)) ->
  exists ps, finalize ord cp None (t_posts t) = Ok (Accepted ps) /\ xs = lift (t_state t) (map (annotate_cost cp) ps).
Proof. exact no_rule_before_untouched. Qed.
Print Assumptions no_rule_before_means_untouched.

(* a rule none of whose non-generated postings match leaves the transaction alone *)
Theorem non_matching_untouched : forall ord cp r payee st ps,
  (forall x, In x ps -> rule_made (x_post x) = false -> pred_eval payee (x_post x) (r_pred r) = Ok false) ->
  extend_pure ord cp r payee st ps = Ok ps.
Proof. exact no_match_untouched. Qed.
Print Assumptions non_matching_untouched.

(* multiplier_exact: an amount without commodity multiplies the matched amount exactly, in the
   matched amount's commodity; account, kind are the rule line's *)
Theorem multiplier_exact : forall cp st ip l x ra ia,
  instantiate cp st ip l = Ok x -> rl_amt l = Some ra -> acomm ra = None -> p_amt ip = Some ia ->
  exists a, p_amt (x_post x) = Some a /\ aq a == aq ia * aq ra /\ acomm a = acomm ia /\ akeep a = akeep ia /\
            p_acct (x_post x) = rl_acct l /\ p_kind (x_post x) = rl_kind l /\
            rule_made (x_post x) = true /\ p_cost (x_post x) = None.
Proof. exact AutoXactProofs.multiplier_exact. Qed.
Print Assumptions multiplier_exact.

Theorem fixed_amount_as_written : forall cp st ip l x ra c,
  instantiate cp st ip l = Ok x -> rl_amt l = Some ra -> acomm ra = Some c ->
  p_amt (x_post x) = Some ra /\ p_acct (x_post x) = rl_acct l /\ p_kind (x_post x) = rl_kind l /\
  rule_made (x_post x) = true.
Proof. exact fixed_as_written. Qed.
Print Assumptions fixed_amount_as_written.

Theorem generated_posting_state : forall cp st ip l x,
  instantiate cp st ip l = Ok x ->
  x_state x = match st with SCleared => SCleared | _ => rl_state l end.
Proof. exact generated_state. Qed.
Print Assumptions generated_posting_state.

Theorem line_without_amount_rejected : forall cp st ip l,
  rl_amt l = None -> instantiate cp st ip l = Err EBadAmount.
Proof. exact no_amount_line_rejected. Qed.
Print Assumptions line_without_amount_rejected.

(* quick_match_sound: the account-only matcher, when it answers, answers as the full predicate,
   and its answer depends on the account name only *)
Theorem quick_match_sound : forall payee p e b, quick_eval p e = Some b -> pred_eval payee p e = Ok b.
Proof. exact quick_eval_sound. Qed.
Print Assumptions quick_match_sound.

Theorem quick_match_by_account_name : forall p p', p_acct p = p_acct p' -> forall e, quick_eval p e = quick_eval p' e.
Proof. exact quick_eval_acct_only. Qed.
Print Assumptions quick_match_by_account_name.

(* the memo and the quick path never change any result of the journal *)
Theorem memo_transparent : forall ord ds pl al rules,
  rules_ok rules -> process ord pl al rules ds = process_pure ord pl al (map fst rules) ds.
Proof. exact process_eq_pure. Qed.
Print Assumptions memo_transparent.

(* account / payee masks (restricted to literals) are case-insensitive substring search *)
Theorem mask_is_substring_search : forall pat s,
  substr_ci pat s = true <->
  exists pre mid post, s = pre ++ mid ++ post /\ map lower mid = map lower pat.
Proof. exact substr_ci_spec. Qed.
Print Assumptions mask_is_substring_search.

(* extended_unbalanced_rejected: when a new posting must balance and the extended transaction
   is off by a whole unit in some commodity, the extension is an error *)
Theorem extended_unbalanced_rejected : forall ord cp r payee st ps c,
  let ps' := ps ++ contribution cp st r payee ps in
  (forall k, 0 <= cp k <= 230)%Z ->
  (exists new, gen_pure cp r payee st ps = Ok new) ->
  existsb x_must_balance (contribution cp st r payee ps) = true ->
  (count_nulls (map x_post ps') <= 1)%nat -> existsb same_comm_cost (map x_post ps') = false ->
  1 <= Qabs (bsum (map x_post ps') c) ->
  extend_pure ord cp r payee st ps = Err EUnbalanced.
Proof. exact AutoXactProofs.extended_unbalanced_rejected. Qed.
Print Assumptions extended_unbalanced_rejected.

Theorem extended_accepted_is_balanced : forall ord cp r payee st ps ps' c,
  (forall k, 0 <= cp k <= 230)%Z ->
  extend_pure ord cp r payee st ps = Ok ps' ->
  existsb x_must_balance (contribution cp st r payee ps) = true ->
  Qabs (bsum (map x_post ps') c) < 1.
Proof. exact extended_accepted_balances. Qed.
Print Assumptions extended_accepted_is_balanced.

Theorem extended_exactly_balanced_accepted : forall ord cp r payee st ps,
  let ps' := ps ++ contribution cp st r payee ps in
  (exists new, gen_pure cp r payee st ps = Ok new) ->
  (count_nulls (map x_post ps') <= 1)%nat -> existsb same_comm_cost (map x_post ps') = false ->
  (forall c, bsum (map x_post ps') c == 0) ->
  extend_pure ord cp r payee st ps = Ok ps'.
Proof. exact extended_balanced_accepted. Qed.
Print Assumptions extended_exactly_balanced_accepted.

(* the re-check runs exactly when SOME generated posting must balance - a matching posting and
   a real or [balanced] line anywhere in the rule - not when the last generated one must *)
Theorem recheck_iff_some_line_must_balance : forall cp st r payee ps,
  existsb x_must_balance (contribution cp st r payee ps) = true <->
  (candidates r payee ps <> [] /\ exists l, In l (r_lines r) /\ rl_kind l <> PVirtual).
Proof. exact needs_verify_iff. Qed.
Print Assumptions recheck_iff_some_line_must_balance.

(* accepted => the postings that must balance, original and generated, sum to zero at display
   precision: the tested balance is their exact per-commodity sum and displays as zero *)
Theorem extended_accepted_sums_to_display_zero : forall ord cp r payee st ps ps',
  extend_pure ord cp r payee st ps = Ok ps' ->
  existsb x_must_balance (contribution cp st r payee ps) = true ->
  exists bal nul, scan_posts ord (map x_post ps') 0 VVoid None = Ok (bal, nul) /\
                  v_is_zero cp bal = true /\ forall c, den bal c == bsum (map x_post ps') c.
Proof. exact extended_accepted_displays_zero. Qed.
Print Assumptions extended_accepted_sums_to_display_zero.

(* the order of the rule's lines changes neither whether the re-check runs nor the sums it tests *)
Theorem line_order_recheck_free : forall cp st r r' payee ps,
  same_but_line_order r r' ->
  existsb x_must_balance (contribution cp st r payee ps) = existsb x_must_balance (contribution cp st r' payee ps) /\
  forall c, bsum (map x_post (ps ++ contribution cp st r payee ps)) c ==
            bsum (map x_post (ps ++ contribution cp st r' payee ps)) c.
Proof. exact line_order_verify_free. Qed.
Print Assumptions line_order_recheck_free.

(* ... nor acceptance: off by a whole unit is rejected in every order of the lines (also with a
   (virtual) line last), exactly balanced is accepted in every order *)
Theorem line_order_unbalanced_rejected : forall ord cp r r' payee st ps c,
  let ext := map x_post (ps ++ contribution cp st r payee ps) in
  same_but_line_order r r' ->
  (forall k, 0 <= cp k <= 230)%Z ->
  (exists new, gen_pure cp r payee st ps = Ok new) -> (exists new, gen_pure cp r' payee st ps = Ok new) ->
  existsb x_must_balance (contribution cp st r payee ps) = true ->
  (count_nulls ext <= 1)%nat -> existsb same_comm_cost ext = false ->
  1 <= Qabs (bsum ext c) ->
  extend_pure ord cp r payee st ps = Err EUnbalanced /\ extend_pure ord cp r' payee st ps = Err EUnbalanced.
Proof. exact AutoXactProofs.line_order_unbalanced_rejected. Qed.
Print Assumptions line_order_unbalanced_rejected.

Theorem line_order_balanced_accepted : forall ord cp r r' payee st ps,
  let ext := map x_post (ps ++ contribution cp st r payee ps) in
  same_but_line_order r r' ->
  (exists new, gen_pure cp r payee st ps = Ok new) -> (exists new, gen_pure cp r' payee st ps = Ok new) ->
  (count_nulls ext <= 1)%nat -> existsb same_comm_cost ext = false ->
  (forall c, bsum ext c == 0) ->
  extend_pure ord cp r payee st ps = Ok (ps ++ contribution cp st r payee ps) /\
  extend_pure ord cp r' payee st ps = Ok (ps ++ contribution cp st r' payee ps).
Proof. exact AutoXactProofs.line_order_balanced_accepted. Qed.
Print Assumptions line_order_balanced_accepted.

(* the seeded shape: `Liabilities:Tax 0.10` then `(Budget) -1` (unbalanced real line, virtual line
   last) is rejected exactly like the same lines in the other order *)
Example virtual_line_last_still_rejected :
  let eur := Some [69; 85; 82]%Z in
  let m (x : Q) (p : Z) := mkAmt x p false None in
  let tax := mkLine [84%Z] PReal (Some (m (1 # 10) 2%Z)) SUncleared in
  let bud := mkLine [66%Z] PVirtual (Some (m (-1) 2%Z)) SUncleared in
  let t := mkTxn [120; 49]%Z SUncleared
                 [mkPost [69; 120; 112]%Z PReal (Some (mkAmt 100 2%Z false eur)) None None false false false;
                  mkPost [67%Z] PReal (Some (mkAmt (-100) 2%Z false eur)) None None false false false] in
  process false [] [] [] [DRule (mkRule (PAcct [69; 120]%Z) [tax; bud]); DTxn t] = [Err EUnbalanced] /\
  process false [] [] [] [DRule (mkRule (PAcct [69; 120]%Z) [bud; tax]); DTxn t] = [Err EUnbalanced].
Proof. cbv zeta. split; vm_compute; reflexivity. Qed.

Theorem virtual_lines_never_checked : forall ord cp r payee st ps new,
  gen_pure cp r payee st ps = Ok new -> existsb x_must_balance new = false ->
  extend_pure ord cp r payee st ps = Ok (ps ++ new).
Proof. exact virtual_only_not_verified. Qed.
Print Assumptions virtual_lines_never_checked.

(* non-vacuity: `= /Food/` with lines (Budget) -1, Tax 0.10, Src -0.10 before
   `Expenses:Food $10.00 / Assets:Cash $-10.00` (display precision 2): accepted, three postings
   appended, each the product; placed after the transaction the rule changes nothing; with
   the single line `Tax 0.10` the extension is rejected as unbalanced *)
Example extension_example :
  let usd := Some [36%Z] in
  let food := [69; 120; 112; 58; 70; 111; 111; 100]%Z in           (* Exp:Food *)
  let cash := [67; 97; 115; 104]%Z in
  let m (x : Q) (p : Z) := mkAmt x p false None in
  let r := mkRule (PAcct [102; 79; 111]%Z)                            (* /fOo/ *)
                  [mkLine [66%Z] PVirtual (Some (m (-1) 0%Z)) SUncleared;
                   mkLine [84%Z] PReal (Some (m (1 # 10) 2%Z)) SUncleared;
                   mkLine [83%Z] PReal (Some (m (-1 # 10) 2%Z)) SUncleared] in
  let bad := mkRule (PAcct [102; 79; 111]%Z) [mkLine [84%Z] PReal (Some (m (1 # 10) 2%Z)) SUncleared] in
  let t := mkTxn [120; 49]%Z SUncleared
                 [mkPost food PReal (Some (mkAmt 10 2%Z false usd)) None None false false false;
                  mkPost cash PReal (Some (mkAmt (-10) 2%Z false usd)) None None false false false] in
  let gen a k (q : Q) (p : Z) := mkX (mkPost a k (Some (mkAmt q p false usd)) None None false true false) SUncleared in
  process false [] [] [] [DRule r; DTxn t] =
    [Ok (XAccepted (lift SUncleared (t_posts t) ++
                    [gen [66%Z] PVirtual (-10) 2%Z; gen [84%Z] PReal 1 4%Z; gen [83%Z] PReal (-1) 4%Z]))] /\
  process false [] [] [] [DTxn t; DRule r] = [Ok (XAccepted (lift SUncleared (t_posts t)))] /\
  process false [] [] [] [DRule bad; DTxn t] = [Err EUnbalanced].
Proof. cbv zeta. repeat split; vm_compute; reflexivity. Qed.

(* the full statement for a journal: EVERY posting of the finalized transaction - written, or
   made by finalize from an elided amount standing for several commodities - that matches a rule
   written before it receives one posting per rule line.  (F33, repaired by /repo e69e5ce: the
   old code skipped every ITEM_GENERATED posting, so `= /C/ (B) 1` before
   `F $10.00 / F 5.00 EUR / C` gave (B) $-10.00 only.) *)
Theorem journal_extension_every_posting : forall ord pl al ds1 t ds2 xs,
  let cp := cp_of (learn_posts (pool_after pl ds1) (t_posts t)) in
  let al' := aliases_after al ds1 in
  (forall p, In p (t_posts t) -> p_generated p = false) ->
  nth_error (process ord pl al [] (ds1 ++ DTxn t :: ds2)) (length (process ord pl al [] ds1)) = Some (Ok (XAccepted xs)) ->
  exists ps, finalize ord cp None (t_posts t) = Ok (Accepted ps) /\
    let base := lift (t_state t) (map (annotate_cost cp) ps) in
    xs = base ++ flat_map (fun r => flat_map (fun x => map (inst_post cp (t_state t) (x_post x))
                                                            (map (realias_line al') (r_lines r)))
                                             (filter (matchesb r (t_payee t)) base)) (rules_in ds1).
Proof. exact AutoXactProofs.journal_extension_every_posting. Qed.
Print Assumptions journal_extension_every_posting.

(* nothing finalize returns is taken for a rule's posting *)
Theorem finalized_postings_are_the_users : forall ord cp bucket ps out,
  (forall p, In p ps -> p_generated p = false) ->
  finalize ord cp bucket ps = Ok (Accepted out) -> Forall (fun p => rule_made p = false) out.
Proof. exact finalize_user_made. Qed.
Print Assumptions finalized_postings_are_the_users.

(* the former witness now behaves like the written-out transaction: (B) receives both amounts *)
Example elided_two_commodities_both_matched :
  let usd := Some [36%Z] in let eur := Some [69; 85; 82]%Z in
  let r := mkRule (PAcct [67%Z]) [mkLine [66%Z] PVirtual (Some (mkAmt 1 0%Z false None)) SUncleared] in
  let t := mkTxn [120; 49]%Z SUncleared
                 [mkPost [70%Z] PReal (Some (mkAmt 10 2%Z false usd)) None None false false false;
                  mkPost [70%Z] PReal (Some (mkAmt 5 2%Z false eur)) None None false false false;
                  mkPost [67%Z] PReal None None None false false false] in
  let gen c (q : Q) := mkX (mkPost [66%Z] PVirtual (Some (mkAmt q 2%Z false c)) None None false true false) SUncleared in
  exists base, process false [] [] [] [DRule r; DTxn t] = [Ok (XAccepted (base ++ [gen usd (-10); gen eur (-5)]))] /\
               length base = 4%nat.
Proof. cbv zeta. eexists (_ :: _ :: _ :: _ :: nil). split; vm_compute; reflexivity. Qed.

(* ---- the account of a generated posting.
   Postings and rule lines reach the model with the full account name they resolve to AT THEIR
   PLACE in the file (master account, enclosing `apply account`, one step of aliases).  That the
   lines of a rule are resolved against the same root as the postings of a transaction at that
   place is a fact read from the source on every run (harness/translators/c16_autoxact_root.py):
   automated_xact_directive hands top_account() to parse_post, as xact_directive does. *)
Theorem rule_lines_resolve_like_postings :
  src_autoxact_line_root = RootTopAccount /\ src_xact_post_root = RootTopAccount.
Proof. split; reflexivity. Qed.
Print Assumptions rule_lines_resolve_like_postings.

(* the model's second alias round is the code's: extend_xact registers the line's account again
   by its full name from the journal root *)
Theorem extend_registers_by_full_name : src_extend_registers_fullname_from_master = true.
Proof. reflexivity. Qed.
Print Assumptions extend_registers_by_full_name.

(* a generated posting has its rule line's kind and the line's account run once more through
   the aliases in force at the transaction *)
Theorem generated_posting_account : forall cp st r payee ps al x,
  In x (contribution cp st (realias_rule al r) payee ps) ->
  exists l, In l (r_lines r) /\ p_acct (x_post x) = realias al (rl_acct l) /\ p_kind (x_post x) = rl_kind l.
Proof. exact generated_account. Qed.
Print Assumptions generated_posting_account.

(* ... which is the rule line's account whenever neither that name nor its first component is an
   alias (in particular in a journal without aliases) *)
Theorem account_kept_without_alias_hit : forall al full,
  alias_find full al = None ->
  (forall first rest, split_colon full = Some (first, rest) -> alias_find first al = None) ->
  realias al full = full.
Proof. exact realias_no_hit. Qed.
Print Assumptions account_kept_without_alias_hit.

Theorem no_aliases_rule_unchanged : forall r, realias_rule [] r = r.
Proof. exact realias_rule_nil. Qed.
Print Assumptions no_aliases_rule_unchanged.

(* "The generated posting has the rule line's account" - the account the line names at its place in
   the file.  Whether it holds depends on how extend_xact registers that account the second time,
   which is read from the source on every run (Gen/AutoXactRoot.src_extend_realias):
   - ReAliasNever (alias expansion switched off around the call - the repair of F120): it holds;
   - ReAliasAlways (finding F120, known_findings.txt): it is false of the faithful model; witness
     `alias T=L:T`, `alias L=D:L`, rule line `(T:F) 1` (= L:T:F at its place) posts to D:L:T:F, and an
     alias defined after the rule redirects the rule's postings. *)
Theorem generated_posting_has_line_account : src_extend_realias = ReAliasNever -> line_account_stmt.
Proof. exact journal_extension_line_accounts. Qed.
Print Assumptions generated_posting_has_line_account.

Theorem generated_posting_has_line_account_refuted : src_extend_realias = ReAliasAlways -> realias_witness_stmt.
Proof. exact realias_witness. Qed.
Print Assumptions generated_posting_has_line_account_refuted.

(* the one of the two that speaks about the code as it is; an unrecognised source shape proves nothing *)
Theorem generated_posting_account_in_force :
  match src_extend_realias with
  | ReAliasNever => line_account_stmt
  | ReAliasAlways => realias_witness_stmt
  | ReAliasUnrecognised => False
  end.
Proof. exact account_in_force. Qed.
Print Assumptions generated_posting_account_in_force.

(* the model's rule_made (ITEM_GENERATED without POST_CALCULATED) is the test extend_xact applies,
   read from the source on every run *)
Theorem skip_test_is_rule_made : src_extend_skip = SkipGeneratedNotCalculated.
Proof. reflexivity. Qed.
Print Assumptions skip_test_is_rule_made.

(* the predicate of a rule is written on one line that the query lexer receives as ONE string; blank,
   TAB, CR and LF alike are skipped before a word and end a word there (read from src/query.cc and
   src/textual.cc on every run; the generators separate the words of predicates by blanks, TABs
   and runs of both) *)
Theorem rule_header_words_end_at_blanks_and_tabs :
  src_rule_header_is_one_string = true /\
  src_query_blanks_skipped = [9; 10; 13; 32]%Z /\ src_query_word_ends = [9; 10; 13; 32]%Z.
Proof. repeat split; reflexivity. Qed.
Print Assumptions rule_header_words_end_at_blanks_and_tabs.

(* ---- constants, == and ?: in a rule's predicate; the quick matcher case by case.
   post_pred (xact.cc) handles VALUE, account =~ mask, ==, !, &, |, ?: and throws on everything else;
   extend_xact then evaluates the full predicate.  Which cases the source has, and that each body is the
   transcribed one, is read from the source on every run (harness/translators/c16_post_pred.py ->
   Gen/PostPred.v); quick_eval takes a case only when it is there in that form. *)
Theorem quick_matcher_cases_as_transcribed :
  (forall o, src_post_pred o = PpAsTranscribed) /\ src_post_pred_no_other_case = true /\ src_post_pred_frame = true.
Proof. exact post_pred_cases_transcribed. Qed.
Print Assumptions quick_matcher_cases_as_transcribed.

(* on every predicate built from account matches and true/false by ! & | == ?: the quick matcher answers
   (REQUIRES the seven cases above), with the value of the full predicate for every payee and amount *)
Theorem quick_match_answers_account_only : forall payee p e,
  acct_only e = true -> exists b, quick_eval p e = Some b /\ pred_eval payee p e = Ok b.
Proof. exact acct_only_full_value. Qed.
Print Assumptions quick_match_answers_account_only.

(* so such a rule fires on a posting or not by the account name alone *)
Theorem account_only_rule_decided_by_account : forall r payee payee' x y,
  acct_only (r_pred r) = true -> p_acct (x_post x) = p_acct (x_post y) ->
  matchesb r payee x = matchesb r payee' y.
Proof. exact acct_only_same_account. Qed.
Print Assumptions account_only_rule_decided_by_account.

Theorem quick_match_declines_payee_and_amount : forall p e,
  match e with PPayee _ | PAmtLt _ | PAmtGt _ => quick_eval p e = None | _ => True end.
Proof. exact quick_eval_declines_atoms. Qed.
Print Assumptions quick_match_declines_payee_and_amount.

(* `= expr true` fires on every posting that no rule made, `= expr false` on none *)
Theorem constant_rule_candidates : forall r payee b ps,
  r_pred r = PConst b -> candidates r payee ps = if b then filter not_generated ps else [].
Proof. exact candidates_const. Qed.
Print Assumptions constant_rule_candidates.

(* p == q holds exactly when both hold or neither does (both sides are evaluated, an error on the left
   is the result); c ? p : q is p where c holds and q elsewhere, the other branch is not evaluated *)
Theorem equality_predicate : forall payee p q r a b,
  pred_eval payee p q = Ok a -> pred_eval payee p r = Ok b ->
  pred_eval payee p (PEq q r) = Ok (Bool.eqb a b) /\
  pred_eval payee p (PEq q r) = pred_eval payee p (POr (PAnd q r) (PAnd (PNot q) (PNot r))).
Proof. intros payee p q r a b Hq Hr. split; [exact (pred_eval_eq _ _ _ _ _ _ Hq Hr) | exact (pred_eval_eq_as_connectives _ _ _ _ _ _ Hq Hr)]. Qed.
Print Assumptions equality_predicate.

Theorem equality_predicate_error : forall payee p q r e,
  pred_eval payee p q = Err e -> pred_eval payee p (PEq q r) = Err e.
Proof. exact pred_eval_eq_error_left. Qed.
Print Assumptions equality_predicate_error.

Theorem conditional_predicate : forall payee p c q r b,
  pred_eval payee p c = Ok b -> pred_eval payee p (PQuery c q r) = pred_eval payee p (if b then q else r).
Proof. exact pred_eval_query. Qed.
Print Assumptions conditional_predicate.

Theorem conditional_rule_matches : forall r payee x c q s b,
  r_pred r = PQuery c q s -> pred_eval payee (x_post x) c = Ok b ->
  matchesb r payee x = matchesb (mkRule (if b then q else s) (r_lines r)) payee x.
Proof. exact matchesb_query. Qed.
Print Assumptions conditional_rule_matches.

Theorem equality_rule_matches : forall r payee x q s a b,
  r_pred r = PEq q s -> pred_eval payee (x_post x) q = Ok a -> pred_eval payee (x_post x) s = Ok b ->
  matchesb r payee x = Bool.eqb a b.
Proof. exact matchesb_eq. Qed.
Print Assumptions equality_rule_matches.

(* non-vacuity: `= expr account =~ /Foo/ == (account =~ /Exp/)` with (B) 1 before `Exp:Food $10.00 / Cash $-10.00`
   fires on BOTH postings (both match, neither matches); `account =~ /Foo/ ? false : true` on Cash only;
   the same through the full predicate (a payee atom makes the quick matcher decline) *)
Example equality_and_conditional_example :
  let usd := Some [36%Z] in
  let food := [69; 120; 112; 58; 70; 111; 111; 100]%Z in
  let cash := [67; 97; 115; 104]%Z in
  let ln := [mkLine [66%Z] PVirtual (Some (mkAmt 1 0%Z false None)) SUncleared] in
  let t := mkTxn [120; 49]%Z SUncleared
                 [mkPost food PReal (Some (mkAmt 10 2%Z false usd)) None None false false false;
                  mkPost cash PReal (Some (mkAmt (-10) 2%Z false usd)) None None false false false] in
  let gen (q : Q) := mkX (mkPost [66%Z] PVirtual (Some (mkAmt q 2%Z false usd)) None None false true false) SUncleared in
  let foo := PAcct [70; 111; 111]%Z in let ex := PAcct [69; 120; 112]%Z in
  process false [] [] [] [DRule (mkRule (PEq foo ex) ln); DTxn t] =
    [Ok (XAccepted (lift SUncleared (t_posts t) ++ [gen 10; gen (-10)]))] /\
  process false [] [] [] [DRule (mkRule (PQuery foo (PConst false) (PConst true)) ln); DTxn t] =
    [Ok (XAccepted (lift SUncleared (t_posts t) ++ [gen (-10)]))] /\
  process false [] [] [] [DRule (mkRule (PAnd (PPayee [120%Z]) (PQuery foo (PConst false) (PConst true))) ln); DTxn t] =
    [Ok (XAccepted (lift SUncleared (t_posts t) ++ [gen (-10)]))] /\
  acct_only (PEq foo ex) = true /\ acct_only (PAnd (PPayee [120%Z]) foo) = false.
Proof. cbv zeta. repeat split; vm_compute; reflexivity. Qed.
