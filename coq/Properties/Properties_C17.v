(* C17 - sorting and regrouping options only reorder or merge postings.
   Property theorems only; proofs are in Proofs/RegroupProofs.v, the model in
   Model/Regroup.v (the posting handlers of filters.cc in the order of chain.cc).
   `den v c` is the exact quantity of commodity c in a value, `sum_den l c` the exact sum
   over the amounts of a list of postings. *)
From LedgerV Require Import Base.Prelude Base.Round Model.Amount Proofs.AmountProofs
  Gen.ByPayeeLabel Model.Regroup Proofs.RegroupProofs.
From Coq Require Import Permutation Sorting.Sorted.
Local Open Scope Z_scope.

(* ---- std::stable_sort is modelled by its specification ---- *)

(* any two results that satisfy the postcondition of a stable sort for a strict weak order
   are equal: the specification determines the output, whatever the algorithm *)
Theorem stable_sort_unique : forall (A : Type) (lt : A -> A -> bool) (D : A -> Prop),
  swo_on lt D -> forall l l1 l2, Forall D l ->
  is_stable_sort lt l l1 -> is_stable_sort lt l l2 -> l1 = l2.
Proof. intros A lt D. exact (stable_sort_unique_on lt D). Qed.
Print Assumptions stable_sort_unique.

(* the executable sort of the model satisfies it *)
Theorem isort_is_stable_sort : forall (A : Type) (lt : A -> A -> bool) (D : A -> Prop),
  swo_on lt D -> forall l, Forall D l -> is_stable_sort lt l (isort lt l).
Proof. intros A lt D. exact (isort_is_stable_sort_on lt D). Qed.
Print Assumptions isort_is_stable_sort.

(* ---- the comparator ---- *)

(* sort_value_is_less_than on the sort values of postings - dates, payee and account
   strings, amounts (by commodity symbol, then by quantity), any list of keys with any
   components inverted - is a strict weak order on every set of postings in which no
   amount key lacks a commodity (d = DAll) or at most one commodity occurs (d = DOne c) *)
Theorem sort_key_strict_weak_order : forall ks d, swo_on (post_lt ks) (sort_dom ks d).
Proof. exact post_lt_swo. Qed.
Print Assumptions sort_key_strict_weak_order.

(* ... and NOT otherwise: a zero amount is simplified to INTEGER 0 (push_sort_value) and an
   INTEGER or a commodity-less amount compares by quantity with every amount, while two
   different commodities compare by symbol: $5 < -1 EUR < $0 < $5 *)
Definition wit_post (n : Z) (sym : str) : post :=
  mkPost 0 0 0 (PName [80]) (PName [80]) [65] false 0 (VAmt (mkAmt (inject_Z n) 2 false (Some sym))).

Theorem sort_key_strict_weak_order_refuted :
  exists ks a b c, post_lt ks a b = true /\ post_lt ks b c = true /\ post_lt ks c a = true.
Proof.
  exists [(false, SAmount)], (wit_post 5 [36]), (wit_post (-1) [69; 85; 82]), (wit_post 0 [36]).
  vm_compute. repeat split.
Qed.
Print Assumptions sort_key_strict_weak_order_refuted.

(* ---- --sort ---- *)

(* the sorted postings are a permutation of the input, amounts untouched *)
Theorem sort_rows_perm : forall ks l l',
  sort_posts ks l = Ok l' -> Permutation l l' /\ Permutation (map pamt l) (map pamt l').
Proof. exact sort_posts_perm. Qed.
Print Assumptions sort_rows_perm.

(* and, where the comparator is a strict weak order on them, exactly the list
   std::stable_sort must return: sorted by the key, ties in input order *)
Theorem sort_rows_stable : forall ks l l',
  sort_posts ks l = Ok l' -> sort_determined ks l = true ->
  is_stable_sort (post_lt ks) l l' /\
  forall l'', is_stable_sort (post_lt ks) l l'' -> l'' = l'.
Proof. exact sort_posts_spec. Qed.
Print Assumptions sort_rows_stable.

(* the register under --sort: same postings, that order, same grand total *)
Theorem sort_register : forall f ks l rows,
  report (mkOpts f GNone None (Some ks) None None) l = Ok rows ->
  let inp := filter (keep_post f) l in
  Permutation inp (map fst rows) /\
  (sort_determined ks inp = true ->
     is_stable_sort (post_lt ks) inp (map fst rows) /\
     forall l'', is_stable_sort (post_lt ks) inp l'' -> l'' = map fst rows) /\
  forall c, (den (last (map snd rows) VVoid) c == sum_den inp c)%Q.
Proof. exact sort_report_spec. Qed.
Print Assumptions sort_register.

(* ---- --head / --tail ---- *)

(* the transactions of a stream (maximal blocks of one post->xact) make up the stream *)
Theorem transactions_partition_stream : forall (A : Type) (xact : A -> Z) l,
  concat (xruns xact l) = l.
Proof. intros A xact. exact (xruns_concat xact). Qed.
Print Assumptions transactions_partition_stream.

(* every integer head and tail count: transaction i of L is kept iff it passes the test
   coded in truncate_xacts::flush (the early exit of operator() changes nothing) *)
Theorem head_tail_spec : forall (A : Type) (xact : A -> Z) head tail l,
  truncate xact head tail l =
  select (trunc_print head tail (Z.of_nat (length (xruns xact l)))) 0 (xruns xact l).
Proof. intros A xact. exact (truncate_select xact). Qed.
Print Assumptions head_tail_spec.

Theorem head_keeps_first_n : forall (A : Type) (xact : A -> Z) n l, 0 <= n ->
  truncate xact n 0 l = concat (firstn (Z.to_nat n) (xruns xact l)).
Proof. intros A. exact (@head_spec A). Qed.
Print Assumptions head_keeps_first_n.

Theorem tail_keeps_last_n : forall (A : Type) (xact : A -> Z) n l, 0 <= n ->
  truncate xact 0 n l = concat (skipn (length (xruns xact l) - Z.to_nat n) (xruns xact l)).
Proof. intros A. exact (@tail_spec A). Qed.
Print Assumptions tail_keeps_last_n.

Theorem head_and_tail : forall (A : Type) (xact : A -> Z) h t l, 0 < h -> 0 < t ->
  truncate xact h t l =
  select (fun i => (i <? h) || (Z.of_nat (length (xruns xact l)) - t <=? i)) 0 (xruns xact l).
Proof. intros A. exact (@head_tail_both_spec A). Qed.
Print Assumptions head_and_tail.

Theorem head_tail_zero_is_empty : forall (A : Type) (xact : A -> Z) l, truncate xact 0 0 l = [].
Proof. intros A. exact (@head_zero A). Qed.
Print Assumptions head_tail_zero_is_empty.

Theorem head_beyond_count_is_all : forall (A : Type) (xact : A -> Z) n l,
  Z.of_nat (length (xruns xact l)) <= n -> truncate xact n 0 l = l.
Proof. intros A. exact (@head_beyond A). Qed.
Print Assumptions head_beyond_count_is_all.

Theorem tail_beyond_count_is_all : forall (A : Type) (xact : A -> Z) n l,
  Z.of_nat (length (xruns xact l)) <= n -> truncate xact 0 n l = l.
Proof. intros A. exact (@tail_beyond A). Qed.
Print Assumptions tail_beyond_count_is_all.

(* negative counts as coded (outside the property's quantifier) *)
Theorem head_negative_drops_first_n : forall (A : Type) (xact : A -> Z) n l, 0 < n ->
  truncate xact (- n) 0 l = concat (skipn (Z.to_nat n) (xruns xact l)).
Proof. intros A. exact (@head_negative_spec A). Qed.
Print Assumptions head_negative_drops_first_n.

Theorem tail_negative_drops_last_n : forall (A : Type) (xact : A -> Z) n l, 0 < n ->
  truncate xact 0 (- n) l = concat (firstn (length (xruns xact l) - Z.to_nat n) (xruns xact l)).
Proof. intros A. exact (@tail_negative_spec A). Qed.
Print Assumptions tail_negative_drops_last_n.

(* on any report: the rows (with their running totals) under --head/--tail are the kept
   transactions of the same report without them *)
Theorem head_tail_register : forall f g cl s h t l rows,
  report (mkOpts f g cl s h t) l = Ok rows ->
  exists full, report (mkOpts f g cl s None None) l = Ok full /\
    rows = match h, t with
           | None, None => full
           | _, _ => select (trunc_print (zopt h) (zopt t)
                               (Z.of_nat (length (xruns (fun r => pxact (fst r)) full))))
                            0 (xruns (fun r => pxact (fst r)) full)
           end.
Proof. exact window_report_spec. Qed.
Print Assumptions head_tail_register.

(* ---- regrouping: groups partition the input, each is the exact per-commodity sum ---- *)

Theorem subtotal_sums : forall l rows,
  subtotal l = Ok rows ->
  StronglySorted str_lt (map pacct rows) /\
  (forall a, In a (map pacct rows) <-> exists p, In p l /\ pacct p = a) /\
  (forall r c, In r rows -> (den (pamt r) c == sum_den (filter (acct_is (pacct r)) l) c)%Q) /\
  (forall c, (sum_den rows c == sum_den l c)%Q).
Proof. exact RegroupProofs.subtotal_sums. Qed.
Print Assumptions subtotal_sums.

Theorem subtotal_group_sums : forall py xid comps rows,
  subtotal_group py xid comps = Ok rows ->
  StronglySorted str_lt (map pacct rows) /\
  (forall a, In a (map pacct rows) <-> exists p, In p comps /\ pacct p = a) /\
  (forall r c, In r rows -> (den (pamt r) c == sum_den (filter (acct_is (pacct r)) comps) c)%Q) /\
  (forall c, (sum_den rows c == sum_den comps c)%Q).
Proof. exact RegroupProofs.subtotal_group_sums. Qed.
Print Assumptions subtotal_group_sums.

Theorem by_payee_sums : forall l rows,
  by_payee l = Ok rows ->
  exists m rr,
    Permutation (concat (map snd m)) l /\
    StronglySorted str_lt (map fst m) /\
    buckets_ok m /\
    rows = concat rr /\
    Forall2 (fun e o => exists b, subtotal_group (payee_label src_by_payee_label (fst e)) (xid_subtotal b) (snd e) = Ok o) m rr /\
    forall c, (sum_den rows c == sum_den l c)%Q.
Proof. exact RegroupProofs.by_payee_sums. Qed.
Print Assumptions by_payee_sums.

(* the grouping key of --by-payee is post_t::payee() - the posting's own payee where it
   names one, else its transaction's: every row stands for a payee name k and an account a
   and is the exact per-commodity sum of the input postings with that payee and account,
   every posting has its row, and no two rows share payee and account (each posting is in
   exactly one group).  `mode` is how the source labels the row (Gen/ByPayeeLabel.v, read
   from src/filters.cc on every run); when the name is copied literally the row's payee IS
   the name. *)
Theorem by_payee_partition : forall mode l rows,
  by_payee_mode mode l = Ok rows ->
  (forall r, In r rows -> exists k, payee_name (ppayee r) = Some k /\
     (mode = LabelLiteral -> ppayee r = PName k) /\
     forall c, (den (pamt r) c ==
                sum_den (filter (fun p => payee_isb k p && acct_is (pacct r) p) l) c)%Q) /\
  (forall p, In p l -> exists k r, ppayee p = PName k /\ In r rows /\
     payee_name (ppayee r) = Some k /\ pacct r = pacct p).
Proof. exact by_payee_mode_partition. Qed.
Print Assumptions by_payee_partition.

Theorem by_payee_one_row_per_group : forall mode l rows,
  by_payee_mode mode l = Ok rows -> NoDup (map row_key rows).
Proof. exact by_payee_mode_one_row_per_group. Qed.
Print Assumptions by_payee_one_row_per_group.

(* the model of the source as it is: *)
Theorem by_payee_is_the_source_mode : forall l, by_payee l = by_payee_mode src_by_payee_label l.
Proof. reflexivity. Qed.
Print Assumptions by_payee_is_the_source_mode.

(* ---- finding F70: as long as by_payee_posts::flush hands the payee name to
   report_subtotal as spec_fmt (mode LabelStrftime), a name containing '%' (or 127 bytes
   long) is not shown as it is but run through strftime.  The statement "every row of
   --by-payee is labelled with its payee name" is false of that model. ---- *)
Theorem by_payee_label_is_name_refuted :
  exists l rows r, by_payee_mode LabelStrftime l = Ok rows /\ In r rows /\
    forall k, ppayee r <> PName k.
Proof.
  exists [mkPost 0 18690 18690 (PName [53; 48; 37; 100]) (PName [53; 48; 37; 100]) [65] false 0
            (VAmt (mkAmt 1 0 false (Some [36])))].
  eexists. eexists. split; [vm_compute; reflexivity|]. split; [left; reflexivity|].
  intros k. discriminate.
Qed.
Print Assumptions by_payee_label_is_name_refuted.

(* ---- option combinations: --sort after any regrouping returns a permutation of the
   regrouped rows (which satisfy the *_sums theorems), with the same grand total ---- *)
Theorem sort_after_regroup_perm : forall o l rows,
  report o l = Ok rows -> o_head o = None -> o_tail o = None ->
  exists c, before_sort o l = Ok c /\
    Permutation c (map fst rows) /\
    forall cm, (den (last (map snd rows) VVoid) cm == sum_den c cm)%Q.
Proof. exact RegroupProofs.sort_after_regroup_perm. Qed.
Print Assumptions sort_after_regroup_perm.

Theorem dow_sums : forall l rows,
  day_of_week_posts l = Ok rows ->
  exists rr,
    rows = concat rr /\
    Forall2 (fun e o => exists b, subtotal_group (fun _ => PDow (fst e)) (xid_subtotal b) (snd e) = Ok o)
            (map (fun i => (i, filter (fun p => day_of_week (pdate p) =? i) l)) week) rr /\
    (forall p, In p l -> exists i, In i week /\ day_of_week (pdate p) = i) /\
    forall c, (sum_den rows c == sum_den l c)%Q.
Proof. exact RegroupProofs.dow_sums. Qed.
Print Assumptions dow_sums.

Theorem collapse_sums : forall depth l rows,
  collapse depth l = Ok rows ->
  concat (runs l) = l /\
  (exists rr, rows = concat rr /\
     Forall2 (fun r o => exists g, collapse_group depth g r = Ok o) (runs l) rr) /\
  forall c, (sum_den rows c == sum_den l c)%Q.
Proof. exact RegroupProofs.collapse_sums. Qed.
Print Assumptions collapse_sums.

Theorem collapse_group_sums : forall depth g comps rows,
  collapse_group depth g comps = Ok rows ->
  (forall c, (sum_den rows c == sum_den comps c)%Q) /\
  (rows = comps \/
   (NoDup (map pacct rows) /\
    (forall a, In a (map pacct rows) <-> exists p, In p comps /\ totals_key depth p = a) /\
    forall r c, In r rows ->
      (den (pamt r) c == sum_den (filter (key_is depth (pacct r)) comps) c)%Q)).
Proof. exact RegroupProofs.collapse_group_sums. Qed.
Print Assumptions collapse_group_sums.

Theorem depth_sums : forall depth g comps rows,
  depth <> 0 -> collapse_group depth g comps = Ok rows ->
  NoDup (map pacct rows) /\
  (forall a, In a (map pacct rows) <-> exists p, In p comps /\ take_segs (Z.to_nat depth) (pacct p) = a) /\
  (forall r c, In r rows ->
     (den (pamt r) c ==
      sum_den (filter (fun p => str_eqb (take_segs (Z.to_nat depth) (pacct p)) (pacct r)) comps) c)%Q) /\
  forall c, (sum_den rows c == sum_den comps c)%Q.
Proof. exact depth_group_sums. Qed.
Print Assumptions depth_sums.

(* the transactions collapse_posts merges are the ones --head/--tail count *)
Theorem collapse_transactions_are_stream_transactions : forall l, runs l = xruns pxact l.
Proof. exact runs_are_xruns. Qed.
Print Assumptions collapse_transactions_are_stream_transactions.

(* the running total of the last row is the exact sum of all rows: with the *_sums
   theorems, the grand total of every regrouped register equals the plain one *)
Theorem grand_total_is_sum : forall l rows c,
  calc VVoid l = Ok rows -> (den (last (map snd rows) VVoid) c == sum_den l c)%Q.
Proof. exact calc_grand_total. Qed.
Print Assumptions grand_total_is_sum.

(* ---- an account that is posted to both virtually and really is subtotalled like any other
   (only the equity command refuses it: /repo 58fd328, formerly F25); the witness that used
   to fail now reports the sum ---- *)
Definition wit_virt (v : bool) : post :=
  mkPost 0 0 0 (PName [80]) (PName [80]) [65] v 0 (VAmt (mkAmt 1 0 false (Some [36]))).

Example subtotal_real_and_virtual_reports :
  exists r, subtotal [wit_virt false; wit_virt true] = Ok [r] /\
            pamt r = VAmt (mkAmt 2 0 false (Some [36])).
Proof. eexists. split; vm_compute; reflexivity. Qed.

(* ---- non-vacuity: the hypotheses are satisfiable ---- *)
Definition ex_post (x d : Z) (py acct sym : str) (n : Z) : post :=
  mkPost x d d (PName py) (PName py) acct false 0 (VAmt (mkAmt (inject_Z n) 2 false (Some sym))).
Definition ex_posts : list post :=
  [ex_post 0 18266 [83] [69; 58; 70] [36] 10; ex_post 0 18266 [83] [65; 58; 67] [36] (-10);
   ex_post 3 18264 [67] [69; 58; 70] [69] 3; ex_post 3 18264 [67] [65; 58; 67] [69] (-3);
   ex_post 6 18266 [83] [69; 58; 68] [36] 10; ex_post 6 18266 [83] [65; 58; 67] [36] (-10)].

Example all_options_report :
  (exists r, report (mkOpts (mkFilt false 0 None None) GNone None (Some [(false, SDate); (true, SAmount)]) (Some 2) None) ex_posts = Ok r /\ length r = 3%nat) /\
  sort_determined [(false, SDate); (true, SAmount)] ex_posts = true /\
  (exists r, subtotal ex_posts = Ok r /\ length r = 3%nat) /\
  (exists r, by_payee ex_posts = Ok r /\ length r = 5%nat) /\
  (exists r, day_of_week_posts ex_posts = Ok r /\ length r = 5%nat) /\
  (exists r, collapse 0 ex_posts = Ok r /\ length r = 3%nat) /\
  (exists r, collapse 1 ex_posts = Ok r /\ length r = 6%nat).
Proof. vm_compute. repeat split; eexists; split; reflexivity. Qed.

(* ---- --by-payee --subtotal, --dow --subtotal: subtotal_posts behind another subtotalling
   handler (stage_group GByPayeeSub / GDowSub) is subtotal_posts once more on the rows of the
   first one; a row holding several commodities counts with its whole value (/repo 790ae5e,
   formerly F1709): rows in account order, one per account, each the exact sum of the rows
   of that account, and the grand total is the plain register's. ---- *)
Theorem resubtotal_sums : forall l rows,
  resubtotal l = Ok rows ->
  StronglySorted str_lt (map pacct rows) /\
  (forall a, In a (map pacct rows) <-> exists p, In p l /\ pacct p = a) /\
  (forall r c, In r rows -> (den (pamt r) c == sum_den (filter (acct_is (pacct r)) l) c)%Q) /\
  (forall c, (sum_den rows c == sum_den l c)%Q).
Proof. exact RegroupProofs.resubtotal_sums. Qed.
Print Assumptions resubtotal_sums.

Theorem by_payee_subtotal_total : forall l rows c,
  stage_group GByPayeeSub l = Ok rows -> (sum_den rows c == sum_den l c)%Q.
Proof. exact RegroupProofs.by_payee_subtotal_total. Qed.
Print Assumptions by_payee_subtotal_total.

Theorem dow_subtotal_total : forall l rows c,
  stage_group GDowSub l = Ok rows -> (sum_den rows c == sum_den l c)%Q.
Proof. exact RegroupProofs.dow_subtotal_total. Qed.
Print Assumptions dow_subtotal_total.

(* the former witnesses: `A: Food 10 EUR, Cash -10 EUR, Food $5, Bank $-5` reports Food with
   both commodities, also when Food already has an entry (which used to abort the report) *)
Definition wit_resub : list post :=
  [ex_post 0 18630 [65] [70] [69] 10; ex_post 0 18630 [65] [67] [69] (-10);
   ex_post 3 18630 [65] [70] [36] 5;  ex_post 3 18630 [65] [66] [36] (-5)].

Definition c_usd : option comm := Some [36].
Definition c_eur : option comm := Some [69].

Example resubtotal_multi_commodity_row_counts :
  (exists rows, stage_group GByPayeeSub wit_resub = Ok rows /\ length rows = 3%nat /\
     (sum_den rows c_usd == sum_den wit_resub c_usd)%Q /\ (sum_den rows c_eur == sum_den wit_resub c_eur)%Q) /\
  (exists rows, stage_group GByPayeeSub
     (ex_post 6 18629 [48] [70] [36] 3 :: ex_post 6 18629 [48] [66] [36] (-3) :: wit_resub) = Ok rows /\
     length rows = 3%nat).
Proof.
  split; eexists; (split; [vm_compute; reflexivity|]); repeat split; vm_compute; reflexivity.
Qed.
