(* C04 - amounts print at commodity precision, correctly rounded, and re-read unchanged.
   Property theorems only (proofs: Proofs/RoundProofs.v, Proofs/AmountTextProofs.v). *)
From LedgerV Require Import Base.Prelude Base.Round Model.Amount Model.AmountText Model.DecimalComma
  Proofs.RoundProofs Proofs.AmountTextProofs Proofs.DecimalCommaProofs Gen.AmountConsts Gen.InvalidChars Gen.SourceGuards
  Gen.DecimalComma.
From Coq Require Import Permutation.
Local Open Scope Z_scope.

(* the constants of the rounding model are those of the source today (regenerated table) *)
Theorem model_constants_match_source :
  extend_by_digits = src_extend_by_digits /\ 64 = src_mpfr_bits_per_digit.
Proof. exact (conj extend_by_digits_is_source mpfr_bits_per_digit_is_source). Qed.
Print Assumptions model_constants_match_source.

(* the printed number (an integer N standing for N / 10^p) is within half a unit in the last
   displayed place of the exact quantity n/d:  |N/10^p - n/d| <= 1/2 * 10^-p *)
Theorem print_within_half_ulp : forall n d p,
  0 < d -> 0 <= p -> 10 ^ p <= 2 ^ (bits d + 767) ->
  2 * Z.abs (print_scaled n d p * d - n * 10 ^ p) <= d.
Proof. exact print_half_ulp. Qed.
Print Assumptions print_within_half_ulp.

(* the size hypothesis holds for every display precision up to 230 *)
Theorem print_within_half_ulp_upto_230 : forall n d p,
  0 < d -> 0 <= p <= 230 ->
  2 * Z.abs (print_scaled n d p * d - n * 10 ^ p) <= d.
Proof. exact print_half_ulp_230. Qed.
Print Assumptions print_within_half_ulp_upto_230.

(* never a truncation: strictly above half a unit the digit is rounded up *)
Theorem print_is_not_truncation : forall n d p,
  0 < d -> 0 <= p <= 230 -> 0 <= n ->
  2 * ((n * 10 ^ p) mod d) > d -> print_scaled n d p = (n * 10 ^ p) / d + 1.
Proof. exact print_not_truncation. Qed.
Print Assumptions print_is_not_truncation.

(* roundto(): exact round-half-even on the rational, no floating point involved *)
Theorem roundto_is_half_even : forall n d places,
  0 < d -> 2 * Z.abs (roundto_scaled n d places * d - n * 10 ^ places) <= d.
Proof. exact roundto_half_even. Qed.
Print Assumptions roundto_is_half_even.

Theorem roundto_ties_to_even : forall n d, 0 < d -> 2 * (n mod d) = d -> Z.even (rhe_nd n d) = true.
Proof. exact rhe_nd_tie_even. Qed.
Print Assumptions roundto_ties_to_even.

(* the number of decimals shown *)
Theorem display_precision_rule : forall cp a,
  display_precision cp a =
  match acomm a with
  | Some c => if akeep a then Z.max (aprec a) (cp c) else cp c
  | None => aprec a
  end.
Proof. exact display_precision_spec. Qed.
Print Assumptions display_precision_rule.

(* the commodity's display precision is the largest number of decimals written, its style
   the union of the styles seen - whatever the order in which the amounts were seen *)
Theorem pool_learns_max_precision : forall ci l,
  let p := ci_prec (learn_all ci l) in
  ci_prec ci <= p /\ (forall x, In x (map fst l) -> x <= p) /\ (p = ci_prec ci \/ In p (map fst l)).
Proof. exact learn_all_prec_is_max. Qed.
Print Assumptions pool_learns_max_precision.

Theorem pool_precision_order_free : forall ci l l',
  Permutation l l' -> ci_prec (learn_all ci l) = ci_prec (learn_all ci l').
Proof. exact learn_all_prec_perm. Qed.
Print Assumptions pool_precision_order_free.

Theorem pool_style_order_free : forall ci l l',
  Permutation l l' -> ci_style (learn_all ci l) = ci_style (learn_all ci l').
Proof. exact learn_all_style_perm. Qed.
Print Assumptions pool_style_order_free.

(* report columns (justify(), the default balance/register formats): the quotes of an unusual symbol are dropped
   only from a symbol that is set apart from the number by a space, contains no space and is not a number itself;
   a symbol joined to its number is always shown exactly as amount_text shows it *)
Theorem column_quotes_dropped_only_when_separated : forall st sym,
  column_symbol_text st sym = symbol_text sym \/
  (column_symbol_text st sym = sym /\ st_separated st = true /\
   existsb (fun c => c =? 32) sym = false /\ forallb is_digit sym = false).
Proof. exact column_symbol_text_cases. Qed.
Print Assumptions column_quotes_dropped_only_when_separated.

Theorem column_text_of_joined_symbol_is_full_text : forall cp st a,
  st_separated st = false -> amount_text_col cp st a = amount_text cp st a.
Proof. exact column_text_unseparated. Qed.
Print Assumptions column_text_of_joined_symbol_is_full_text.

(* the printed symbol is read back whole: symbol_text quotes a symbol exactly when the reader (which stops at the first
   character of the regenerated invalid_chars table) would stop inside it.  Hypotheses: the symbol is not empty, does not
   begin with white space and holds no double quote (a symbol that spells a reserved word of the scanner is covered: it
   is written in quotes - F160, repaired in /repo; before, this theorem needed "is not a reserved word"); what follows it in the text is the end or a
   character the reader stops at (a blank, a digit, a sign - as in every printed amount) *)
Theorem printed_symbol_reads_back : forall sym rest c0 s0,
  sym = c0 :: s0 -> is_space c0 = false ->
  existsb (fun c => c =? 34) sym = false ->
  (match rest with [] => True | c :: _ => is_invalid c = true end) ->
  read_symbol (symbol_text sym ++ rest) = Ok (sym, rest).
Proof. exact symbol_text_reads_back. Qed.
Print Assumptions printed_symbol_reads_back.

Example ex_symbols_read_back :
  read_symbol (symbol_text [81; 126; 90] ++ [32; 49]) = Ok ([81; 126; 90], [32; 49]) /\      (* "Q~Z" 1 : quoted *)
  symbol_text [81; 126; 90] = [34; 81; 126; 90; 34] /\
  read_symbol (symbol_text [69; 85; 82] ++ [32; 49]) = Ok ([69; 85; 82], [32; 49]) /\         (* EUR 1 : bare *)
  symbol_text [69; 85; 82] = [69; 85; 82] /\
  read_symbol (symbol_text [97; 110; 100] ++ [32; 49]) = Ok ([97; 110; 100], [32; 49]) /\      (* "and" 1 : quoted *)
  symbol_text [97; 110; 100] = [34; 97; 110; 100; 34] /\
  symbol_text [97; 110; 100; 121] = [97; 110; 100; 121].                                      (* andy : bare *)
Proof. vm_compute. repeat split. Qed.

(* print -> re-read, plain decimal texts (digits and a decimal point): the reader recovers
   exactly the integer and the precision that were printed.  PARTIAL: decimal comma and symbol
   placement are covered by the correspondence check only (thousands marks: next theorem; quoting:
   printed_symbol_reads_back). *)
Theorem print_parse_roundtrip_plain_partial : forall N p,
  0 <= N -> 0 < p ->
  scan_quantity false (quantity_text style_none false false N p p) = Ok (mkPQ N p false false).
Proof. exact plain_text_roundtrip. Qed.
Print Assumptions print_parse_roundtrip_plain_partial.

(* the same with thousands marks: N / 10^p printed in a style that groups the integer digits in threes is read back as
   exactly N with precision p - every comma stands where the count of digits to its right is a multiple of three, so the
   reader (scan_step: a comma elsewhere after a decimal point is an error, a comma at a multiple of three is a mark)
   neither refuses the text nor takes a mark for the decimal point (decimal-comma styles: correspondence only, F21) *)
Theorem print_parse_roundtrip_thousands_marks : forall N p sfx sep,
  0 <= N -> 0 < p ->
  exists th, scan_quantity false (quantity_text (mkStyle sfx sep true false) true false N p p) = Ok (mkPQ N p th false).
Proof. exact grouped_text_roundtrip. Qed.
Print Assumptions print_parse_roundtrip_thousands_marks.

Example ex_roundtrip_thousands_marks :
  quantity_text (mkStyle false false true false) true false 123456789 2 2 = [49;44;50;51;52;44;53;54;55;46;56;57] /\
  scan_quantity false [49;44;50;51;52;44;53;54;55;46;56;57] = Ok (mkPQ 123456789 2 true false).
Proof. exact grouped_roundtrip_example. Qed.

Theorem digits_read_back : forall n, 0 <= n -> digits_value 0 (digits n) = n.
Proof. exact digits_value_digits. Qed.
Print Assumptions digits_read_back.

(* non-vacuity and tie behaviour of the MPFR model (validated against the binary):
   0.015 -> 0.01, 0.025 -> 0.02, 0.035 -> 0.03, 0.045 -> 0.05, 0.125 -> 0.12, 0.375 -> 0.38 *)
Example tie_examples :
  (print_scaled 3 200 2, print_scaled 1 40 2, print_scaled 7 200 2, print_scaled 9 200 2,
   print_scaled 1 8 2, print_scaled 3 8 2) = (1, 2, 3, 5, 12, 38).
Proof. vm_compute. reflexivity. Qed.

(* finding F21: a decimal-comma text with a multiple-of-3 number of decimals is read back, in a
   fresh context, as a thousands-separated integer *)
Theorem reread_decimal_comma_ambiguous_refuted :
  exists N p, 0 <= N /\ 0 < p /\
    scan_quantity false (quantity_text (mkStyle false false false true) false false N p p)
    <> Ok (mkPQ N p false true).
Proof. exists 310200000, 6. split; [lia|]. split; [lia|]. vm_compute. discriminate. Qed.
Print Assumptions reread_decimal_comma_ambiguous_refuted.

(* "unless fixed by a commodity format directive": the directive's amount is read like any other (it teaches its flags
   and decimals), and from then on nothing teaches the commodity anything - what is displayed is what was learned up to
   and including the directive, whatever is written afterwards (finfo / learn_f / fix_format in Model/AmountText.v; the
   correspondence runs journals with such directives, later postings written in other styles, against ledger) *)
Theorem format_directive_fixes_display : forall f p st l,
  learn_f_all (fix_format f p st) l = fix_format f p st.
Proof. exact format_fixes_display. Qed.
Print Assumptions format_directive_fixes_display.

Theorem display_info_around_a_format_directive : forall ci before p st after,
  fi_info (learn_f_all (fix_format (learn_f_all (mkFI ci false) before) p st) after) =
  learn (learn_all ci before) p st.
Proof. exact display_info_with_format_directive. Qed.
Print Assumptions display_info_around_a_format_directive.

Example ex_format_directive :
  let plain := mkStyle false false false false in
  let marks := mkStyle true true true false in
  fi_info (learn_f_all (fix_format (mkFI (mkCI 0 plain) false) 2 plain) [(4, marks); (0, marks)]) = mkCI 2 plain /\
  fi_info (learn_f_all (mkFI (mkCI 0 plain) false) [(4, marks); (0, marks)]) = mkCI 4 marks.
Proof. vm_compute. split; reflexivity. Qed.

(* the tie to the source by translation: the lines of /repo/src this model transcribes (harness/translators/src_guards.py
   lists them, with the function each is looked for in) are still there, in the same order, in the source as it is NOW -
   coq/Gen/SourceGuards.v is regenerated on every run and names the guards that are false *)
Theorem model_transcribes_current_source : forallb (fun b => b) src_guards_C04 = true.
Proof. vm_compute. reflexivity. Qed.
Print Assumptions model_transcribes_current_source.

(* ---------------------------------------------------------------------------------------------------------------------
   --decimal-comma (Model/DecimalComma.v).  The option enters the reader at one site and the printer at two; the three
   conditions and the bytes written are transcribed from src/amount.cc on every run (Gen/DecimalComma.v,
   harness/translators/c04_decimal_comma.py) and the theorems below are about the model instantiated with THEM. *)

(* the sites read today: `decimal_comma_by_default || the commodity's flag` at all three, ',' for the point and '.' for
   the mark when it holds, the buffer's '.' and ',' otherwise; the reader's final style is what the commodity learns; the
   option sets the default *)
Theorem decimal_comma_sites_match_source :
  src_dc_reader_init = DcDefaultOrFlag /\
  src_dc_print_point = (DcDefaultOrFlag, 44, 0) /\
  src_dc_print_mark = (DcDefaultOrFlag, 46, 44) /\
  src_dc_learned_from_reader_style = true /\
  src_dc_option_sets_default = true.
Proof. exact dc_sites_are_todays. Qed.
Print Assumptions decimal_comma_sites_match_source.

(* reader and printer decide alike, in every session and for every commodity: the reader expects a decimal comma exactly
   when the printer writes one, and the printer's two sites agree (',' with '.' marks, or '.' with ',' marks) *)
Theorem reader_and_printer_agree_on_decimal_comma : forall dcd flag,
  reader_dc dcd flag = printed_dc dcd flag /\
  printed_point dcd flag = (if printed_dc dcd flag then 44 else 46) /\
  printed_mark dcd flag = (if printed_dc dcd flag then 46 else 44).
Proof. exact reader_printer_agree. Qed.
Print Assumptions reader_and_printer_agree_on_decimal_comma.

(* the text built from the bytes of the two printer sites is quantity_text in the session's effective style *)
Theorem printer_sites_give_the_session_style : forall dcd st tok neg N p zp,
  quantity_text_sites dcd st tok neg N p zp = quantity_text (session_style dcd st) tok neg N p zp.
Proof. exact quantity_text_sites_eq. Qed.
Print Assumptions printer_sites_give_the_session_style.

(* "decimal comma" as a learned style: a reader that starts in decimal-comma mode never leaves it, so every amount it
   accepts teaches (or confirms) the style; under --decimal-comma that is every amount of every commodity *)
Theorem decimal_comma_style_is_kept : forall s pa,
  parse_amount_text true s = Ok pa -> st_decimal_comma (pa_style pa) = true.
Proof. exact parse_keeps_dc. Qed.
Print Assumptions decimal_comma_style_is_kept.

Theorem decimal_comma_option_teaches_every_commodity : forall flag s pa,
  parse_amount_text_session true flag s = Ok pa -> st_decimal_comma (pa_style pa) = true.
Proof. exact option_teaches_decimal_comma. Qed.
Print Assumptions decimal_comma_option_teaches_every_commodity.

(* the positive side of F21 (reread_decimal_comma_ambiguous_refuted above): once the reader knows the style - the
   commodity has learned it, or --decimal-comma is given - a decimal-comma text is read back as exactly the number
   printed, for EVERY number of decimals (3, 6, 9, 12 included), with or without thousands periods *)
Theorem reread_with_known_decimal_comma : forall N p sfx sep th,
  0 <= N -> 0 < p ->
  exists th', scan_quantity true (quantity_text (mkStyle sfx sep th true) true false N p p) = Ok (mkPQ N p th' true).
Proof. exact dc_text_roundtrip. Qed.
Print Assumptions reread_with_known_decimal_comma.

Theorem reread_integer_with_known_decimal_comma : forall N sfx sep th,
  0 <= N ->
  exists th', scan_quantity true (quantity_text (mkStyle sfx sep th true) true false N 0 0) = Ok (mkPQ N 0 th' true).
Proof. exact dc_integer_text_roundtrip. Qed.
Print Assumptions reread_integer_with_known_decimal_comma.

(* with the sites of the source: what a --decimal-comma session prints it reads back, whatever the commodity had learned *)
Theorem reread_under_decimal_comma_option : forall flag N p sfx sep th,
  0 <= N -> 0 < p ->
  exists th', scan_quantity (reader_dc true flag)
                (quantity_text_sites true (mkStyle sfx sep th flag) true false N p p) = Ok (mkPQ N p th' true).
Proof. exact reread_under_option. Qed.
Print Assumptions reread_under_decimal_comma_option.

(* and in general: printed and re-read in the same session (option given or not, style learned or not), the text of
   N / 10^p denotes N / 10^p, and the reader ends in the style the printer used *)
Theorem reread_in_the_same_session : forall dcd flag N p sfx sep th,
  0 <= N -> 0 < p ->
  exists th', scan_quantity (reader_dc dcd flag)
                (quantity_text_sites dcd (mkStyle sfx sep th flag) true false N p p) = Ok (mkPQ N p th' (dcd || flag)).
Proof. exact reread_same_session. Qed.
Print Assumptions reread_in_the_same_session.

(* F21's witness: `310,200000` is 310.200000 to a session with the option and 310200000 to one without *)
Example ex_f21_text_under_the_option :
  quantity_text_sites true (mkStyle false false false false) true false 310200000 6 6 = [51;49;48;44;50;48;48;48;48;48] /\
  scan_quantity (reader_dc true false) [51;49;48;44;50;48;48;48;48;48] = Ok (mkPQ 310200000 6 false true) /\
  scan_quantity (reader_dc false false) [51;49;48;44;50;48;48;48;48;48] = Ok (mkPQ 310200000 0 true false).
Proof. exact f21_text_under_the_option. Qed.

(* the loop that removes the marks before mpq_set_str (amount_t::parse: every mark is skipped):
   digits pass unchanged, no mark survives and a mark standing between digits disappears, so a "digits mark digits" text
   is handed to mpq_set_str as its digits alone - which is what the reader model's digits_value reads *)
Theorem stripping_loop_leaves_digits : forall s, Forall (fun c => is_digit c = true) s -> strip_marks s = s.
Proof. exact strip_marks_digits. Qed.
Print Assumptions stripping_loop_leaves_digits.

Theorem stripping_loop_accepts_plain_decimal_texts : forall c0 ip fp m,
  Forall (fun c => is_digit c = true) (c0 :: ip) -> Forall (fun c => is_digit c = true) fp -> fp <> [] -> is_mark m = true ->
  set_str_accepts ((c0 :: ip) ++ m :: fp) = true.
Proof. exact set_str_accepts_plain_decimal. Qed.
Print Assumptions stripping_loop_accepts_plain_decimal_texts.

Theorem stripping_loop_leaves_no_mark : forall s, forallb (fun c => negb (is_mark c)) (strip_marks s) = true.
Proof. exact strip_marks_only_digits. Qed.
Print Assumptions stripping_loop_leaves_no_mark.

(* ... and on a text with two marks side by side both go, mpq_set_str gets the digits and the amount is what the scan
   made of it, never a silent zero: `1.,2 EUR` is 1,2 EUR (decimal comma), `1,.2 EUR` is 1.2 EUR *)
Example ex_adjacent_marks_both_stripped :
  strip_marks [49;46;44;50] = [49;50] /\ set_str_accepts [49;46;44;50] = true /\
  (exists pa, parse_amount_text_session false false [49;46;44;50;32;69;85;82] = Ok pa /\ pa_num pa = 12 /\ pa_prec pa = 1
              /\ st_decimal_comma (pa_style pa) = true) /\
  (exists pa, parse_amount_text_session false false [49;44;46;50;32;69;85;82] = Ok pa /\ pa_num pa = 12 /\ pa_prec pa = 1
              /\ st_decimal_comma (pa_style pa) = false) /\
  (exists pa, parse_amount_text_session false false [49;44;50;32;69;85;82] = Ok pa /\ pa_num pa = 12 /\ pa_prec pa = 1).
Proof. exact adjacent_marks_both_stripped. Qed.
