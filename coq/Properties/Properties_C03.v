(* C03 - amount arithmetic is exact rational arithmetic.
   Property theorems only; proofs are in Proofs/AmountProofs.v.
   `aq` is the exact quantity of an amount, `bden`/`den` the exact quantity a balance /
   value holds per commodity; `cp` is the commodity pool's display precision, `ord` the
   (unspecified) hash-table insertion order - every statement holds for all of them. *)
From LedgerV Require Import Base.Prelude Base.Round Model.Amount Proofs.AmountProofs Proofs.SortedProofs Proofs.CompareProofs Gen.SourceGuards.
From Coq Require Import Qabs Permutation.
Local Open Scope Q_scope.

(* ---- amounts: each operation returns the exact rational result or the stated error ---- *)
Theorem amount_add_exact : forall a b r, amt_add a b = Ok r -> aq r == aq a + aq b.
Proof. exact amt_add_exact. Qed.
Print Assumptions amount_add_exact.

Theorem amount_sub_exact : forall a b r, amt_sub a b = Ok r -> aq r == aq a - aq b.
Proof. exact amt_sub_exact. Qed.
Print Assumptions amount_sub_exact.

Theorem amount_add_error_iff : forall a b,
  (forall e, amt_add a b = Err e -> diff_comm a b = true /\ e = EDiffComm) /\
  (diff_comm a b = false -> exists r, amt_add a b = Ok r).
Proof. intros a b. split; [intros e; apply amt_add_error | apply amt_add_total]. Qed.
Print Assumptions amount_add_error_iff.

Theorem amount_mul_exact : forall cp a b, aq (amt_mul cp a b) == aq a * aq b.
Proof. exact amt_mul_exact. Qed.
Print Assumptions amount_mul_exact.

Theorem amount_div_exact : forall cp a b r,
  amt_div cp a b = Ok r -> ~ aq b == 0 /\ aq r == aq a / aq b.
Proof. exact amt_div_exact. Qed.
Print Assumptions amount_div_exact.

Theorem amount_div_error_only_on_zero : forall cp a b,
  (forall e, amt_div cp a b = Err e -> aq b == 0 /\ e = EDivZero) /\
  (~ aq b == 0 -> exists r, amt_div cp a b = Ok r).
Proof. intros cp a b. split; [intros e; apply amt_div_error | apply amt_div_total]. Qed.
Print Assumptions amount_div_error_only_on_zero.

Theorem amount_neg_exact : forall a, aq (amt_neg a) == - aq a.
Proof. exact amt_neg_exact. Qed.
Print Assumptions amount_neg_exact.

Theorem amount_abs_exact : forall a, aq (amt_abs a) == Qabs (aq a).
Proof. exact amt_abs_exact. Qed.
Print Assumptions amount_abs_exact.

(* ---- no precision counter, keep flag or pool precision ever alters a quantity ---- *)
Theorem precision_never_alters_sum : forall a b a' b' r r',
  aq a = aq a' -> aq b = aq b' -> amt_add a b = Ok r -> amt_add a' b' = Ok r' -> aq r = aq r'.
Proof. exact prec_irrelevant_add. Qed.
Print Assumptions precision_never_alters_sum.

Theorem precision_never_alters_product : forall cp cp' a b a' b',
  aq a = aq a' -> aq b = aq b' -> aq (amt_mul cp a b) = aq (amt_mul cp' a' b').
Proof. exact prec_irrelevant_mul. Qed.
Print Assumptions precision_never_alters_product.

Theorem precision_never_alters_quotient : forall cp cp' a b a' b' r r',
  aq a = aq a' -> aq b = aq b' ->
  amt_div cp a b = Ok r -> amt_div cp' a' b' = Ok r' -> aq r = aq r'.
Proof. exact prec_irrelevant_div. Qed.
Print Assumptions precision_never_alters_quotient.

(* ---- equality and ordering are decided on exact values ---- *)
Theorem compare_on_exact_values : forall a b c,
  amt_compare a b = Ok c -> c = Qcompare (aq a) (aq b).
Proof. exact amt_compare_exact. Qed.
Print Assumptions compare_on_exact_values.

Theorem equality_on_exact_values : forall a b,
  amt_eqb a b = true <-> acomm a = acomm b /\ aq a == aq b.
Proof. exact amt_eqb_spec. Qed.
Print Assumptions equality_on_exact_values.

(* ordering of a BALANCE-typed value (a multi-commodity balance, or an amount that became one: `$5 + 0`) against
   a number or an amount w: `<` holds exactly when EVERY component is below w's exact quantity; in particular a
   component exactly equal to w vetoes it ( ($5 + 0) < $5 is false ) *)
Theorem balance_less_than_on_exact_values : forall b w q r,
  b <> [] -> scalar_q w = Some q -> v_ltb (VBal b) w = Ok r ->
  (r = true <-> Forall (fun x => aq x < q) b).
Proof. exact v_ltb_balance_exact. Qed.
Print Assumptions balance_less_than_on_exact_values.

Theorem balance_less_than_vetoed_by_equal_component : forall w q b x r,
  scalar_q w = Some q -> In x b -> aq x == q -> v_ltb (VBal b) w = Ok r -> r = false.
Proof. exact v_ltb_balance_equal_component. Qed.
Print Assumptions balance_less_than_vetoed_by_equal_component.

Example ex_balance_boundary :
  let five := mkAmt (5 # 1) 0 false (Some [36%Z]) in
  v_ltb (VBal [five]) (VAmt five) = Ok false /\
  v_ltb (VBal [five]) (VAmt (mkAmt (501 # 100) 2 false (Some [36%Z]))) = Ok true.
Proof. vm_compute. split; reflexivity. Qed.

(* since /repo 55e6d28 (finding F190 repaired) value_t::is_less_than walks a balance in commodity order (sorted_amounts),
   not in hash-table order, and stops at the first entry that decides.  The comparison of a balance with ANY operand -
   a plain number, a COMMODITIZED amount, another balance -, on either side, is therefore a function of the contents of
   the table: the same truth value, or the same error, for every Permutation of the entries (`distinct_keys`: one entry
   per commodity, the invariant of the table).  `<`, `>`, `<=`, `>=` of the expression language are all built from it. *)
Theorem balance_comparison_order_free : forall b b' w,
  distinct_keys b -> Permutation b b' ->
  v_ltb (VBal b) w = v_ltb (VBal b') w /\ v_ltb w (VBal b) = v_ltb w (VBal b').
Proof. exact v_ltb_balance_perm. Qed.
Print Assumptions balance_comparison_order_free.

Theorem expression_orderings_are_built_from_less_than : forall ord cp o l r v w,
  match o with OLt | OGt | OLe | OGe => True | _ => False end ->
  aeval ord cp l = Ok v -> aeval ord cp r = Ok w ->
  aeval ord cp (EBin o l r) = do b <- v_cmp o v w; Ok (VBool b).
Proof. exact aeval_cmp_is_v_cmp. Qed.
Print Assumptions expression_orderings_are_built_from_less_than.

Theorem balance_ordering_operators_order_free : forall o b b' w,
  distinct_keys b -> Permutation b b' ->
  v_cmp o (VBal b) w = v_cmp o (VBal b') w /\ v_cmp o w (VBal b) = v_cmp o w (VBal b').
Proof. exact v_cmp_balance_perm. Qed.
Print Assumptions balance_ordering_operators_order_free.

(* value_t::is_greater_than on the same cells (reached from C++ callers comparing a value with an amount_t / a long) *)
Theorem balance_greater_than_walk_order_free : forall w b b',
  distinct_keys b -> Permutation b b' -> bal_gt_scalar b w = bal_gt_scalar b' w.
Proof. exact bal_gt_scalar_perm. Qed.
Print Assumptions balance_greater_than_walk_order_free.

(* the former witness of the order dependence: `(1 EUR + 2 USD) < 1 EUR` is false and `(1 EUR + 2 USD) < 2 USD` is the
   error "different commodities" (EUR is met first and is not comparable with USD), whichever way the table lists them;
   `(0.5 EUR + 2 USD) < 1 EUR` passes EUR and fails on USD *)
Example ex_balance_against_commoditized_amount :
  let eur q := mkAmt q 0 false (Some [69; 85; 82]%Z) in
  let usd q := mkAmt q 0 false (Some [85; 83; 68]%Z) in
  distinct_keys [eur 1; usd 2] /\
  v_ltb (VBal [eur 1; usd 2]) (VAmt (eur 1)) = Ok false /\ v_ltb (VBal [usd 2; eur 1]) (VAmt (eur 1)) = Ok false /\
  v_ltb (VBal [eur 1; usd 2]) (VAmt (usd 2)) = Err EDiffComm /\ v_ltb (VBal [usd 2; eur 1]) (VAmt (usd 2)) = Err EDiffComm /\
  v_ltb (VBal [usd 2; eur (1 # 2)]) (VAmt (eur 1)) = Err EDiffComm /\
  v_ltb (VBal [usd 2; eur 1]) (VAmt (mkAmt 3 0 false None)) = Ok true.
Proof.
  cbv zeta. split.
  - unfold distinct_keys. cbn. constructor; [intros [H|[]]; discriminate | constructor; [intros [] | constructor]].
  - vm_compute. repeat split; reflexivity.
Qed.

(* ---- laws ---- *)
Theorem addition_commutative : forall a b r r',
  amt_add a b = Ok r -> amt_add b a = Ok r' -> aq r == aq r'.
Proof. exact add_comm_exact. Qed.
Print Assumptions addition_commutative.

Theorem addition_associative : forall a b c ab bc r r',
  amt_add a b = Ok ab -> amt_add ab c = Ok r ->
  amt_add b c = Ok bc -> amt_add a bc = Ok r' -> aq r == aq r'.
Proof. exact add_assoc_exact. Qed.
Print Assumptions addition_associative.

Theorem subtraction_undoes_addition : forall a b s r,
  amt_add a b = Ok s -> amt_sub s b = Ok r -> aq r == aq a.
Proof. exact sub_undoes_add. Qed.
Print Assumptions subtraction_undoes_addition.

Theorem division_undoes_multiplication : forall cp a b r,
  amt_div cp (amt_mul cp a b) b = Ok r -> aq r == aq a.
Proof. exact div_undoes_mul. Qed.
Print Assumptions division_undoes_multiplication.

(* ---- balances: pointwise per commodity, whatever the representation order ---- *)
Theorem balance_add_amount_pointwise : forall ord b a b' c,
  bal_add_amt ord b a = Ok b' -> bden b' c == bden b c + at_comm a c.
Proof. exact bal_add_amt_exact. Qed.
Print Assumptions balance_add_amount_pointwise.

Theorem balance_sub_amount_pointwise : forall ord b a b' c,
  bal_sub_amt ord b a = Ok b' -> bden b' c == bden b c - at_comm a c.
Proof. exact bal_sub_amt_exact. Qed.
Print Assumptions balance_sub_amount_pointwise.

Theorem balance_add_pointwise : forall ord c0 c b b',
  bal_add ord b c = Ok b' -> bden b' c0 == bden b c0 + bden c c0.
Proof. exact bal_add_exact. Qed.
Print Assumptions balance_add_pointwise.

Theorem balance_sub_pointwise : forall ord c0 c b b',
  bal_sub ord b c = Ok b' -> bden b' c0 == bden b c0 - bden c c0.
Proof. exact bal_sub_exact. Qed.
Print Assumptions balance_sub_pointwise.

(* a multi-commodity balance times / divided by a plain number: every commodity scales exactly;
   a zero divisor is an error *)
Theorem balance_mul_scalar_pointwise : forall cp b a r c,
  acomm a = None -> bal_mul cp b a = Ok r -> bden r c == bden b c * aq a.
Proof. exact bal_mul_scalar_exact. Qed.
Print Assumptions balance_mul_scalar_pointwise.

Theorem balance_div_scalar_pointwise : forall cp b a r c,
  acomm a = None -> bal_div cp b a = Ok r -> bden r c == bden b c / aq a.
Proof. exact bal_div_scalar_exact. Qed.
Print Assumptions balance_div_scalar_pointwise.

Theorem balance_div_by_zero_is_error : forall cp b a,
  bal_is_realzero b = false -> aq a == 0 -> bal_div cp b a = Err EDivZero.
Proof. exact bal_div_zero. Qed.
Print Assumptions balance_div_by_zero_is_error.

(* ---- values: every INTEGER/AMOUNT/BALANCE cell of + and - refines the denotation ---- *)
Theorem value_add_refines : forall ord v w r c,
  v_add ord v w = Ok r -> den r c == den v c + den w c.
Proof. exact v_add_exact. Qed.
Print Assumptions value_add_refines.

Theorem value_sub_refines : forall ord v w r c,
  v_sub ord v w = Ok r -> den r c == den v c - den w c.
Proof. exact v_sub_exact. Qed.
Print Assumptions value_sub_refines.

Theorem value_neg_refines : forall v r c, v_neg v = Ok r -> den r c == - den v c.
Proof. exact v_neg_exact. Qed.
Print Assumptions value_neg_refines.

Theorem value_mul_scalar_exact : forall cp v w r qv qw,
  scalar v = Some qv -> scalar w = Some qw -> v_mul cp v w = Ok r ->
  exists qr, scalar r = Some qr /\ qr == qv * qw.
Proof. exact v_mul_scalar_exact. Qed.
Print Assumptions value_mul_scalar_exact.

Theorem value_div_amount_exact : forall cp a w r qw,
  scalar w = Some qw -> v_div cp (VAmt a) w = Ok r ->
  ~ qw == 0 /\ exists qr, scalar r = Some qr /\ qr == aq a / qw.
Proof. exact v_div_amt_exact. Qed.
Print Assumptions value_div_amount_exact.

(* ---- whole expression trees over + - negation: any depth, any mix of commodities ---- *)
Theorem tree_addsub_exact : forall ord cp e v c,
  addsub_tree e = true -> aeval ord cp e = Ok v -> den v c == eden e c.
Proof. exact aeval_addsub_exact. Qed.
Print Assumptions tree_addsub_exact.

Theorem tree_addsub_order_free : forall cp e v v' c,
  addsub_tree e = true -> aeval false cp e = Ok v -> aeval true cp e = Ok v' -> den v c == den v' c.
Proof. exact aeval_addsub_order_free. Qed.
Print Assumptions tree_addsub_order_free.

(* non-vacuity: a concrete mixed-commodity tree meets the hypotheses and evaluates *)
Example tree_example :
  let usd := Some [36%Z] in let eur := Some [69; 85; 82]%Z in
  let e := EBin OSub (EBin OAdd (ELit (mkAmt (5 # 2) 1 false usd)) (ELit (mkAmt (1 # 3) 6 true eur)))
                     (ENeg (ELit (mkAmt 7 0 false None))) in
  addsub_tree e = true /\ exists v, aeval false (fun _ => 2%Z) e = Ok v.
Proof. cbn. split; [reflexivity | eexists; reflexivity]. Qed.

(* ---- finding F1: the INTEGER / AMOUNT cell divides the wrong way round.  The full
   statement "v_div (VInt x) (VAmt b) yields x / aq b" is FALSE of the faithful model
   (value.cc:716); witness to_int(6) / 3.0, which ledger evaluates to 0.5. ---- *)
Theorem value_div_int_amt_refuted :
  exists cp x b r, v_div cp (VInt x) (VAmt b) = Ok (VAmt r) /\ ~ aq r == inject_Z x / aq b.
Proof.
  exists (fun _ => 0%Z), 6%Z, (mkAmt 3 1 false None).
  eexists. split; [vm_compute; reflexivity|]. vm_compute. discriminate.
Qed.
Print Assumptions value_div_int_amt_refuted.

(* finding F61 (kept: test/unit/t_balance.cc:46,171-173 pin it): a commodity that cancels by `+ (-a)` leaves an exactly-zero
   component in the balance, and balance equality counts components: (($5 + 3 EUR) + (-$5)) == 3 EUR is false although
   both sides hold exactly the same quantity in every commodity *)
Theorem balance_equality_counts_cancelled_components_refuted :
  exists ord a o s r e,
    v_add ord (VAmt a) (VAmt o) = Ok s /\ v_add ord s (VAmt (amt_neg a)) = Ok r /\
    (forall c, den r c == den (VAmt o) c) /\ v_eqb r (VAmt o) = Ok e /\ e = false.
Proof.
  exists false, (mkAmt (5 # 1) 0 false (Some [36%Z])), (mkAmt (3 # 1) 0 false (Some [69%Z; 85%Z; 82%Z])).
  exists (VBal [mkAmt (5 # 1) 0 false (Some [36%Z]); mkAmt (3 # 1) 0 false (Some [69%Z; 85%Z; 82%Z])]).
  exists (VBal [mkAmt (0 # 1) 0 false (Some [36%Z]); mkAmt (3 # 1) 0 false (Some [69%Z; 85%Z; 82%Z])]).
  exists false.
  split; [vm_compute; reflexivity|]. split; [vm_compute; reflexivity|]. split.
  - intros c. cbn [den bden]. unfold at_comm. cbn [acomm aq].
    destruct (comm_eqb (Some [36%Z]) c); destruct (comm_eqb (Some [69%Z; 85%Z; 82%Z]) c); vm_compute; reflexivity.
  - split; [vm_compute; reflexivity | reflexivity].
Qed.
Print Assumptions balance_equality_counts_cancelled_components_refuted.

(* the tie to the source by translation: the lines of /repo/src this model transcribes (harness/translators/src_guards.py
   lists them, with the function each is looked for in) are still there, in the same order, in the source as it is NOW -
   coq/Gen/SourceGuards.v is regenerated on every run and names the guards that are false *)
Theorem model_transcribes_current_source : forallb (fun b => b) src_guards_C03 = true.
Proof. vm_compute. reflexivity. Qed.
Print Assumptions model_transcribes_current_source.
