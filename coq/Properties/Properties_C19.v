(* C19 - output is a function of the input alone (PARTIAL: see DESIGN.md sections 7 C19 and 12).
   A Gallina model is a function by construction; what is proved here is the non-trivial part
   of the property that is logic: nothing the model computes depends on the iteration order of
   the address-keyed hash tables (balance_t::amounts), modelled as an association list in
   unspecified order with an insertion-order parameter `ord`.  Determinism of the binary under
   address-space, allocator and environment perturbation is observed by the harness, not proved. *)
From LedgerV Require Import Base.Prelude Base.Round Model.Amount Model.Xact Model.Journal
  Proofs.AmountProofs Proofs.XactProofs Proofs.JournalProofs Proofs.OrderProofs Proofs.CompareProofs
  Gen.OrderSites Proofs.OrderSitesProofs Gen.SourceGuards.
From Coq Require Import Permutation.
Local Open Scope Q_scope.

Theorem balance_quantities_order_free : forall b b' c, Permutation b b' -> bden b c == bden b' c.
Proof. exact bden_perm. Qed.
Print Assumptions balance_quantities_order_free.

Theorem balance_is_zero_order_free : forall cp b b', Permutation b b' -> bal_is_zero cp b = bal_is_zero cp b'.
Proof. exact bal_is_zero_order_free. Qed.
Print Assumptions balance_is_zero_order_free.

Theorem balance_is_realzero_order_free : forall b b', Permutation b b' -> bal_is_realzero b = bal_is_realzero b'.
Proof. exact bal_is_realzero_order_free. Qed.
Print Assumptions balance_is_realzero_order_free.

Theorem balance_add_order_free : forall ord ord' b b' a r r' c,
  Permutation b b' -> bal_add_amt ord b a = Ok r -> bal_add_amt ord' b' a = Ok r' -> bden r c == bden r' c.
Proof. exact bal_add_amt_order_free. Qed.
Print Assumptions balance_add_order_free.

Theorem balance_sub_order_free : forall ord ord' b b' a r r' c,
  Permutation b b' -> bal_sub_amt ord b a = Ok r -> bal_sub_amt ord' b' a = Ok r' -> bden r c == bden r' c.
Proof. exact bal_sub_amt_order_free. Qed.
Print Assumptions balance_sub_order_free.

(* map_sorted_amounts / sorted_amounts: the callback order is a function of the contents *)
Theorem sorted_amounts_is_order_free : forall b b',
  distinct_keys b -> Permutation b b' -> sorted_amounts b = sorted_amounts b'.
Proof. exact sorted_amounts_order_free. Qed.
Print Assumptions sorted_amounts_is_order_free.

(* the postings generated for an elided amount *)
Theorem null_fill_order_free : forall ps i b b',
  distinct_keys b -> Permutation b b' -> (2 <= length b)%nat ->
  (do amts <- fill_amounts (VBal b); Ok (fill_null ps i amts)) =
  (do amts <- fill_amounts (VBal b'); Ok (fill_null ps i amts)).
Proof. exact fill_order_free. Qed.
Print Assumptions null_fill_order_free.

(* the balance a transaction is judged on, an account's balance, an expression's value *)
Theorem transaction_balance_order_free : forall c ps bal bal' nul nul',
  scan_posts false ps 0 VVoid None = Ok (bal, nul) -> scan_posts true ps 0 VVoid None = Ok (bal', nul') ->
  den bal c == den bal' c.
Proof. exact scan_posts_order_free. Qed.
Print Assumptions transaction_balance_order_free.

Theorem account_balance_order_free' : forall acct c ps b b',
  account_balance false acct ps VVoid = Ok b -> account_balance true acct ps VVoid = Ok b' -> den b c == den b' c.
Proof. exact account_balance_order_free. Qed.
Print Assumptions account_balance_order_free'.

Theorem expression_value_order_free : forall cp e v v' c,
  addsub_tree e = true -> aeval false cp e = Ok v -> aeval true cp e = Ok v' -> den v c == den v' c.
Proof. exact aeval_addsub_order_free. Qed.
Print Assumptions expression_value_order_free.

(* ordering of a multi-commodity balance against a plain number (or integer): a value, never an error, and the same
   value for every iteration order of the hash table (no hypothesis on the keys is needed here: every entry is
   comparable with a plain number, so the walk is an all-test).  Against a commoditized amount see
   balance_ordering_against_commoditized_amount_order_free below. *)
Theorem balance_ordering_against_plain_number_order_free : forall w b b',
  plain_scalar w -> Permutation b b' -> v_ltb (VBal b) w = v_ltb (VBal b') w.
Proof. exact v_ltb_balance_plain_perm. Qed.
Print Assumptions balance_ordering_against_plain_number_order_free.

Theorem balance_ordering_against_plain_number_total : forall w b,
  plain_scalar w -> exists r, bal_all_lt b w = Ok r.
Proof. intros w b H. exact (bal_all_lt_plain_total w H b). Qed.
Print Assumptions balance_ordering_against_plain_number_total.

(* the two-commodity implied-rate branch takes the two components that are not exactly zero and orients them by the
   first posting that is IN one of the two commodities (repaired in /repo c406784 + 4e8fc49, finding F65): the former
   witness of an order dependence - a first posting that is an exact zero of a third commodity,
   `A 0 CCC / B 10 AAA / C -5 BBB` - now finalizes alike under both table orders *)
Example two_commodity_top_zero_now_order_free :
  let ps := [mkPost [65%Z] PReal (Some (mkAmt 0 0 false (Some [67; 67; 67]%Z))) None None false false false;
             mkPost [66%Z] PReal (Some (mkAmt 10 0 false (Some [65; 65; 65]%Z))) None None false false false;
             mkPost [67%Z] PReal (Some (mkAmt (-5) 0 false (Some [66; 66; 66]%Z))) None None false false false] in
  finalize false (fun _ => 0%Z) None ps = finalize true (fun _ => 0%Z) None ps.
Proof. vm_compute. reflexivity. Qed.

(* ---- static tie (Gen/OrderSites.v is regenerated from /repo/src on every run by harness/translators/c19_order_sites.py):
   every iteration over a hashed or address-ordered container of the source, with the way its order is neutralised ---- *)

(* the regenerated list is, site by site and class by class, the list the lemmas of Proofs/OrderSitesProofs.v were written
   against: a new iteration, a removed sort, a changed loop body make this fail *)
Theorem source_order_sites_are_the_covered_ones : order_sites = covered_sites.
Proof. exact order_sites_covered. Qed.
Print Assumptions source_order_sites_are_the_covered_ones.

(* every site is of a class whose generic order-independence statement is proved (elementwise update, commutative
   accumulation, all/any test, unique match, sort by a value key, single entry), or is one of the sites listed by name as
   depending on the order (Proofs/OrderSitesProofs.v: order_dependent_sites, with the findings they correspond to) *)
Theorem source_order_sites_neutralised_or_listed :
  forall s, In s order_sites -> neutralised (os_tag s) \/ In s order_dependent_sites.
Proof. exact order_sites_neutralised_or_listed. Qed.
Print Assumptions source_order_sites_neutralised_or_listed.

Theorem source_has_no_unrecognised_order_site : forall s, In s order_sites -> os_tag s <> OTUnknown.
Proof. exact no_unknown_order_site. Qed.
Print Assumptions source_has_no_unrecognised_order_site.

Theorem source_pointer_keyed_containers_have_recognised_comparators : containers_recognised = true.
Proof. exact order_containers_recognised. Qed.
Print Assumptions source_pointer_keyed_containers_have_recognised_comparators.

(* the hypotheses of the unique-match class are satisfiable, and the class statements are not vacuous *)
Example unique_match_example :
  find (Z.eqb 2) [1; 2; 3]%Z = find (Z.eqb 2) [3; 2; 1]%Z.
Proof. reflexivity. Qed.

(* BALANCE against a commoditized amount (value.cc is_less_than / is_greater_than).  The loop used to walk the hash table and
   stop at the first entry that decides - `(1 EUR + 2 USD) < 1 EUR` was `false` when EUR was met first and the error
   "different commodities" when USD was (finding F190; the statement below was `..._refuted` then).  Since /repo 55e6d28 the
   walk is over sorted_amounts, the model follows (Amount.v bal_lt_scalar), and the statement holds in full: for ANY second
   operand - a commoditized amount included - and on either side, the outcome (truth value, or error and which) is the same
   for every Permutation of the table's entries.  `distinct_keys`: one entry per commodity, the invariant of the table. *)
Theorem balance_ordering_against_commoditized_amount_order_free : forall b b' w,
  distinct_keys b -> Permutation b b' ->
  v_ltb (VBal b) w = v_ltb (VBal b') w /\ v_ltb w (VBal b) = v_ltb w (VBal b').
Proof. exact v_ltb_balance_perm. Qed.
Print Assumptions balance_ordering_against_commoditized_amount_order_free.

(* the four ordering operators of the expression language are built from it (CompareProofs.v v_cmp, aeval_cmp_is_v_cmp) *)
Theorem balance_ordering_operators_order_free' : forall o b b' w,
  distinct_keys b -> Permutation b b' ->
  v_cmp o (VBal b) w = v_cmp o (VBal b') w /\ v_cmp o w (VBal b) = v_cmp o w (VBal b').
Proof. exact v_cmp_balance_perm. Qed.
Print Assumptions balance_ordering_operators_order_free'.

Theorem balance_greater_than_walk_order_free' : forall w b b',
  distinct_keys b -> Permutation b b' -> bal_gt_scalar b w = bal_gt_scalar b' w.
Proof. exact bal_gt_scalar_perm. Qed.
Print Assumptions balance_greater_than_walk_order_free'.

(* the former witness, both ways round *)
Example former_witness_now_order_free :
  let eur := mkAmt 1 0 false (Some [69; 85; 82]%Z) in
  let usd := mkAmt 2 0 false (Some [85; 83; 68]%Z) in
  v_ltb (VBal [eur; usd]) (VAmt eur) = Ok false /\ v_ltb (VBal [usd; eur]) (VAmt eur) = Ok false /\
  v_ltb (VBal [eur; usd]) (VAmt usd) = Err EDiffComm /\ v_ltb (VBal [usd; eur]) (VAmt usd) = Err EDiffComm.
Proof. vm_compute. repeat split; reflexivity. Qed.

(* top_amount of a balance (report.cc; finding F191, repaired by /repo 195dbe5: `amounts.begin()` before): the first amount
   in commodity order - the same for every order of the table, and the entry whose key is least *)
Theorem top_amount_order_free : forall b b',
  distinct_keys b -> Permutation b b' -> top_amount (VBal b) = top_amount (VBal b').
Proof. exact top_amount_perm. Qed.
Print Assumptions top_amount_order_free.

Theorem top_amount_is_the_least_commodity : forall b x,
  distinct_keys b -> top_amount (VBal b) = VAmt x -> In x b /\ forall y, In y b -> y = x \/ key_lt x y.
Proof. exact top_amount_is_least. Qed.
Print Assumptions top_amount_is_the_least_commodity.

(* whatever a function computes from the sorted entries is order-free; the sites of the source that walk the sorted
   entries (container "amounts_array" of Gen/OrderSites.v) are exactly the four named, all of class OTSorted; and the
   repaired functions no longer iterate over the table itself *)
Theorem sorted_walks_order_free : forall (A : Type) (g : list amount -> A) b b',
  distinct_keys b -> Permutation b b' -> g (sorted_amounts b) = g (sorted_amounts b').
Proof. exact sorted_walk_order_free. Qed.
Print Assumptions sorted_walks_order_free.

Theorem source_sorted_walks_are_the_named_ones :
  filter is_sorted_walk order_sites = sorted_walk_sites.
Proof. exact sorted_walks_are_exactly_these. Qed.
Print Assumptions source_sorted_walks_are_the_named_ones.

Theorem source_repaired_comparisons_do_not_walk_the_table :
  forallb (fun s => negb (walks_table_in_a_repaired_function s)) order_sites = true.
Proof. exact repaired_functions_do_not_walk_the_table. Qed.
Print Assumptions source_repaired_comparisons_do_not_walk_the_table.

(* sorted_amounts in the source is still the stable sort by compare_by_commodity (base symbol first) that Amount.v
   transcribes (harness/translators/src_guards.py) *)
Theorem sorted_walk_transcribes_current_source : forallb (fun b => b) src_guards_C19 = true.
Proof. vm_compute. reflexivity. Qed.
Print Assumptions sorted_walk_transcribes_current_source.
