(* C14 - dates read and print consistently; impossible dates are rejected.
   Property theorems only; proofs are in Proofs/DatesProofs.v and Proofs/CalendarProofs.v.

   parse_date extra cur s   the model of ledger's parse_date: `extra` = the --input-date-format
                            arguments ([] = none), `cur` = CURRENT_DATE() (today, --now, or 31 December
                            of the year of a `Y`/`year` directive), result = a date_t (boost's day
                            number) or the exception that is raised.
   boost_day_number y m d   the date_t of the civil date (y, m, d); boost_from_day_number its inverse.
   spell_ymd y m d zm zd s1 s2   the text YYYY s1 M s2 D with month and day written with a leading
                            zero (zm, zd = true) or without; is_sep: '/', '-' or '.'.
   norm_sep                 the separator rewriting of parse_date_mask_routine ('-' and '.' -> '/'). *)
From LedgerV Require Import Base.Prelude Base.Calendar Gen.DateFormats Model.Dates
  Proofs.CalendarProofs Proofs.DatesProofs Proofs.DateNamesProofs.
Local Open Scope Z_scope.

(* ---- the calendar: day numbers and civil dates are inverse bijections, for all of Z ---- *)
Theorem civil_roundtrip : forall y m d,
  valid_ymd y m d -> civil_from_days (days_from_civil y m d) = (y, m, d).
Proof. exact CalendarProofs.civil_roundtrip. Qed.
Print Assumptions civil_roundtrip.

Theorem days_roundtrip : forall z,
  let '(y, m, d) := civil_from_days z in valid_ymd y m d /\ days_from_civil y m d = z.
Proof. exact CalendarProofs.days_roundtrip. Qed.
Print Assumptions days_roundtrip.

(* boost::gregorian's own algorithms (what date_t really computes) are that calendar *)
Theorem boost_calendar_is_gregorian : forall y m d,
  valid_ymd y m d ->
  boost_day_number y m d = days_from_civil y m d + 2440588 /\
  boost_from_day_number (boost_day_number y m d) = (y, m, d) /\
  boost_day_of_week y m d = weekday (days_from_civil y m d).
Proof.
  intros y m d V. split; [apply boost_day_number_eq; apply V|].
  split; [apply boost_roundtrip; exact V | apply boost_day_of_week_correct; apply V].
Qed.
Print Assumptions boost_calendar_is_gregorian.

(* ---- order: date order is the lexicographic order on (year, month, day) ---- *)
Theorem order_correct : forall y1 m1 d1 y2 m2 d2,
  valid_ymd y1 m1 d1 -> valid_ymd y2 m2 d2 ->
  (ymd_lt (y1, m1, d1) (y2, m2, d2) <-> days_from_civil y1 m1 d1 < days_from_civil y2 m2 d2).
Proof. exact CalendarProofs.order_correct. Qed.
Print Assumptions order_correct.

Theorem date_comparison_correct : forall y1 m1 d1 y2 m2 d2,
  valid_ymd y1 m1 d1 -> valid_ymd y2 m2 d2 ->
  (date_ltb (boost_day_number y1 m1 d1) (boost_day_number y2 m2 d2) = true <-> ymd_lt (y1, m1, d1) (y2, m2, d2)) /\
  (date_eqb (boost_day_number y1 m1 d1) (boost_day_number y2 m2 d2) = true <-> (y1, m1, d1) = (y2, m2, d2)).
Proof. exact date_order. Qed.
Print Assumptions date_comparison_correct.

(* ---- weekday: anchored at 1970-01-01 = Thursday, advancing by one per day, period 7; the
   Gregorian calendar repeats with its weekdays every 400 years ---- *)
Theorem weekday_correct : forall z,
  weekday (days_from_civil 1970 1 1) = 4 /\
  weekday z = (4 + z) mod 7 /\ weekday (z + 1) = (weekday z + 1) mod 7 /\ weekday (z + 7) = weekday z /\
  0 <= weekday z < 7.
Proof.
  intros z. split; [reflexivity|]. split; [unfold weekday; f_equal; ring|].
  split; [apply weekday_succ|]. split; [apply weekday_period | apply weekday_range].
Qed.
Print Assumptions weekday_correct.

Theorem weekday_400_year_cycle : forall y m d k,
  weekday (days_from_civil (y + 400 * k) m d) = weekday (days_from_civil y m d).
Proof. exact weekday_400_years. Qed.
Print Assumptions weekday_400_year_cycle.

(* the weekday ledger prints (%w of format_date) is the calendar's *)
Theorem printed_weekday_correct : forall y m d,
  valid_ymd y m d ->
  format_date [37; 119] (boost_day_number y m d) = Some [48 + weekday (days_from_civil y m d)].
Proof. exact printed_weekday. Qed.
Print Assumptions printed_weekday_correct.

(* ---- reading: every accepted spelling of a valid date of 1400..9999 is read as exactly that day,
   whatever today's date is ---- *)
Theorem parse_format_roundtrip : forall cur y m d zm zd s1 s2,
  valid_ymd y m d -> 1400 <= y <= 9999 -> is_sep s1 -> is_sep s2 ->
  parse_date [] cur (spell_ymd y m d zm zd s1 s2) = DOk (boost_day_number y m d) /\
  parse_date_ymd [] cur (spell_ymd y m d zm zd s1 s2) = DOk (y, m, d).
Proof.
  intros cur y m d zm zd s1 s2 V Hy H1 H2.
  pose proof (parse_spelled cur y m d zm zd s1 s2 V Hy H1 H2) as P. split; [exact P|].
  unfold parse_date_ymd. rewrite P, boost_roundtrip by exact V. reflexivity.
Qed.
Print Assumptions parse_format_roundtrip.

(* formatting a date in the written format and reading it back gives the same day *)
Theorem format_parse_roundtrip : forall cur y m d,
  valid_ymd y m d -> 1400 <= y <= 9999 ->
  exists w, format_written (boost_day_number y m d) = Some w /\
            parse_date [] cur w = DOk (boost_day_number y m d).
Proof.
  intros cur y m d V Hy. exists (spell_ymd y m d true true 47 47).
  split; [apply format_written_spec; exact V|].
  apply parse_spelled; [exact V | exact Hy | left; reflexivity | left; reflexivity].
Qed.
Print Assumptions format_parse_roundtrip.

(* MM/DD: that day of the current year whenever the month is not after the current month -
   always so under a `Y`/`year` directive, which sets the current date to 31 December *)
Theorem md_under_year_directive : forall yr m d zm zd s1,
  valid_ymd yr m d -> 1400 <= yr <= 9999 -> is_sep s1 ->
  parse_date [] (yr, 12, 31) (spell_md_sep m d zm zd s1) = DOk (boost_day_number yr m d).
Proof.
  intros yr m d zm zd s1 V Hy H1. apply parse_md_spelled; try assumption. destruct V; lia.
Qed.
Print Assumptions md_under_year_directive.

Theorem md_not_after_current_month : forall cy cm cd m d zm zd s1,
  valid_ymd cy m d -> 1400 <= cy <= 9999 -> m <= cm -> is_sep s1 ->
  parse_date [] (cy, cm, cd) (spell_md_sep m d zm zd s1) = DOk (boost_day_number cy m d).
Proof. exact parse_md_spelled. Qed.
Print Assumptions md_not_after_current_month.

(* a user-supplied --input-date-format built from %Y %m %d %% and literal (non-blank) characters,
   containing all of %Y %m %d, reads back exactly the day that the same format prints *)
Theorem custom_format_roundtrip : forall raw cur y m d w,
  Forall in_item_ok (lex_fmt raw) ->
  has_dir 89 (lex_fmt raw) = true -> has_dir 109 (lex_fmt raw) = true -> has_dir 100 (lex_fmt raw) = true ->
  valid_ymd y m d -> 1400 <= y <= 9999 ->
  format_date raw (boost_day_number y m d) = Some w ->
  parse_date [raw] cur w = DOk (boost_day_number y m d).
Proof. exact parse_custom_roundtrip. Qed.
Print Assumptions custom_format_roundtrip.

(* the hypotheses are satisfiable: %d.%m.%Y *)
Example custom_format_example :
  let raw := [37; 100; 46; 37; 109; 46; 37; 89] in
  Forall in_item_ok (lex_fmt raw) /\ has_dir 89 (lex_fmt raw) = true /\ has_dir 109 (lex_fmt raw) = true /\
  has_dir 100 (lex_fmt raw) = true /\
  format_date raw (boost_day_number 2024 2 29) = Some [50; 57; 46; 48; 50; 46; 50; 48; 50; 52] /\
  parse_date [raw] (2021, 6, 15) [50; 57; 46; 48; 50; 46; 50; 48; 50; 52] = DOk (boost_day_number 2024 2 29).
Proof.
  cbn zeta. split.
  - repeat match goal with |- Forall _ _ => constructor end; cbn; try reflexivity; lia.
  - vm_compute. repeat split.
Qed.

(* ---- soundness: whatever is accepted is a real calendar day of 1400..9999, and the input is
   exactly one of its spellings: YYYY/M/D, YYYY/M (first of the month), or M/D with the year
   inferred.  No string with trailing characters, month 13, day 32, 30 February ... has such a
   form, so all of them are errors; nothing is shifted to a neighbouring day. ---- *)
Theorem parse_sound : forall cur s dn,
  parse_date [] cur s = DOk dn ->
  (exists y m d zm zd, valid_ymd y m d /\ 1400 <= y <= 9999 /\ dn = boost_day_number y m d /\
     map norm_sep s = spell_ymd y m d zm zd 47 47) \/
  (exists y m zm, valid_ymd y m 1 /\ 1400 <= y <= 9999 /\ dn = boost_day_number y m 1 /\
     map norm_sep s = spell_ym y m zm) \/
  (exists m d zm zd, valid_ymd (fst (fst cur)) m d /\ 1400 <= fst (fst cur) <= 9999 /\
     infer_year cur (boost_day_number (fst (fst cur)) m d) = DOk dn /\
     map norm_sep s = spell_md m d zm zd).
Proof. exact DatesProofs.parse_sound. Qed.
Print Assumptions parse_sound.

Theorem accepted_is_a_real_date : forall cur s dn,
  parse_date [] cur s = DOk dn ->
  exists y m d, boost_from_day_number dn = (y, m, d) /\ valid_ymd y m d /\ 1400 <= y <= 9999 /\
                dn = boost_day_number y m d.
Proof. exact parse_accepts_only_dates. Qed.
Print Assumptions accepted_is_a_real_date.

(* a day the month does not have (30 February, 29 February of a non-leap year, 31 April ...) is
   refused by the date constructor, in every spelling *)
Theorem impossible_day_rejected : forall cur y m d zm zd s1 s2,
  1400 <= y <= 9999 -> 1 <= m <= 12 -> days_in_month y m < d <= 31 -> is_sep s1 -> is_sep s2 ->
  parse_date [] cur (spell_ymd y m d zm zd s1 s2) = DErr DBadDay.
Proof. exact DatesProofs.impossible_day_rejected. Qed.
Print Assumptions impossible_day_rejected.

(* trailing characters after a complete date are refused (a digit after a one-digit day would
   spell another day, hence the side condition) *)
Theorem trailing_characters_rejected : forall cur y m d zm zd s1 s2 x r,
  valid_ymd y m d -> 1400 <= y <= 9999 -> is_sep s1 -> is_sep s2 ->
  (zd = true \/ 10 <= d \/ is_digit x = false) ->
  parse_date [] cur (spell_ymd y m d zm zd s1 s2 ++ x :: r) = DErr DInvalid.
Proof. exact trailing_rejected. Qed.
Print Assumptions trailing_characters_rejected.

(* the year of a year-less date: the current year, or - when its month is after today's month -
   the same month and day of the previous year (built by the date constructor) *)
Theorem md_year_rule : forall cy cm cd m d,
  valid_ymd cy m d -> 1400 <= cy <= 9999 ->
  infer_year (cy, cm, cd) (boost_day_number cy m d) =
  if cm <? m then mk_date (cy - 1) m d else DOk (boost_day_number cy m d).
Proof. exact infer_year_spec. Qed.
Print Assumptions md_year_rule.

Theorem md_previous_year : forall cy cm cd m d,
  valid_ymd cy m d -> valid_ymd (cy - 1) m d -> 1401 <= cy <= 9999 -> cm < m ->
  infer_year (cy, cm, cd) (boost_day_number cy m d) = DOk (boost_day_number (cy - 1) m d).
Proof. exact infer_prev_year. Qed.
Print Assumptions md_previous_year.

(* ... and every day except 29 February exists in the previous year *)
Theorem previous_year_has_the_day : forall y m d,
  valid_ymd y m d -> (m, d) <> (2, 29) -> valid_ymd (y - 1) m d.
Proof. exact valid_prev_year. Qed.
Print Assumptions previous_year_has_the_day.

(* two of the five readers of times_initialize can never answer: %y/%m/%d is shadowed by
   %Y/%m/%d, and %Y-%m-%d never sees a '-' once the separators are rewritten *)
Theorem two_digit_year_reader_is_dead : forall tl buf t,
  strptime (IDir 89 :: ILit 47 :: tl) buf t = PFail -> strptime (IDir 121 :: ILit 47 :: tl) buf t = PFail.
Proof. exact y2_reader_dead. Qed.
Print Assumptions two_digit_year_reader_is_dead.

(* computed instances of the rejections named in the property text (codes are ASCII) *)
Example rejected_examples :
  let p s := parse_date [] (2021, 6, 15) s in
  p [50;48;50;49;47;49;51;47;48;49] = DErr DInvalid (* 2021/13/01 *) /\
  p [50;48;50;49;47;49;50;47;51;50] = DErr DInvalid (* 2021/12/32 *) /\
  p [50;48;50;49;47;48;50;47;51;48] = DErr DBadDay  (* 2021/02/30 *) /\
  p [49;57;48;48;45;48;50;45;50;57] = DErr DBadDay  (* 1900-02-29 *) /\
  p [50;49;48;48;46;50;46;50;57] = DErr DBadDay     (* 2100.2.29 *) /\
  p [50;48;48;48;47;48;50;47;50;57] = DOk (boost_day_number 2000 2 29) /\
  p [50;48;50;49;47;48;49;47;48;53;120] = DErr DInvalid (* 2021/01/05x *) /\
  p [49;51;57;57;47;49;50;47;51;49] = DErr DBadYear (* 1399/12/31 *) /\
  p [49;48;48;48;48;47;48;49;47;48;49] = DErr DInvalid (* 10000/01/01 *).
Proof. vm_compute. repeat split. Qed.

(* ---- a year-less MM/DD that is accepted denotes exactly that month and day, in the current year
   or (month after today's month) in the previous year - for every current date, with or without a
   year directive.  (Before /repo 9c78ad5 [F32] the step back used `when -= gregorian::years(1)`,
   whose end-of-month rule read `02/28` on 2021-01-15 as 2020-02-29.) ---- *)
Theorem md_exact_day : forall cy cm cd m d zm zd s1 dn,
  valid_ymd cy m d -> 1400 <= cy <= 9999 -> is_sep s1 ->
  parse_date [] (cy, cm, cd) (spell_md_sep m d zm zd s1) = DOk dn ->
  exists y, boost_from_day_number dn = (y, m, d) /\ valid_ymd y m d /\
            ((y = cy /\ m <= cm) \/ (y = cy - 1 /\ cm < m)).
Proof. exact DatesProofs.md_exact_day. Qed.
Print Assumptions md_exact_day.

(* the complete forward rule *)
Theorem md_read : forall cy cm cd m d zm zd s1,
  valid_ymd cy m d -> 1400 <= cy <= 9999 -> is_sep s1 ->
  parse_date [] (cy, cm, cd) (spell_md_sep m d zm zd s1) =
  if cm <? m then mk_date (cy - 1) m d else DOk (boost_day_number cy m d).
Proof. exact parse_md_spelled_any. Qed.
Print Assumptions md_read.

(* 29 February without a year, read in January of a leap year: 29 February of the previous year
   does not exist - an error, not a neighbouring day.  (In January of the year AFTER a leap year
   the string is refused even earlier: the date is first built in the current year.) *)
Theorem md_feb29_previous_year_rejected : forall cy cm cd,
  valid_ymd cy 2 29 -> 1401 <= cy <= 9999 -> cm < 2 ->
  infer_year (cy, cm, cd) (boost_day_number cy 2 29) = DErr DBadDay.
Proof. exact infer_prev_year_feb29. Qed.
Print Assumptions md_feb29_previous_year_rejected.

Example md_examples :
  let p cur s := parse_date_ymd [] cur s in
  p (2021, 1, 15) [48; 50; 47; 50; 56] = DOk (2020, 2, 28) (* 02/28 *) /\
  p (2021, 1, 15) [48; 50; 47; 50; 57] = DErr DBadDay      (* 02/29: 2021 is not a leap year *) /\
  p (2024, 1, 15) [48; 50; 47; 50; 57] = DErr DBadDay      (* 02/29: 2023 is not a leap year *) /\
  p (2024, 3, 15) [48; 50; 47; 50; 57] = DOk (2024, 2, 29) /\
  p (2025, 1, 15) [48; 50; 47; 50; 57] = DErr DBadDay      (* built in 2025 first *) /\
  p (2021, 1, 15) [48; 51; 47; 51; 49] = DOk (2020, 3, 31) /\
  p (1400, 1, 15) [48; 50; 47; 50; 56] = DErr DBadYear.
Proof. vm_compute. repeat split. Qed.

(* the source facts the model rests on, re-read from times.cc on every run: the reader list, the
   separator rewriting, the strlen guard, the written format, the presets of the struct tm handed to
   strptime (current year - 1900, day 1), the one byte ('0') the re-format-and-compare loop may step
   over (Model/Dates.v parse_routine and cmp_skip0 use these three), and that the cache of custom date
   formatters is keyed by the exact format string (so format_date raw dn is a function of raw and
   dn alone, as in the model, however many formats one run uses) *)
Theorem source_facts :
  default_readers = [R_md; R_ymd; R_ym; R_y2md; R_dash] /\
  src_convert_separators_default = true /\ src_input_format_pushes_front = true /\
  src_input_format_disables_conversion = true /\ src_sep_from = (45, 46) /\ src_sep_to = 47 /\
  src_max_date_len = 127 /\ src_written_date_format = [37; 89; 47; 37; 109; 47; 37; 100] /\
  src_format_cache_exact_match = true /\
  src_year_directive_unconditional = true /\ src_year_directive_month = 12 /\ src_year_directive_day = 31 /\
  src_file_end_unwinds_own_stack = true /\
  src_tm_year_base = 1900 /\ src_tm_mday_preset = 1 /\ src_compare_skip_byte = 48.
Proof. split; [exact default_readers_eq | exact source_switches]. Qed.
Print Assumptions source_facts.

(* ---- year directives: `Y N` / `year N` / `apply year N` put the current date on 31 December of N
   whatever it was before (today, --now, another directive, the same year), so a year-less MM/DD
   read after the directive is that day of year N; `end apply` gives the earlier clock back ---- *)
Theorem md_after_year_directive : forall st yr m d zm zd s1,
  valid_ymd yr m d -> 1400 <= yr <= 9999 -> is_sep s1 ->
  parse_date [] (es_cur (year_directive st yr)) (spell_md_sep m d zm zd s1) = DOk (boost_day_number yr m d).
Proof. exact parse_md_after_year_directive. Qed.
Print Assumptions md_after_year_directive.

Theorem end_apply_restores_clock : forall st yr, end_apply (year_directive st yr) = Some st.
Proof. exact end_apply_year_directive. Qed.
Print Assumptions end_apply_restores_clock.

(* ---- included files.  final_state st evs is the state (current date, the apply stack of the file
   being read, those of the including files) after the events evs; JFileBegin / JFileEnd bracket an
   `include`d file; file_body evs: evs is what one file may contain (year directives, `end apply`,
   transactions, whole included files, in any number and order).  An included file gives back
   EXACTLY the state it found - however many year directives it leaves open (at end of file every
   entry of the file's own stack is undone, newest first) - so a year directive in force in the
   including file survives every include and year-less dates after it are read as before it.
   (Before /repo cbfca66 [F106] only the newest entry was undone: `Y 2021` / include {`Y 2018` ..
   `Y 2019`} / `07/04` was read as 2018-07-04.) ---- *)
Theorem include_returns_the_state_it_found : forall evs st,
  file_body evs -> final_state st (JFileBegin :: evs ++ [JFileEnd]) = st.
Proof. intros evs st B. apply include_exact. exact B. Qed.
Print Assumptions include_returns_the_state_it_found.

(* instances: no directive, one or two left open, a closed `apply year`, a nested include *)
Theorem include_keeps_year_directive : forall st y1 y2 evs evs' evs'',
  only_queries evs -> only_queries evs' -> only_queries evs'' ->
  final_state st (JFileBegin :: evs ++ [JFileEnd]) = st /\
  final_state st (JFileBegin :: (JYear y1 :: evs) ++ [JFileEnd]) = st /\
  final_state st (JFileBegin :: (JYear y1 :: evs ++ JYear y2 :: evs') ++ [JFileEnd]) = st /\
  final_state st (JFileBegin :: (JYear y1 :: evs ++ JEnd :: evs') ++ [JFileEnd]) = st /\
  final_state st (JFileBegin :: (JYear y1 :: JFileBegin :: (JYear y2 :: evs) ++ JFileEnd :: evs') ++ [JFileEnd]) = st.
Proof.
  intros st y1 y2 evs evs' evs'' H H' H''.
  assert (Q : forall l, only_queries l -> file_body l) by exact file_body_queries.
  assert (A : forall a l l', file_body l' -> only_queries l -> file_body (l ++ a :: l') -> file_body (l ++ a :: l')) by auto.
  assert (App : forall l l', only_queries l -> file_body l' -> file_body (l ++ l')).
  { intros l l' Hl B. induction Hl as [|e l -> _ IH]; [exact B | constructor; exact IH]. }
  repeat split; apply include_exact.
  - apply Q; exact H.
  - constructor. apply Q; exact H.
  - constructor. apply App; [exact H|]. constructor. apply Q; exact H'.
  - constructor. apply App; [exact H|]. constructor. apply Q; exact H'.
  - constructor. constructor; [constructor; apply Q; exact H | apply Q; exact H'].
Qed.
Print Assumptions include_keeps_year_directive.

(* ---- month and weekday NAMES in a user-supplied --input-date-format (%b %h %B %a %A; strptime reads a
   name in either form - the full name first - and in any letter case, for either directive; the
   re-format-and-compare step of parse_date_mask_routine then admits only the very text the format
   prints).

   names_fmt_ok f: %Y %m %d %% %B %A and non-blank literals anywhere; an ABBREVIATED name (%b %h %a) only
   where no letter can follow it (at the end, before a non-letter literal, before %Y %m %d).
   has_mon f: the month is given by %m, %b, %B or %h.  Every such format reads back exactly the day
   the same format prints - with the calendar's own weekday and month names in it. ---- *)
Theorem names_format_roundtrip : forall raw cur y m d w,
  names_fmt_ok (lex_fmt raw) ->
  has_dir 89 (lex_fmt raw) = true -> has_mon (lex_fmt raw) = true -> has_dir 100 (lex_fmt raw) = true ->
  valid_ymd y m d -> 1400 <= y <= 9999 ->
  format_date raw (boost_day_number y m d) = Some w ->
  parse_date [raw] cur w = DOk (boost_day_number y m d).
Proof. exact parse_names_roundtrip. Qed.
Print Assumptions names_format_roundtrip.

(* the hypotheses are satisfiable: %a,%d-%b-%Y on 29 February 2024 = "Thu,29-Feb-2024" *)
Example names_format_example :
  let raw := [37; 97; 44; 37; 100; 45; 37; 98; 45; 37; 89] in
  let txt := [84; 104; 117; 44; 50; 57; 45; 70; 101; 98; 45; 50; 48; 50; 52] in
  names_fmt_ok (lex_fmt raw) /\ has_dir 89 (lex_fmt raw) = true /\ has_mon (lex_fmt raw) = true /\
  has_dir 100 (lex_fmt raw) = true /\
  format_date raw (boost_day_number 2024 2 29) = Some txt /\
  parse_date [raw] (2021, 6, 15) txt = DOk (boost_day_number 2024 2 29).
Proof.
  cbn zeta. split.
  - cbn. repeat split; auto 10.
  - vm_compute. repeat split.
Qed.

(* the restriction on abbreviated names is needed: `%d%bch%Y` prints 16 March 2021 as "16March2021",
   strptime's %b consumes the full name "March", the literal "ch" then meets "2021", the reader gives
   up and no default reader takes the text (finding F222; every other month is read) *)
Theorem abbreviation_before_letters_refuted : exists raw y m d w,
  has_dir 89 (lex_fmt raw) = true /\ has_mon (lex_fmt raw) = true /\ has_dir 100 (lex_fmt raw) = true /\
  valid_ymd y m d /\ 1400 <= y <= 9999 /\
  format_date raw (boost_day_number y m d) = Some w /\
  parse_date [raw] (2021, 6, 15) w = DErr DInvalid /\
  parse_date [raw] (2021, 6, 15) [49; 54; 65; 112; 114; 99; 104; 50; 48; 50; 49] = DOk (boost_day_number 2021 4 16).
Proof.
  exists [37; 100; 37; 98; 99; 104; 37; 89], 2021, 3, 16, [49; 54; 77; 97; 114; 99; 104; 50; 48; 50; 49].
  vm_compute. repeat split; discriminate.
Qed.
Print Assumptions abbreviation_before_letters_refuted.

(* ---- soundness for ANY user-supplied format with a year (whatever its directives): what its reader
   accepts is a real day of 1400..9999, and the input is - up to omitted '0' characters - exactly the
   text that format prints for that day.  So a weekday name that is not the day's own, a month name
   that contradicts the month number, a name in another letter case or in its other form, and
   trailing characters are all errors, never another day.  (Second alternative: the format's strptime
   did not match at all and a default reader answered.) ---- *)
Theorem custom_format_accepts_only_what_it_prints : forall raw cur s dn,
  has_year raw = true ->
  parse_date [raw] cur s = DOk dn ->
  (exists y m d w, valid_ymd y m d /\ 1400 <= y <= 9999 /\ dn = boost_day_number y m d /\
     format_date raw dn = Some w /\ cmp_skip0 w s = true /\ filter nz w = filter nz s) \/
  (parse_routine false cur (mk_reader raw) s = RNone /\ parse_mask false cur default_readers s = DOk dn).
Proof. exact parse_custom_sound. Qed.
Print Assumptions custom_format_accepts_only_what_it_prints.

(* the comparison forgives nothing but omitted zeros: the two texts agree on every other character,
   in order, and the input is not longer than the formatted text *)
Theorem compare_forgives_only_zeros : forall w s,
  cmp_skip0 w s = true -> filter nz w = filter nz s /\ (length s <= length w)%nat.
Proof. intros w s H. split; [apply cmp_skip0_filter | apply cmp_skip0_length]; exact H. Qed.
Print Assumptions compare_forgives_only_zeros.

(* how a name is read: the k-th name of the table in full whatever follows, its three-letter
   abbreviation when no letter follows *)
Theorem month_names_read : forall m rest, 1 <= m <= 12 ->
  match_names month_names 0 (name_at month_names (m - 1) ++ rest) = Some (m - 1, rest) /\
  (no_alpha_head rest ->
   match_names month_names 0 (firstn 3 (name_at month_names (m - 1)) ++ rest) = Some (m - 1, rest)).
Proof. intros m rest H. split; [apply read_month_full | intros N; apply read_month_abbrev]; assumption. Qed.
Print Assumptions month_names_read.

Theorem weekday_names_read : forall w rest, 0 <= w < 7 ->
  match_names wday_names 0 (name_at wday_names w ++ rest) = Some (w, rest) /\
  (no_alpha_head rest ->
   match_names wday_names 0 (firstn 3 (name_at wday_names w) ++ rest) = Some (w, rest)).
Proof. intros w rest H. split; [apply read_wday_full | intros N; apply read_wday_abbrev]; assumption. Qed.
Print Assumptions weekday_names_read.

(* computed instances (2021-06-15 is a Tuesday): the weekday of another day, another letter case, the
   full name where the format has %b, a month name against the month number, 30 February by name *)
Example names_rejected_examples :
  let p f s := parse_date_ymd [f] (2021, 6, 15) s in
  let f1 := [37; 89; 47; 37; 109; 47; 37; 100; 44; 37; 97] (* %Y/%m/%d,%a *) in
  let f2 := [37; 100; 45; 37; 98; 45; 37; 89] (* %d-%b-%Y *) in
  let f3 := [37; 89; 46; 37; 109; 46; 37; 100; 46; 37; 98] (* %Y.%m.%d.%b *) in
  p f1 [50;48;50;49;47;48;54;47;49;53;44;84;117;101] = DOk (2021, 6, 15) (* 2021/06/15,Tue *) /\
  p f1 [50;48;50;49;47;48;54;47;49;53;44;77;111;110] = DErr DInvalid      (* 2021/06/15,Mon *) /\
  p f1 [50;48;50;49;47;48;54;47;49;53;44;116;117;101] = DErr DInvalid     (* 2021/06/15,tue *) /\
  p f2 [49;53;45;74;117;110;45;50;48;50;49] = DOk (2021, 6, 15)           (* 15-Jun-2021 *) /\
  p f2 [49;53;45;74;117;110;101;45;50;48;50;49] = DErr DInvalid           (* 15-June-2021 *) /\
  p f2 [49;53;45;74;85;78;45;50;48;50;49] = DErr DInvalid                 (* 15-JUN-2021 *) /\
  p f2 [51;48;45;70;101;98;45;50;48;50;49] = DErr DBadDay                 (* 30-Feb-2021 *) /\
  p f3 [50;48;50;49;46;48;54;46;49;53;46;74;117;108] = DErr DInvalid      (* 2021.06.15.Jul *).
Proof. vm_compute. repeat split. Qed.
