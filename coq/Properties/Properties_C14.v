(* C14 - placeholder while the model is being validated *)
From LedgerV Require Import Base.Prelude Base.Calendar Proofs.CalendarProofs.
Local Open Scope Z_scope.
Theorem civil_roundtrip : forall y m d,
  valid_ymd y m d -> civil_from_days (days_from_civil y m d) = (y, m, d).
Proof. exact CalendarProofs.civil_roundtrip. Qed.
Print Assumptions civil_roundtrip.
