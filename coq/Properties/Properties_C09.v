(* C09 - balance assertions and assignments use the true running balance in file order.
   Property theorems only; proofs in Proofs/AssertProofs.v.
   hist = the postings that have reached their accounts so far, in FILE order (dates are not
   even part of the state: they cannot play a role); running hist acct real_only c = the exact
   sum, in commodity c, of the postings to exactly account acct (real ones only, or all);
   earlier = the postings of the same transaction read before this one;
   expected_diff = asserted - running - earlier (real_only for an assertion on a real posting,
   everything for one on a virtual posting). *)
From LedgerV Require Import Base.Prelude Base.Round Model.Amount Model.Xact Model.Assert
  Proofs.AmountProofs Proofs.XactProofs Proofs.AssertProofs Proofs.AssertDeferredProofs Gen.SourceGuards.
From Coq Require Import Qabs.
Local Open Scope Q_scope.

(* the account total used by an assertion is the exact sum of that account's own postings *)
Theorem account_total_is_running_sum : forall ord acct ro c hist acc v,
  acct_total ord hist acct ro acc = Ok v -> den v c == den acc c + running hist acct ro c.
Proof. exact acct_total_exact. Qed.
Print Assumptions account_total_is_running_sum.

(* a posting to any other account - a sub-account in particular - does not contribute *)
Theorem other_accounts_do_not_contribute : forall hist acct ro c h,
  str_eqb (a_acct h) acct = false -> running (hist ++ [h]) acct ro c == running hist acct ro c.
Proof. exact running_other_account. Qed.
Print Assumptions other_accounts_do_not_contribute.

(* ASSERTION `acct  a = amt`: decided on a balance whose entry in amt's commodity is exactly
   asserted - running - earlier - own, and which is empty elsewhere; accepted unchanged iff
   that displays as zero (or --permissive), else "Balance assertion off by" *)
Theorem assertion_decided_on_true_running_balance : forall ord cp permissive hist earlier w a amt k r,
  w_assigned w = Some amt -> p_amt (w_post w) = Some a -> acomm amt = Some k ->
  resolve_assigned ord cp permissive hist earlier w = r ->
  (exists e, r = Err e /\ e <> EAssertOff) \/
  exists d4, nodup_keys d4 /\
    bden d4 (Some k) == expected_diff hist earlier (w_post w) amt k - own_part a amt k /\
    (forall c, comm_eqb (Some k) c = false -> bden d4 c == 0) /\
    r = if negb permissive && negb (bal_is_zero cp d4) then Err EAssertOff else Ok (w_post w).
Proof. exact assertion_spec. Qed.
Print Assumptions assertion_decided_on_true_running_balance.

(* display-zero means: exactly zero is accepted, a whole unit is never accepted *)
Theorem exact_zero_difference_displays_zero : forall cp b,
  nodup_keys b -> (forall c, bden b c == 0) -> bal_is_zero cp b = true.
Proof. exact bal_zero_is_zero. Qed.
Print Assumptions exact_zero_difference_displays_zero.

Theorem display_zero_difference_below_one_unit : forall cp b c,
  (forall k, 0 <= cp k <= 230)%Z -> nodup_keys b -> bal_is_zero cp b = true -> Qabs (bden b c) < 1.
Proof. exact bal_is_zero_lt_unit. Qed.
Print Assumptions display_zero_difference_below_one_unit.

(* ASSIGNMENT `acct  = amt`: the posting receives exactly asserted - running - earlier, or the
   zero of amt's commodity when that difference displays as zero *)
Theorem assignment_receives_exact_difference : forall ord cp permissive hist earlier w amt k p',
  w_assigned w = Some amt -> p_amt (w_post w) = None -> acomm amt = Some k ->
  resolve_assigned ord cp permissive hist earlier w = Ok p' ->
  exists x, p_amt p' = Some x /\ p_acct p' = p_acct (w_post w) /\ p_kind p' = p_kind (w_post w) /\
    ((aq x == expected_diff hist earlier (w_post w) amt k /\ is_zero cp x = false) \/
     (aq x == 0 /\ acomm x = Some k /\
      ((forall c0 : comm, (0 <= cp c0 <= 230)%Z) -> Qabs (expected_diff hist earlier (w_post w) amt k) < 1))).
Proof. exact assignment_spec. Qed.
Print Assumptions assignment_receives_exact_difference.

(* --permissive: no assertion fails; whatever was accepted stays accepted; assignments unchanged *)
Theorem permissive_never_fails_an_assertion : forall ord cp hist earlier w,
  resolve_assigned ord cp true hist earlier w <> Err EAssertOff /\
  (forall p, resolve_assigned ord cp false hist earlier w = Ok p ->
             resolve_assigned ord cp true hist earlier w = Ok p) /\
  (p_amt (w_post w) = None ->
   resolve_assigned ord cp true hist earlier w = resolve_assigned ord cp false hist earlier w).
Proof. exact permissive_skips. Qed.
Print Assumptions permissive_never_fails_an_assertion.

(* non-vacuity: history  A $10.00 ; (A) $5.00 ; then  `A  $2.50 = $12.50`  is accepted (the
   virtual posting is not counted for an assertion on a real posting), `(A)  $1.00 = $16.00`
   is accepted (everything is counted), and  `A  $2.50 = $13.50`  is rejected *)
Example assertion_examples :
  let usd := Some [36%Z] in
  let h := [mkA [65%Z] false (mkAmt 10 2 false usd); mkA [65%Z] true (mkAmt 5 2 false usd)] in
  let mk kind a asg := mkW (mkPost [65%Z] kind (Some (mkAmt a 2 false usd)) None None false false false)
                           (Some (mkAmt asg 2 false usd)) in
  (exists p, resolve_assigned false (fun _ => 2%Z) false h [] (mk PReal (5 # 2) (25 # 2)) = Ok p) /\
  (exists p, resolve_assigned false (fun _ => 2%Z) false h [] (mk PVirtual 1 16) = Ok p) /\
  resolve_assigned false (fun _ => 2%Z) false h [] (mk PReal (5 # 2) (27 # 2)) = Err EAssertOff.
Proof. cbn zeta. split; [eexists; vm_compute; reflexivity|]. split; [eexists; vm_compute; reflexivity|]. vm_compute. reflexivity. Qed.

(* an assertion on an ordinary posting counts ordinary postings only: the (virtual) and [balanced virtual] postings the
   account received could as well not be there; one on a virtual posting counts all (real_only = false filters nothing) *)
Theorem real_assertion_ignores_virtual_postings : forall ord acct hist acc,
  acct_total ord hist acct true acc =
  acct_total ord (filter (fun h => negb (a_virtual h)) hist) acct true acc.
Proof. exact acct_total_real_only_ignores_virtual. Qed.
Print Assumptions real_assertion_ignores_virtual_postings.

(* the layout of the input plays no part: a journal read in two stretches - an included file, the file of a second -f
   option - gives the outcomes of the concatenation, the pool and the per-account histories carried over (this is what
   /repo ebab97c restored for several -f files, finding F60) *)
Theorem journal_read_in_stretches_is_the_concatenation : forall ord permissive xs ys pl hist,
  run_journal_a ord permissive pl hist (xs ++ ys) =
  run_journal_a ord permissive pl hist xs ++
  (let (pl', hist') := state_after ord permissive pl hist xs in run_journal_a ord permissive pl' hist' ys).
Proof. exact run_journal_a_app. Qed.
Print Assumptions journal_read_in_stretches_is_the_concatenation.

(* automated transactions: the postings the rules add to an accepted transaction reach their accounts with it, so the
   balance every LATER assertion is judged on holds them, posting by posting (run_journal_x is the journal loop with the
   rules' extension; without rules it is run_journal_a; auto_ext models rules `= /^ACCOUNT$/` with lines
   `[PREFIX$account] MULT`, which the correspondence runs against ledger) *)
Theorem generated_postings_count_in_later_assertions : forall hist ps gen acct ro c,
  running (hist ++ posts_to_history (ps ++ gen)) acct ro c ==
  running (hist ++ posts_to_history ps) acct ro c + running (posts_to_history gen) acct ro c.
Proof. exact generated_postings_reach_their_accounts. Qed.
Print Assumptions generated_postings_count_in_later_assertions.

Theorem a_generated_posting_contributes_its_amount : forall acct k a c ro,
  running (posts_to_history [mkPost acct k (Some a) None None false true false]) acct ro c ==
  if negb ro || negb (is_virtual (mkPost acct k (Some a) None None false true false)) then at_comm (strip a) c else 0.
Proof. exact running_one_generated. Qed.
Print Assumptions a_generated_posting_contributes_its_amount.

Theorem journal_without_rules_is_the_plain_journal : forall ord permissive xs pl hist,
  run_journal_x (fun _ _ => []) ord permissive pl hist xs = run_journal_a ord permissive pl hist xs.
Proof. exact run_journal_x_no_rules. Qed.
Print Assumptions journal_without_rules_is_the_plain_journal.

(* non-vacuity: rule  = /^E$/  [B:$account] -1 / [B:P] 1 ;  x0: E $40.00, Q (elided) ;  x1: [B:E] $0.00 = $-40.00, Q $0.00
   is accepted, and with = $0.00 instead it is refused *)
Example ex_assertion_on_generated_account :
  let usd := Some [36%Z] in
  let E := [69%Z] in let Qa := [81%Z] in let BE := [66; 58; 69]%Z in
  let rules := [mkAR E [mkAL [66; 58]%Z true PBalVirtual (mkAmt (-1) 0 false None);
                        mkAL [66; 58; 80]%Z false PBalVirtual (mkAmt 1 0 false None)]] in
  let w k acct a asg := mkW (mkPost acct k a None None false false false) asg in
  let x0 := [w PReal E (Some (mkAmt 40 2 false usd)) None; w PReal Qa None None] in
  let x1 asg := [w PBalVirtual BE (Some (mkAmt 0 2 false usd)) (Some (mkAmt asg 2 false usd));
                 w PBalVirtual Qa (Some (mkAmt 0 2 false usd)) None] in
  (match run_journal_x (auto_ext rules) false false [] [] [x0; x1 (-40)] with
   | [Ok (Accepted ps0); Ok (Accepted _)] => length ps0 = 4%nat
   | _ => False end) /\
  (match run_journal_x (auto_ext rules) false false [] [] [x0; x1 0] with
   | [Ok (Accepted _); Err EAssertOff] => True
   | _ => False end).
Proof. vm_compute. split; [reflexivity | exact I]. Qed.

(* ---- deferred postings `<Account>`: POST_DEFERRED is not POST_VIRTUAL, so while its transaction is read such a posting is
   an ordinary real one (it must balance; a later `= AMOUNT` of the same transaction on the account counts it: d_w is all
   resolve_posts sees); once the transaction is accepted the account holds it back until the file of the -f option
   has been read to its end (run_journal_d; JEndOfFile is not the end of an included file) ---- *)

(* without `<..>` postings, in one file, the journal loop is the one of before *)
Theorem journal_without_deferred_postings_is_the_plain_journal : forall ext ord permissive xs pl hist held,
  run_journal_d ext ord permissive pl hist held (map plain_item xs) = run_journal_x ext ord permissive pl hist xs.
Proof. exact run_journal_d_plain. Qed.
Print Assumptions journal_without_deferred_postings_is_the_plain_journal.

(* up to the end of the file no assertion verdict and no assigned amount depends on what the accounts hold back: the
   running balance a `= AMOUNT` is judged on is the fold of the earlier NON-deferred postings, in file order *)
Theorem deferred_postings_play_no_part_before_the_end_of_the_file : forall ext ord permissive xs pl hist held,
  no_eof xs = true ->
  run_journal_d ext ord permissive pl hist held xs = run_journal_d ext ord permissive pl hist [] xs.
Proof. exact held_plays_no_part. Qed.
Print Assumptions deferred_postings_play_no_part_before_the_end_of_the_file.

(* at the end of the file they reach their accounts, behind what is there: the next file's assertions count them *)
Theorem end_of_file_hands_deferred_postings_to_their_accounts : forall ext ord permissive xs pl hist held,
  run_journal_d ext ord permissive pl hist held (JEndOfFile :: xs) =
  run_journal_d ext ord permissive pl (hist ++ held) [] xs.
Proof. exact end_of_file_releases. Qed.
Print Assumptions end_of_file_hands_deferred_postings_to_their_accounts.

(* and nothing is lost or counted twice on the way: what reaches the accounts at once plus what is held back sums, for
   every account, kind of assertion and commodity, to the transaction's postings *)
Theorem deferred_and_immediate_postings_partition_the_transaction : forall acct ro c ps fl now later,
  split_deferred fl ps = (now, later) ->
  running (posts_to_history now) acct ro c + running (posts_to_history later) acct ro c ==
  running (posts_to_history ps) acct ro c.
Proof. exact split_deferred_running. Qed.
Print Assumptions deferred_and_immediate_postings_partition_the_transaction.

(* non-vacuity:  x0: A $1.00 / Q ;  x1: <A> $5.00 / Q ;  x2: <A> $2.00 / A $1.00 = $4.00 / Q   is accepted (the
   deferred posting of x1 is not counted, the one of x2 itself is), `= $9.00` there is refused; after the end of the
   file  A $0.00 = $9.00 / Q $0.00  is accepted *)
Example ex_deferred_postings :
  let usd := Some [36%Z] in
  let A := [65%Z] in let Qa := [81%Z] in
  let d df acct a asg := mkD (mkW (mkPost acct PReal a None None false false false) asg) df in
  let am q := Some (mkAmt q 2 false usd) in
  let x0 := JXact [d false A (am 1) None; d false Qa None None] in
  let x1 := JXact [d true A (am 5) None; d false Qa None None] in
  let x2 asg := JXact [d true A (am 2) None; d false A (am 1) (am asg); d false Qa None None] in
  let x3 := JXact [d false A (am 0) (am 9); d false Qa (am 0) None] in
  (match run_journal_d (fun _ _ => []) false false [] [] [] [x0; x1; x2 4; JEndOfFile; x3] with
   | [Ok (Accepted _); Ok (Accepted _); Ok (Accepted _); Ok (Accepted _)] => True
   | _ => False end) /\
  (match run_journal_d (fun _ _ => []) false false [] [] [] [x0; x1; x2 9; x3] with
   | [Ok (Accepted _); Ok (Accepted _); Err EAssertOff; Err EAssertOff] => True
   | _ => False end).
Proof. vm_compute. split; exact I. Qed.

(* ---- the cost of a posting plays no part in a `= AMOUNT` clause: whatever `@ COST` / `@@ COST` the posting itself and the
   earlier postings of the transaction carry, the verdict is the same and the assigned amount is the same - the
   quantity counted is the amount (with_cost f replaces cost and POST_COST_CALCULATED by anything) ---- *)
Theorem costs_play_no_part_in_an_assertion : forall ord cp permissive hist earlier w f g,
  resolve_assigned ord cp permissive hist (map (with_cost f) earlier) (mkW (with_cost g (w_post w)) (w_assigned w)) =
  match resolve_assigned ord cp permissive hist earlier w with
  | Ok p => Ok (mkPost (p_acct p) (p_kind p) (p_amt p) (fst (g (w_post w))) (p_lotprice p) (p_calculated p)
                       (p_generated p) (snd (g (w_post w))))
  | Err e => Err e
  end.
Proof. exact resolve_assigned_costs. Qed.
Print Assumptions costs_play_no_part_in_an_assertion.

(* ---- the bare clause `= 0` (no commodity): every commodity of the account is meant.  diff_at .. c = written - running -
   earlier in commodity c (the written number counts in the commodity-less entry only) ---- *)
Theorem bare_assignment_completes_every_commodity : forall ord cp permissive hist earlier w amt p',
  w_assigned w = Some amt -> p_amt (w_post w) = None -> acomm amt = None ->
  resolve_assigned ord cp permissive hist earlier w = Ok p' ->
  exists x, p_amt p' = Some x /\ p_acct p' = p_acct (w_post w) /\ p_kind p' = p_kind (w_post w) /\
    ((forall c, at_comm x c == diff_at hist earlier (w_post w) amt c) /\ is_zero cp x = false \/
     x = zero_of amt /\
     ((forall c0 : comm, (0 <= cp c0 <= 230)%Z) -> forall c, Qabs (diff_at hist earlier (w_post w) amt c) < 1)).
Proof. exact bare_assignment_spec. Qed.
Print Assumptions bare_assignment_completes_every_commodity.

Theorem bare_assertion_decided_on_every_commodity : forall ord cp permissive hist earlier w a amt r,
  w_assigned w = Some amt -> p_amt (w_post w) = Some a -> acomm amt = None ->
  resolve_assigned ord cp permissive hist earlier w = r ->
  (exists e, r = Err e /\ e <> EAssertOff) \/
  exists d4, nodup_keys d4 /\
    (forall c, bden d4 c == diff_at hist earlier (w_post w) amt c - at_comm (strip a) c) /\
    r = if negb permissive && negb (bal_is_zero cp d4) then Err EAssertOff else Ok (w_post w).
Proof. exact bare_assertion_spec. Qed.
Print Assumptions bare_assertion_decided_on_every_commodity.

(* non-vacuity: the account holds $10.00 and 3 AAA:  `A  = 0`  cannot be one amount; holding $10.00 only it receives
   $-10.00; and  `A  $-10.00 = 0`  is refused while 3 AAA remain *)
Example ex_bare_clause :
  let usd := Some [36%Z] in let aaa := Some [65; 65; 65]%Z in
  let h1 := [mkA [65%Z] false (mkAmt 10 2 false usd)] in
  let h2 := h1 ++ [mkA [65%Z] false (mkAmt 3 0 false aaa)] in
  let mk a := mkW (mkPost [65%Z] PReal a None None false false false) (Some (mkAmt 0 0 false None)) in
  resolve_assigned false (fun _ => 2%Z) false h2 [] (mk None) = Err EBadOp /\
  (exists p, resolve_assigned false (fun _ => 2%Z) false h1 [] (mk None) = Ok p /\
             p_amt p = Some (mkAmt (-10) 2 false usd)) /\
  (exists p, resolve_assigned false (fun _ => 2%Z) false h1 [] (mk (Some (mkAmt (-10) 2 false usd))) = Ok p) /\
  resolve_assigned false (fun _ => 2%Z) false h2 [] (mk (Some (mkAmt (-10) 2 false usd))) = Err EAssertOff.
Proof.
  cbn zeta. split; [vm_compute; reflexivity|]. split; [eexists; split; vm_compute; reflexivity|].
  split; [eexists; vm_compute; reflexivity|]. vm_compute. reflexivity.
Qed.

(* ---- `apply account N1` .. `apply account Nk`: a posting written `name` inside belongs to the account N1:..:Nk:name
   (under stack x is the transaction as the journal loop receives it), and it is THAT account's total its `= AMOUNT`
   consults: the account called `name` at top level is another account and contributes nothing, different written
   names stay different accounts, nested blocks compose ---- *)
Theorem apply_account_assertion_consults_the_qualified_account : forall hist n stack name ro c h,
  a_acct h = name ->
  running (hist ++ [h]) (qualify (n :: stack) name) ro c == running hist (qualify (n :: stack) name) ro c.
Proof. exact apply_account_consults_the_qualified_account. Qed.
Print Assumptions apply_account_assertion_consults_the_qualified_account.

Theorem apply_account_keeps_accounts_apart : forall stack a b, qualify stack a = qualify stack b -> a = b.
Proof. exact qualify_injective. Qed.
Print Assumptions apply_account_keeps_accounts_apart.

Theorem nested_apply_account_blocks_compose : forall s1 s2 name, qualify (s1 ++ s2) name = qualify s1 (qualify s2 name).
Proof. exact qualify_app. Qed.
Print Assumptions nested_apply_account_blocks_compose.

(* non-vacuity:  x0: T:A $4.00 / A $1.00 / Q ;  inside `apply account T`:  A $0.00 = $4.00 / Q $0.00  is accepted and
   `= $5.00`, `= $1.00` are refused *)
Example ex_apply_account :
  let usd := Some [36%Z] in
  let A := [65%Z] in let Qa := [81%Z] in let T := [84%Z] in
  let d acct a asg := mkD (mkW (mkPost acct PReal a None None false false false) asg) false in
  let am q := Some (mkAmt q 2 false usd) in
  let x0 := JXact [d (T ++ 58%Z :: A) (am 4) None; d A (am 1) None; d Qa None None] in
  let x1 asg := JXact (under [T] [d A (am 0) (am asg); d Qa (am 0) None]) in
  (match run_journal_d (fun _ _ => []) false false [] [] [] [x0; x1 4; x1 5; x1 1] with
   | [Ok (Accepted _); Ok (Accepted _); Err EAssertOff; Err EAssertOff] => True
   | _ => False end).
Proof. vm_compute. exact I. Qed.

(* ---- the order of effects within one transaction: its postings are judged in the order they are written; while the
   clause of a posting is judged the resolved postings before it are its `earlier`, and nothing written after it is
   known (the first stage does not mention ws2) ---- *)
Theorem postings_of_a_transaction_are_judged_in_written_order : forall ord permissive hist ws1 ws2 pl earlier,
  resolve_posts ord permissive pl hist earlier (ws1 ++ ws2) =
  match resolve_posts ord permissive pl hist earlier ws1 with
  | (Ok ps, pl') => resolve_posts ord permissive pl' hist (rev ps) ws2
  | (Err e, pl') => (Err e, pl')
  end.
Proof. exact resolve_posts_app. Qed.
Print Assumptions postings_of_a_transaction_are_judged_in_written_order.

(* the tie to the source by translation: the lines of /repo/src this model transcribes (harness/translators/src_guards.py
   lists them, with the function each is looked for in) are still there, in the same order, in the source as it is NOW -
   coq/Gen/SourceGuards.v is regenerated on every run and names the guards that are false *)
Theorem model_transcribes_current_source : forallb (fun b => b) src_guards_C09 = true.
Proof. vm_compute. reflexivity. Qed.
Print Assumptions model_transcribes_current_source.
