(* C09 - placeholder until the proofs are written *)
From LedgerV Require Import Base.Prelude Base.Round Model.Amount Model.Xact Model.Assert.
Theorem strip_keeps_quantity : forall a, aq (strip a) = aq a.
Proof. reflexivity. Qed.
Print Assumptions strip_keeps_quantity.
