(* C07 - filters select exactly the matching postings and never alter them.
   Property theorems only; proofs are in Proofs/FilterProofs.v and Proofs/QueryProofs.v.
   `filter_posts e l` is the model of filter_posts over the journal's postings `l` with the
   predicate `e`; `pred e p` is predicate_t applied to one posting (Err = the C++ throws, which
   aborts the report); `total_on e l` says that `e` evaluates without error on every posting of
   `l`.  `subseq`/`merge` are order-preserving sub-sequence and interleaving. *)
From LedgerV Require Import Base.Prelude Model.Filter Proofs.FilterProofs.
From Coq Require Import Permutation.
Local Open Scope Z_scope.

(* ---- truth of the results of ! & | (op.cc: & yields the right operand's value or false,
   | yields the left operand's value itself when it is true) ---- *)
Theorem truth_not : forall e p b, pred e p = Ok b -> pred (ENot e) p = Ok (negb b).
Proof. exact pred_not. Qed.
Print Assumptions truth_not.

Theorem truth_and : forall e f p a b,
  pred e p = Ok a -> pred f p = Ok b -> pred (EAnd e f) p = Ok (a && b).
Proof. exact pred_and. Qed.
Print Assumptions truth_and.

Theorem truth_or : forall e f p a b,
  pred e p = Ok a -> pred f p = Ok b -> pred (EOr e f) p = Ok (a || b).
Proof. exact pred_or. Qed.
Print Assumptions truth_or.

Theorem and_or_short_circuit : forall e f p,
  (pred e p = Ok false -> pred (EAnd e f) p = Ok false) /\
  (pred e p = Ok true -> pred (EOr e f) p = Ok true).
Proof. intros e f p. split; [apply pred_and_false | apply pred_or_true]. Qed.
Print Assumptions and_or_short_circuit.

(* ---- the filter forwards postings unchanged, in order; an error aborts ---- *)
Theorem filter_is_list_filter : forall e l,
  total_on e l -> filter_posts e l = Ok (filter (predb e) l).
Proof. exact filter_posts_spec. Qed.
Print Assumptions filter_is_list_filter.

Theorem filter_error_aborts : forall e l p x,
  In p l -> pred e p = Err x -> exists y, filter_posts e l = Err y.
Proof. exact filter_posts_err. Qed.
Print Assumptions filter_error_aborts.

(* ---- --limit P and --limit !P partition the unfiltered report ---- *)
Theorem limit_partition : forall e l,
  total_on e l ->
  exists yes no,
    filter_posts e l = Ok yes /\ filter_posts (ENot e) l = Ok no /\
    merge yes no l /\
    subseq yes l /\ subseq no l /\
    Permutation (yes ++ no) l /\
    (forall p, In p yes -> In p l /\ pred e p = Ok true) /\
    (forall p, In p no -> In p l /\ pred e p = Ok false) /\
    (forall p, In p yes -> In p no -> pred e p = Ok true /\ pred e p = Ok false).
Proof. exact limit_partition_lemma. Qed.
Print Assumptions limit_partition.

Theorem limit_partition_disjoint : forall e l p,
  total_on e l -> In p (filter (predb e) l) -> In p (filter (predb (ENot e)) l) -> False.
Proof. exact limit_disjoint. Qed.
Print Assumptions limit_partition_disjoint.

(* ---- and = intersection (= filtering twice), or = union ---- *)
Theorem limit_and : forall e f l,
  total_on e l -> total_on f l ->
  exists r rf, filter_posts (EAnd e f) l = Ok r /\ filter_posts f l = Ok rf /\
            filter_posts e rf = Ok r /\
            (forall p, In p r <-> In p l /\ pred e p = Ok true /\ pred f p = Ok true).
Proof. exact limit_and_lemma. Qed.
Print Assumptions limit_and.

Theorem limit_or : forall e f l,
  total_on e l -> total_on f l ->
  exists r, filter_posts (EOr e f) l = Ok r /\ subseq r l /\
            (forall p, In p r <-> In p l /\ (pred e p = Ok true \/ pred f p = Ok true)).
Proof. exact limit_or_lemma. Qed.
Print Assumptions limit_or.

(* several --limit options, --begin, --end and the query are and-ed by the option handler *)
Theorem limits_compose : forall e es l,
  Forall (fun x => total_on x l) (e :: es) ->
  exists r, report_posts (e :: es) l = Ok r /\ subseq r l /\
            (forall p, In p r <-> In p l /\ Forall (fun x => pred x p = Ok true) (e :: es)).
Proof. exact report_posts_lemma. Qed.
Print Assumptions limits_compose.

Theorem no_limit_reports_all : forall l, report_posts [] l = Ok l.
Proof. exact report_posts_nolimit. Qed.
Print Assumptions no_limit_reports_all.

(* ---- --begin D keeps exactly date >= D, --end D exactly date < D; they are complementary ---- *)
Theorem begin_end_split : forall tb te d l,
  exists from before,
    filter_posts (begin_pred tb d) l = Ok from /\ filter_posts (end_pred te d) l = Ok before /\
    from = filter (fun p => d <=? post_date p) l /\
    before = filter (fun p => post_date p <? d) l /\
    merge from before l /\
    (forall p, In p from -> In p before -> False).
Proof. exact begin_end_split_lemma. Qed.
Print Assumptions begin_end_split.

Theorem begin_end_range : forall tb te b e l,
  exists r, report_posts [begin_pred tb b; end_pred te e] l = Ok r /\
            r = filter (fun p => (b <=? post_date p) && (post_date p <? e)) l.
Proof. exact begin_end_range_lemma. Qed.
Print Assumptions begin_end_range.

(* non-vacuity: a predicate with a non-boolean operand is total on a concrete posting *)
Example total_example :
  let p := mkP 4 [65] [66] None None None [] [] (mkA (5 # 2) [36]) None 18262 SCleared false in
  total_on (EOr (EIdent IAmount) (ENot (EIdent INote))) [p] /\
  pred (EOr (EIdent IAmount) (ENot (EIdent INote))) p = Ok true.
Proof.
  cbn. split; [|reflexivity]. intros q [<-|[]]. eexists. reflexivity.
Qed.
