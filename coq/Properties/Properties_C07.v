(* C07 - filters select exactly the matching postings and never alter them.
   Property theorems only; proofs are in Proofs/FilterProofs.v and Proofs/QueryProofs.v.
   `filter_posts e l` is the model of filter_posts over the journal's postings `l` with the
   predicate `e`; `pred e p` is predicate_t applied to one posting (Err = the C++ throws, which
   aborts the report); `total_on e l` says that `e` evaluates without error on every posting of
   `l`.  `subseq`/`merge` are order-preserving sub-sequence and interleaving. *)
From LedgerV Require Import Base.Prelude Gen.LimitCombine Gen.QueryPrintOps Model.Filter Model.Query Proofs.FilterProofs Proofs.QueryProofs.
From Coq Require Import Permutation.
Local Open Scope Z_scope.

(* ---- truth of the results of ! & | (op.cc: & yields the right operand's value or false,
   | yields the left operand's value itself when it is true) ---- *)
Theorem truth_not : forall e p b, pred e p = Ok b -> pred (ENot e) p = Ok (negb b).
Proof. exact pred_not. Qed.
Print Assumptions truth_not.

Theorem truth_and : forall e f p a b,
  pred e p = Ok a -> pred f p = Ok b -> pred (EAnd e f) p = Ok (a && b).
Proof. exact pred_and. Qed.
Print Assumptions truth_and.

Theorem truth_or : forall e f p a b,
  pred e p = Ok a -> pred f p = Ok b -> pred (EOr e f) p = Ok (a || b).
Proof. exact pred_or. Qed.
Print Assumptions truth_or.

Theorem and_or_short_circuit : forall e f p,
  (pred e p = Ok false -> pred (EAnd e f) p = Ok false) /\
  (pred e p = Ok true -> pred (EOr e f) p = Ok true).
Proof. intros e f p. split; [apply pred_and_false | apply pred_or_true]. Qed.
Print Assumptions and_or_short_circuit.

(* ---- the filter forwards postings unchanged, in order; an error aborts ---- *)
Theorem filter_is_list_filter : forall e l,
  total_on e l -> filter_posts e l = Ok (filter (predb e) l).
Proof. exact filter_posts_spec. Qed.
Print Assumptions filter_is_list_filter.

Theorem filter_error_aborts : forall e l p x,
  In p l -> pred e p = Err x -> exists y, filter_posts e l = Err y.
Proof. exact filter_posts_err. Qed.
Print Assumptions filter_error_aborts.

(* ---- --limit P and --limit !P partition the unfiltered report ---- *)
Theorem limit_partition : forall e l,
  total_on e l ->
  exists yes no,
    filter_posts e l = Ok yes /\ filter_posts (ENot e) l = Ok no /\
    merge yes no l /\
    subseq yes l /\ subseq no l /\
    Permutation (yes ++ no) l /\
    (forall p, In p yes -> In p l /\ pred e p = Ok true) /\
    (forall p, In p no -> In p l /\ pred e p = Ok false) /\
    (forall p, In p yes -> In p no -> pred e p = Ok true /\ pred e p = Ok false).
Proof. exact limit_partition_lemma. Qed.
Print Assumptions limit_partition.

Theorem limit_partition_disjoint : forall e l p,
  total_on e l -> In p (filter (predb e) l) -> In p (filter (predb (ENot e)) l) -> False.
Proof. exact limit_disjoint. Qed.
Print Assumptions limit_partition_disjoint.

(* ---- and = intersection (= filtering twice), or = union ---- *)
Theorem limit_and : forall e f l,
  total_on e l -> total_on f l ->
  exists r rf, filter_posts (EAnd e f) l = Ok r /\ filter_posts f l = Ok rf /\
            filter_posts e rf = Ok r /\
            (forall p, In p r <-> In p l /\ pred e p = Ok true /\ pred f p = Ok true).
Proof. exact limit_and_lemma. Qed.
Print Assumptions limit_and.

Theorem limit_or : forall e f l,
  total_on e l -> total_on f l ->
  exists r, filter_posts (EOr e f) l = Ok r /\ subseq r l /\
            (forall p, In p r <-> In p l /\ (pred e p = Ok true \/ pred f p = Ok true)).
Proof. exact limit_or_lemma. Qed.
Print Assumptions limit_or.

(* several --limit options, --begin, --end and the query are and-ed by the option handler *)
Theorem limits_compose : forall e es l,
  Forall (fun x => total_on x l) (e :: es) ->
  exists r, report_posts (e :: es) l = Ok r /\ subseq r l /\
            (forall p, In p r <-> In p l /\ Forall (fun x => pred x p = Ok true) (e :: es)).
Proof. exact report_posts_lemma. Qed.
Print Assumptions limits_compose.

Theorem no_limit_reports_all : forall l, report_posts [] l = Ok l.
Proof. exact report_posts_nolimit. Qed.
Print Assumptions no_limit_reports_all.

(* ---- sequences of limit contributions (--limit, -b, -e, -C, -U, --pending, -R, -L, -c, the -p
   bounds, the command-line query): every one goes through limit_.on; the accumulated predicate
   is the left-nested conjunction, so only the SET of conditions matters ---- *)

(* the handler as the translator reads it out of src/report.h and src/option.h on this run:
   `if (handled) value = "(" + value + ")&(" + str + ")"`, option_t::on assigning the argument when
   the handler left the value alone, and the fixed conditions of the option shortcuts *)
Theorem limit_handler_shape :
  src_limit_guard_handled = true /\ src_on_assigns_when_untouched = true /\
  (forall value cond, limit_text src_limit_pieces value cond = [40] ++ value ++ [41; 38; 40] ++ cond ++ [41]) /\
  src_limit_sources =
    [(ident_name IActual, print_expr (contrib_expr 0 KActual));
     (ident_name ICleared, print_expr (contrib_expr 0 KCleared));
     ([99;117;114;114;101;110;116], [100;97;116;101;60;61;116;111;100;97;121]);
     (ident_name IPending, print_expr (contrib_expr 0 KPending));
     (ident_name IReal, print_expr (contrib_expr 0 KReal));
     (ident_name IUncleared, ident_name IUncleared ++ [124] ++ ident_name IPending)] /\
  src_begin_text = ([100;97;116;101;62;61;91], [93]) /\ src_end_text = ([100;97;116;101;60;91], [93]).
Proof.
  split; [reflexivity|]. split; [reflexivity|]. split; [|split; [reflexivity|split; reflexivity]].
  intros value cond. cbn [src_limit_pieces limit_text Z.eqb fst snd]. cbn [Z.eqb Pos.eqb]. rewrite app_nil_r. reflexivity.
Qed.
Print Assumptions limit_handler_shape.

Theorem limit_accumulation_is_conjunction : forall l, limit_acc l = combine_limits l.
Proof. exact limit_acc_combine. Qed.
Print Assumptions limit_accumulation_is_conjunction.

Theorem limits_are_intersection : forall es l,
  Forall (fun e => total_on e l) es ->
  exists r, report_posts es l = Ok r /\ subseq r l /\
    forall p, In p r <-> In p l /\
      forall e, In e es -> exists re, report_posts [e] l = Ok re /\ In p re.
Proof. exact limits_intersection. Qed.
Print Assumptions limits_are_intersection.

Theorem limits_order_and_multiplicity_free : forall es es' l,
  (forall e, In e es <-> In e es') ->
  Forall (fun e => total_on e l) es -> Forall (fun e => total_on e l) es' ->
  report_posts es l = report_posts es' l.
Proof. exact limits_same_set. Qed.
Print Assumptions limits_order_and_multiplicity_free.

Theorem limits_commute : forall es es' l,
  Permutation es es' -> Forall (fun e => total_on e l) es -> report_posts es l = report_posts es' l.
Proof. exact limits_permutation. Qed.
Print Assumptions limits_commute.

Theorem limit_repeated_is_idempotent : forall es1 es2 e l,
  In e (es1 ++ es2) -> Forall (fun x => total_on x l) (es1 ++ es2) ->
  report_posts (es1 ++ e :: es2) l = report_posts (es1 ++ es2) l.
Proof. exact limits_repeat. Qed.
Print Assumptions limit_repeated_is_idempotent.

Theorem option_sequence_order_free : forall now opts opts' period query l,
  (forall k, In k opts <-> In k opts') ->
  Forall (fun e => total_on e l) (all_limits now opts period query) ->
  report_with now opts period query l = report_with now opts' period query l.
Proof. exact option_sequence_lemma. Qed.
Print Assumptions option_sequence_order_free.

Theorem option_conditions_never_fail : forall today k l,
  match k with KLimit e => total_on e l | _ => True end -> total_on (contrib_expr today k) l.
Proof. exact contrib_total. Qed.
Print Assumptions option_conditions_never_fail.

(* --cleared -b D --cleared keeps the begin date: the sequence A, B, A selects what A, B selects *)
Example repeated_option_example : forall now tb d l,
  report_with now [KCleared; KBegin tb d; KCleared] (None, None) None l =
  report_with now [KCleared; KBegin tb d] (None, None) None l.
Proof.
  intros. apply option_sequence_lemma.
  - intros k. cbn [In]. tauto.
  - repeat constructor; try apply total_begin; intros p _; eexists; reflexivity.
Qed.

(* ---- finding F95: `today` is report_t::terminus, and -e / --end overwrites terminus with its own
   date (report.h:667), so under -c -e D the condition of -c becomes date<=D: "what -c -e D
   selects is among what -c selects alone" is FALSE of the faithful model.  Witness: --now on
   day 10, -e on day 20, a posting dated day 15 - reported, although it lies after today. ---- *)
Theorem current_with_end_refuted :
  exists now tc te d l p r r',
    report_with now [KCurrent tc; KEnd te d] (None, None) None l = Ok r /\ In p r /\
    report_with now [KCurrent tc] (None, None) None l = Ok r' /\ ~ In p r'.
Proof.
  exists 10, [], [], 20.
  exists [mkP 1 [65] [66] None None None [] [] (mkA 1 []) None 15 SUncleared false].
  eexists. eexists. eexists.
  split; [vm_compute; reflexivity|]. split; [left; reflexivity|].
  split; [vm_compute; reflexivity|]. intros [].
Qed.
Print Assumptions current_with_end_refuted.

(* ---- --begin D keeps exactly date >= D, --end D exactly date < D; they are complementary ---- *)
Theorem begin_end_split : forall tb te d l,
  exists from before,
    filter_posts (begin_pred tb d) l = Ok from /\ filter_posts (end_pred te d) l = Ok before /\
    from = filter (fun p => d <=? post_date p) l /\
    before = filter (fun p => post_date p <? d) l /\
    merge from before l /\
    (forall p, In p from -> In p before -> False).
Proof. exact begin_end_split_lemma. Qed.
Print Assumptions begin_end_split.

Theorem begin_end_range : forall tb te b e l,
  exists r, report_posts [begin_pred tb b; end_pred te e] l = Ok r /\
            r = filter (fun p => (b <=? post_date p) && (post_date p <? e)) l.
Proof. exact begin_end_range_lemma. Qed.
Print Assumptions begin_end_range.

(* ---- the command-line query parser (query.cc lexer + precedence ladder, transcribed in
   Model/Query.v) maps a written query tree to the intended expression.
   `render q` writes the tree one token per argument, operators and field selectors in either
   spelling (and/&, or/|, not/!, payee/@, code/#, note/=), juxtaposition for QJux, with exactly
   the parentheses that not > and > or > juxtaposition (left-associative) requires;
   `query_ok q`: every pattern is a bare word (no white space, quote, operator or escape byte,
   not a reserved word).  It holds for every `ext` (the expression parser behind `expr ARG`) and
   in both lexing modes.
   _partial: tag selectors (%), `expr`, quoted patterns and several tokens inside one argument
   are not covered by this theorem (they are covered by the correspondence check only). ---- *)
Theorem query_parse_spec_partial : forall ext multi q,
  query_ok q = true -> parse ext multi (render q) = Ok (Some (to_expr q)).
Proof. exact query_parse_lemma. Qed.
Print Assumptions query_parse_spec_partial.

(* corollary: the query selects what the equivalent value expression selects *)
Theorem query_equiv_expr : forall ext multi q l,
  query_ok q = true ->
  exists e, parse ext multi (render q) = Ok (Some e) /\
            report_posts [e] l = filter_posts (to_expr q) l.
Proof.
  intros ext multi q l H. exists (to_expr q). split; [apply query_parse_lemma; exact H | reflexivity].
Qed.
Print Assumptions query_equiv_expr.

(* A query is not evaluated from the tree the query parser builds: parse_query_expr prints it
   (print_to_str -> expr_t::op_t::print) and the report parses that text again.  The writer half as
   the translator reads it out of src/op.cc on this run: every operator of the fragment is a block
   of its own that writes exactly the text the model's print_expr writes between the operands,
   inside one pair of parentheses. *)
Theorem query_print_ops_shape :
  src_print_parenthesises = true /\
  src_print_ops =
    [([79;95;77;65;84;67;72], [32;61;126;32]);
     ([79;95;69;81], [32] ++ cmp_name CEq ++ [32]);
     ([79;95;76;84], [32] ++ cmp_name CLt ++ [32]);
     ([79;95;76;84;69], [32] ++ cmp_name CLe ++ [32]);
     ([79;95;71;84], [32] ++ cmp_name CGt ++ [32]);
     ([79;95;71;84;69], [32] ++ cmp_name CGe ++ [32]);
     ([79;95;65;78;68], [32;38;32]);
     ([79;95;79;82], [32;124;32]);
     ([79;95;78;79;84], [33;32])] /\
  (forall op l r, print_expr (ECmp op l r) = [40] ++ print_expr l ++ [32] ++ cmp_name op ++ [32] ++ print_expr r ++ [41]) /\
  (forall l pat, print_expr (EMatch l pat) = [40] ++ print_expr l ++ [32;61;126;32] ++ [47] ++ pat ++ [47;41]) /\
  (forall l r, print_expr (EAnd l r) = [40] ++ print_expr l ++ [32;38;32] ++ print_expr r ++ [41]) /\
  (forall l r, print_expr (EOr l r) = [40] ++ print_expr l ++ [32;124;32] ++ print_expr r ++ [41]) /\
  (forall x, print_expr (ENot x) = [40] ++ [33;32] ++ print_expr x ++ [41]) /\
  (* distinct comparisons are written differently, so the text determines the operator *)
  (forall a b, cmp_name a = cmp_name b -> a = b).
Proof.
  repeat split; try reflexivity.
  intros a b. destruct a, b; cbn; congruence.
Qed.
Print Assumptions query_print_ops_shape.

(* `a b or c and d` is a | (b | (c & d)); `not a @x` is (!a) | payee x: computed by the model *)
Example query_precedence_example :
  let w c := [c] in
  let m c := EMatch (EIdent IAccount) [c] in
  parse (fun _ => Err EOther) true [w 97; w 98; kw_or; w 99; kw_and; w 100]
    = Ok (Some (EOr (m 97) (EOr (m 98) (EAnd (m 99) (m 100))))) /\
  parse (fun _ => Err EOther) true [kw_not; w 97; [64; 120]]
    = Ok (Some (EOr (ENot (m 97)) (EMatch (EIdent IPayee) [120]))).
Proof. vm_compute. split; reflexivity. Qed.

(* non-vacuity of query_parse_spec_partial: a tree with every construct is query_ok and renders
   to the expected argument vector *)
Example query_render_example :
  let q := QJux (QTerm QAccount false [97])
                (QOr false (QTerm QPayee true [98])
                     (QAnd true (QNot false (QJux (QTerm QCode false [99]) (QTerm QNote true [100])))
                           (QTerm QAccount false [101]))) in
  query_ok q = true /\
  render q = [[97]; [64]; [98]; kw_or; kw_not; [40]; kw_code; [99]; [61]; [100]; [41]; [38]; [101]].
Proof. vm_compute. split; reflexivity. Qed.

(* non-vacuity: a predicate with a non-boolean operand is total on a concrete posting *)
Example total_example :
  let p := mkP 4 [65] [66] None None None [] [] (mkA (5 # 2) [36]) None 18262 SCleared false in
  total_on (EOr (EIdent IAmount) (ENot (EIdent INote))) [p] /\
  pred (EOr (EIdent IAmount) (ENot (EIdent INote))) p = Ok true.
Proof.
  cbn. split; [|reflexivity]. intros q [<-|[]]. eexists. reflexivity.
Qed.

(* ---- `%word=value` / `tag word=value` / has_tag(/word/, /value/).  Documented meaning: the
   posting (or its transaction) has a metadata tag containing 'word' whose value contains 'value'
   (tag_pair_matches).  item_t::has_tag (item.cc:58-73, as repaired by 27e3f7d, finding F207)
   selects exactly these postings: it never selects a posting without such a tag (sound) and
   selects every posting that has one, whatever other tags share the name pattern (complete;
   before the repair a posting tagged `ta: other` and `tb: val` was missed by `%t=val`). ---- *)
Theorem has_tag_value_sound : forall tp vm p,
  has_tag tp (Some vm) p = true -> tag_pair_matches tp vm (p_tags p ++ p_xtags p).
Proof. exact has_tag_value_sound_lemma. Qed.
Print Assumptions has_tag_value_sound.

Theorem has_tag_value_complete : forall tp vm p,
  tag_pair_matches tp vm (p_tags p ++ p_xtags p) -> has_tag tp (Some vm) p = true.
Proof. exact has_tag_value_complete_lemma. Qed.
Print Assumptions has_tag_value_complete.

(* the former witness of the defect: tags ta: other / tb: val, query %t=val - now selected *)
Example has_tag_value_example :
  has_tag [116] (Some [118;97;108])
          (mkP 1 [65] [66] None None None
               [([116;97], Some [111;116;104;101;114]); ([116;98], Some [118;97;108])] []
               (mkA 1 []) None 15 SUncleared false) = true.
Proof. vm_compute. reflexivity. Qed.
