(* C07 - filters select exactly the matching postings and never alter them.
   Property theorems only; proofs are in Proofs/FilterProofs.v and Proofs/QueryProofs.v.
   `filter_posts e l` is the model of filter_posts over the journal's postings `l` with the
   predicate `e`; `pred e p` is predicate_t applied to one posting (Err = the C++ throws, which
   aborts the report); `total_on e l` says that `e` evaluates without error on every posting of
   `l`.  `subseq`/`merge` are order-preserving sub-sequence and interleaving. *)
From LedgerV Require Import Base.Prelude Model.Filter Model.Query Proofs.FilterProofs Proofs.QueryProofs.
From Coq Require Import Permutation.
Local Open Scope Z_scope.

(* ---- truth of the results of ! & | (op.cc: & yields the right operand's value or false,
   | yields the left operand's value itself when it is true) ---- *)
Theorem truth_not : forall e p b, pred e p = Ok b -> pred (ENot e) p = Ok (negb b).
Proof. exact pred_not. Qed.
Print Assumptions truth_not.

Theorem truth_and : forall e f p a b,
  pred e p = Ok a -> pred f p = Ok b -> pred (EAnd e f) p = Ok (a && b).
Proof. exact pred_and. Qed.
Print Assumptions truth_and.

Theorem truth_or : forall e f p a b,
  pred e p = Ok a -> pred f p = Ok b -> pred (EOr e f) p = Ok (a || b).
Proof. exact pred_or. Qed.
Print Assumptions truth_or.

Theorem and_or_short_circuit : forall e f p,
  (pred e p = Ok false -> pred (EAnd e f) p = Ok false) /\
  (pred e p = Ok true -> pred (EOr e f) p = Ok true).
Proof. intros e f p. split; [apply pred_and_false | apply pred_or_true]. Qed.
Print Assumptions and_or_short_circuit.

(* ---- the filter forwards postings unchanged, in order; an error aborts ---- *)
Theorem filter_is_list_filter : forall e l,
  total_on e l -> filter_posts e l = Ok (filter (predb e) l).
Proof. exact filter_posts_spec. Qed.
Print Assumptions filter_is_list_filter.

Theorem filter_error_aborts : forall e l p x,
  In p l -> pred e p = Err x -> exists y, filter_posts e l = Err y.
Proof. exact filter_posts_err. Qed.
Print Assumptions filter_error_aborts.

(* ---- --limit P and --limit !P partition the unfiltered report ---- *)
Theorem limit_partition : forall e l,
  total_on e l ->
  exists yes no,
    filter_posts e l = Ok yes /\ filter_posts (ENot e) l = Ok no /\
    merge yes no l /\
    subseq yes l /\ subseq no l /\
    Permutation (yes ++ no) l /\
    (forall p, In p yes -> In p l /\ pred e p = Ok true) /\
    (forall p, In p no -> In p l /\ pred e p = Ok false) /\
    (forall p, In p yes -> In p no -> pred e p = Ok true /\ pred e p = Ok false).
Proof. exact limit_partition_lemma. Qed.
Print Assumptions limit_partition.

Theorem limit_partition_disjoint : forall e l p,
  total_on e l -> In p (filter (predb e) l) -> In p (filter (predb (ENot e)) l) -> False.
Proof. exact limit_disjoint. Qed.
Print Assumptions limit_partition_disjoint.

(* ---- and = intersection (= filtering twice), or = union ---- *)
Theorem limit_and : forall e f l,
  total_on e l -> total_on f l ->
  exists r rf, filter_posts (EAnd e f) l = Ok r /\ filter_posts f l = Ok rf /\
            filter_posts e rf = Ok r /\
            (forall p, In p r <-> In p l /\ pred e p = Ok true /\ pred f p = Ok true).
Proof. exact limit_and_lemma. Qed.
Print Assumptions limit_and.

Theorem limit_or : forall e f l,
  total_on e l -> total_on f l ->
  exists r, filter_posts (EOr e f) l = Ok r /\ subseq r l /\
            (forall p, In p r <-> In p l /\ (pred e p = Ok true \/ pred f p = Ok true)).
Proof. exact limit_or_lemma. Qed.
Print Assumptions limit_or.

(* several --limit options, --begin, --end and the query are and-ed by the option handler *)
Theorem limits_compose : forall e es l,
  Forall (fun x => total_on x l) (e :: es) ->
  exists r, report_posts (e :: es) l = Ok r /\ subseq r l /\
            (forall p, In p r <-> In p l /\ Forall (fun x => pred x p = Ok true) (e :: es)).
Proof. exact report_posts_lemma. Qed.
Print Assumptions limits_compose.

Theorem no_limit_reports_all : forall l, report_posts [] l = Ok l.
Proof. exact report_posts_nolimit. Qed.
Print Assumptions no_limit_reports_all.

(* ---- --begin D keeps exactly date >= D, --end D exactly date < D; they are complementary ---- *)
Theorem begin_end_split : forall tb te d l,
  exists from before,
    filter_posts (begin_pred tb d) l = Ok from /\ filter_posts (end_pred te d) l = Ok before /\
    from = filter (fun p => d <=? post_date p) l /\
    before = filter (fun p => post_date p <? d) l /\
    merge from before l /\
    (forall p, In p from -> In p before -> False).
Proof. exact begin_end_split_lemma. Qed.
Print Assumptions begin_end_split.

Theorem begin_end_range : forall tb te b e l,
  exists r, report_posts [begin_pred tb b; end_pred te e] l = Ok r /\
            r = filter (fun p => (b <=? post_date p) && (post_date p <? e)) l.
Proof. exact begin_end_range_lemma. Qed.
Print Assumptions begin_end_range.

(* ---- the command-line query parser (query.cc lexer + precedence ladder, transcribed in
   Model/Query.v) maps a written query tree to the intended expression.
   `render q` writes the tree one token per argument, operators and field selectors in either
   spelling (and/&, or/|, not/!, payee/@, code/#, note/=), juxtaposition for QJux, with exactly
   the parentheses that not > and > or > juxtaposition (left-associative) requires;
   `query_ok q`: every pattern is a bare word (no white space, quote, operator or escape byte,
   not a reserved word).  It holds for every `ext` (the expression parser behind `expr ARG`) and
   in both lexing modes.
   _partial: tag selectors (%), `expr`, quoted patterns and several tokens inside one argument
   are not covered by this theorem (they are covered by the correspondence check only). ---- *)
Theorem query_parse_spec_partial : forall ext multi q,
  query_ok q = true -> parse ext multi (render q) = Ok (Some (to_expr q)).
Proof. exact query_parse_lemma. Qed.
Print Assumptions query_parse_spec_partial.

(* corollary: the query selects what the equivalent value expression selects *)
Theorem query_equiv_expr : forall ext multi q l,
  query_ok q = true ->
  exists e, parse ext multi (render q) = Ok (Some e) /\
            report_posts [e] l = filter_posts (to_expr q) l.
Proof.
  intros ext multi q l H. exists (to_expr q). split; [apply query_parse_lemma; exact H | reflexivity].
Qed.
Print Assumptions query_equiv_expr.

(* `a b or c and d` is a | (b | (c & d)); `not a @x` is (!a) | payee x: computed by the model *)
Example query_precedence_example :
  let w c := [c] in
  let m c := EMatch (EIdent IAccount) [c] in
  parse (fun _ => Err EOther) true [w 97; w 98; kw_or; w 99; kw_and; w 100]
    = Ok (Some (EOr (m 97) (EOr (m 98) (EAnd (m 99) (m 100))))) /\
  parse (fun _ => Err EOther) true [kw_not; w 97; [64; 120]]
    = Ok (Some (EOr (ENot (m 97)) (EMatch (EIdent IPayee) [120]))).
Proof. vm_compute. split; reflexivity. Qed.

(* non-vacuity of query_parse_spec_partial: a tree with every construct is query_ok and renders
   to the expected argument vector *)
Example query_render_example :
  let q := QJux (QTerm QAccount false [97])
                (QOr false (QTerm QPayee true [98])
                     (QAnd true (QNot false (QJux (QTerm QCode false [99]) (QTerm QNote true [100])))
                           (QTerm QAccount false [101]))) in
  query_ok q = true /\
  render q = [[97]; [64]; [98]; kw_or; kw_not; [40]; kw_code; [99]; [61]; [100]; [41]; [38]; [101]].
Proof. vm_compute. split; reflexivity. Qed.

(* non-vacuity: a predicate with a non-boolean operand is total on a concrete posting *)
Example total_example :
  let p := mkP 4 [65] [66] None None None [] [] (mkA (5 # 2) [36]) None 18262 SCleared false in
  total_on (EOr (EIdent IAmount) (ENot (EIdent INote))) [p] /\
  pred (EOr (EIdent IAmount) (ENot (EIdent INote))) p = Ok true.
Proof.
  cbn. split; [|reflexivity]. intros q [<-|[]]. eexists. reflexivity.
Qed.
