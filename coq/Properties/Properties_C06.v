(* C06 - print and equity output re-reads to an equivalent journal.
   Property theorems only; proofs in Proofs/PrintProofs.v.  The model (Model/Print.v) has
     decide  : print_xact's per-posting decisions on the finalized postings,
     reread  : what parse_post makes of the lines print writes,
     read_back : amount_t::print followed by amount_t::parse (rounding at the display precision,
                 zero trimming), read_back_value : value_t::print (bare 0 for a display-zero amount),
     print_reread = decide ; reread ; finalize,   equity_account : posts_as_equity per account.
   The one statement that is FALSE of the faithful model is kept as `..._refuted` with its witness
   (finding F8).  Three former refutations became theorems when /repo was repaired (bcb53b0: the
   elision requires must_balance; 294def6: posting marks; c386080: zero amount with a per-unit cost);
   their old witnesses survive as Examples of the repaired behaviour. *)
From LedgerV Require Import Base.Prelude Base.Round Model.Amount Model.AmountText Model.Xact Model.Print
  Proofs.AmountProofs Proofs.XactProofs Proofs.PrintProofs Model.Assert.
From Coq Require Import Qabs.
Local Open Scope Q_scope.

(* ---- amounts: the text print writes is exact whenever the display precision covers the decimals *)
Theorem printed_amount_rereads_exactly : forall cp a,
  printable cp a ->
  aq (read_back cp a) == aq a /\ acomm (read_back cp a) = acomm a /\ akeep (read_back cp a) = false.
Proof. exact read_back_exact. Qed.
Print Assumptions printed_amount_rereads_exactly.

(* an amount written in the journal (its decimals were learnt by the commodity) is never shown rounded *)
Theorem written_amount_rereads_exactly : forall cp a,
  printable cp a ->
  match acomm a with Some c => akeep a = true \/ (aprec a <= cp c)%Z | None => True end ->
  aq (read_back_value cp a) == aq a.
Proof. exact read_back_value_written. Qed.
Print Assumptions written_amount_rereads_exactly.

(* ---- costs *)
Theorem per_unit_cost_roundtrip : forall cp u a,
  ~ aq a == 0 -> 0 <= aq u -> acomm u <> None ->
  let g := cost_per_unit cp (with_keep u) a in
  exists q, amt_div cp g a = Ok q /\
    (printable cp (amt_abs q) ->
     let u' := read_back cp (amt_abs q) in
     aq u' == aq u /\ acomm u' = acomm u /\
     aq (cost_per_unit cp (with_keep u') a) == aq g /\
     acomm (cost_per_unit cp (with_keep u') a) = acomm g).
Proof. exact PrintProofs.per_unit_cost_roundtrip. Qed.
Print Assumptions per_unit_cost_roundtrip.

Theorem total_cost_roundtrip : forall cp t a,
  0 <= aq t ->
  let g := cost_total (with_keep t) a in
  printable cp (amt_abs g) ->
  let t' := read_back cp (amt_abs g) in
  aq t' == aq t /\ acomm t' = acomm t /\
  aq (cost_total (with_keep t') a) == aq g /\ acomm (cost_total (with_keep t') a) = acomm g.
Proof. exact PrintProofs.total_cost_roundtrip. Qed.
Print Assumptions total_cost_roundtrip.

(* the cost print shows is the cost AS WRITTEN (given_cost), whatever finalize made of the posting's cost
   (a lot-priced posting's cost is rewritten to the lot's basis): p_cost p does not occur in the statement *)
Theorem printed_cost_is_written_cost : forall cp xs count index first p e a g,
  p_generated p = false -> p_calculated p = false -> p_cost_calculated p = false ->
  p_amt p = Some a -> e_given e = Some g ->
  exists ln, decide_post cp xs count index first (p, e) = Ok (Some ln) /\
    (if e_in_full e || is_realzero a
     then l_cost ln = Some (CTotal, e_cost_virtual e, read_back cp (amt_abs g))
     else exists q, amt_div cp g a = Ok q /\
                    l_cost ln = Some (CPerUnit, e_cost_virtual e, read_back cp (amt_abs q))).
Proof. exact PrintProofs.printed_cost_is_written_cost. Qed.
Print Assumptions printed_cost_is_written_cost.

Theorem printed_cost_ignores_adjusted_cost : forall cp xs count index first first' p e a g c',
  p_generated p = false -> p_calculated p = false -> p_cost_calculated p = false ->
  p_amt p = Some a -> e_given e = Some g ->
  exists ln ln', decide_post cp xs count index first (p, e) = Ok (Some ln) /\
                 decide_post cp xs count index first' (set_cost p c', e) = Ok (Some ln') /\
                 l_cost ln = l_cost ln'.
Proof. exact PrintProofs.printed_cost_ignores_adjusted_cost. Qed.
Print Assumptions printed_cost_ignores_adjusted_cost.

Theorem printed_total_cost_quantity : forall cp xs count index first p e a g,
  p_generated p = false -> p_calculated p = false -> p_cost_calculated p = false ->
  p_amt p = Some a -> e_given e = Some g -> e_in_full e = true -> printable cp (amt_abs g) ->
  exists ln t, decide_post cp xs count index first (p, e) = Ok (Some ln) /\
               l_cost ln = Some (CTotal, e_cost_virtual e, t) /\ aq t == Qabs (aq g) /\ acomm t = acomm g.
Proof. exact PrintProofs.printed_total_cost_quantity. Qed.
Print Assumptions printed_total_cost_quantity.

(* ---- print ; re-read ; finalize: a transaction of any length whose amounts were all written and
   which balances exactly is accepted again from the printed text, with the same accounts, kinds,
   exact amounts and exact costs *)
Theorem print_reread_equiv : forall ord cp xs (l : list xpost),
  l <> [] -> Forall (wf_written cp) l -> wf_costs (map fst l) ->
  (forall c, bsum (map fst l) c == 0) ->
  finalize ord cp None (map fst l) = Ok (Accepted (map fst l)) /\
  exists ps'', print_reread ord cp xs (attach (map fst l) (map snd l)) = Ok (Accepted ps'') /\
               Forall2 psim ps'' (map fst l).
Proof. exact print_reread_equiv_all. Qed.
Print Assumptions print_reread_equiv.

(* the two-posting case on its own: no hypothesis about the kinds of the postings - the printer
   checks must_balance() of both before it leaves the second amount out (print.cc:231-232) *)
Theorem print_reread_pair : forall ord cp xs x1 x2,
  wf_written cp x1 -> wf_written cp x2 -> wf_costs [fst x1; fst x2] ->
  (forall c, bsum [fst x1; fst x2] c == 0) ->
  exists ps'', print_reread ord cp xs [x1; x2] = Ok (Accepted ps'') /\ Forall2 psim ps'' [fst x1; fst x2].
Proof. exact PrintProofs.print_reread_pair. Qed.
Print Assumptions print_reread_pair.

Theorem print_elides_only_balancing_pairs : forall count index first x,
  elides count index first x = true ->
  count = 2%nat /\ index = 2%nat /\ must_balance (fst x) = true /\ must_balance (fst first) = true /\
  simple_amount x = true /\ simple_amount first = true /\ amt_comm (fst first) = amt_comm (fst x).
Proof. exact elides_must_balance. Qed.
Print Assumptions print_elides_only_balancing_pairs.

(* a printed posting line never carries a cost (`@ ..`, `@@ ..`) without the amount it belongs to: an amount is left
   out only for a SIMPLE posting, and a posting with a cost the user wrote is not simple (print.cc:66-69).  The
   hypothesis is parse_post's invariant: given_cost is set together with cost *)
Theorem cost_shown_only_with_amount : forall cp xs count index first p e ln,
  (e_given e <> None -> p_cost p <> None) ->
  decide_post cp xs count index first (p, e) = Ok (Some ln) ->
  l_cost ln <> None -> l_amt ln <> None.
Proof. exact PrintProofs.cost_shown_only_with_amount. Qed.
Print Assumptions cost_shown_only_with_amount.

(* what the reader infers for an amount that was left out ... *)
Theorem elided_second_is_negation : forall ord cp acct1 k1 a1 acct2 k2,
  k1 <> PVirtual -> k2 <> PVirtual ->
  finalize ord cp None [mkp acct1 k1 (Some a1); mkp acct2 k2 None]
  = Ok (Accepted [mkp acct1 k1 (Some a1);
                  mkPost acct2 k2 (Some (amt_neg (unkeep a1))) None None true false false]).
Proof. exact PrintProofs.elided_second_is_negation. Qed.
Print Assumptions elided_second_is_negation.

(* ... is the amount that was written: an accepted pair of plainly written amounts of one commodity
   balances exactly (no display-precision slack), so the inferred -a1 is a2 *)
Theorem print_elide_sound : forall ord cp acct1 k1 a1 acct2 k2 a2 ps',
  k1 <> PVirtual -> k2 <> PVirtual -> acomm a1 = acomm a2 ->
  match acomm a1 with Some c => (aprec a1 <= cp c /\ aprec a2 <= cp c)%Z | None => True end ->
  finalize ord cp None [mkp acct1 k1 (Some a1); mkp acct2 k2 (Some a2)] = Ok (Accepted ps') ->
  aq a2 == - aq a1 /\ aq (amt_neg (unkeep a1)) == aq a2.
Proof. exact elision_sound. Qed.
Print Assumptions print_elide_sound.

(* why the printer has to check must_balance: the READER rejects every (virtual) pair whose second
   amount is missing - nothing fills a null amount that need not balance *)
Theorem elided_virtual_is_rejected : forall ord cp acct1 a1 acct2,
  finalize ord cp None [mkp acct1 PVirtual (Some a1); mkp acct2 PVirtual None] = Err ENullLeft.
Proof. exact PrintProofs.elided_virtual_is_rejected. Qed.
Print Assumptions elided_virtual_is_rejected.

Definition usd : option comm := Some [36%Z].
Definition cp2 : comm -> Z := fun _ => 2%Z.

(* the witness of the repaired defect [F7] `(A) $-3.00 / (B) $3.00` (before /repo bcb53b0 print wrote
   `(B)` bare and the text was rejected): both amounts are printed and the text is accepted *)
Definition f7_witness : list xpost :=
  [(mkp [65%Z] PVirtual (Some (mkAmt (-3) 2 false usd)), no_extra SUncleared);
   (mkp [66%Z] PVirtual (Some (mkAmt 3 2 false usd)), no_extra SUncleared)].

Example virtual_pair_prints_both_amounts :
  decide cp2 SUncleared f7_witness =
  Ok [mkLine [65%Z] PVirtual SUncleared (Some (mkAmt (-3) 2 false usd)) None None None;
      mkLine [66%Z] PVirtual SUncleared (Some (mkAmt 3 2 false usd)) None None None] /\
  print_reread false cp2 SUncleared f7_witness = Ok (Accepted (map fst f7_witness)).
Proof. split; vm_compute; reflexivity. Qed.

(* finding F8: a commoditized zero is written as a bare 0; the quantity survives, the commodity does not *)
Theorem zero_amount_commodity_lost_refuted :
  exists cp a, acomm a <> None /\ acomm (read_back_value cp a) = None /\ aq (read_back_value cp a) == aq a.
Proof.
  exists cp2, (mkAmt 0 2 false usd). split; [discriminate|]. split; vm_compute; reflexivity.
Qed.
Print Assumptions zero_amount_commodity_lost_refuted.

(* print produces its lines for every transaction (repaired defect [F28]: `A 0 AAA @ $2.00 / B $5.00 / C`
   made print abort with "Divide by zero" before /repo c386080) *)
Theorem print_never_fails : forall cp xs l, exists ls, decide cp xs l = Ok ls.
Proof. exact decide_total. Qed.
Print Assumptions print_never_fails.

Definition f28_zero : amount := mkAmt 0 0 false (Some [65; 65; 65]%Z).
Definition f28_cost : amount := cost_per_unit cp2 (mkAmt 2 2 true usd) f28_zero.
Definition f28_witness : list xpost :=
  [(mkPost [65%Z] PReal (Some f28_zero) (Some f28_cost) None false false false,
    mkExtra SUncleared (Some f28_cost) false false None);
   (mkp [66%Z] PReal (Some (mkAmt 5 2 false usd)), no_extra SUncleared);
   (mkPost [67%Z] PReal (Some (mkAmt (-5) 2 false usd)) None None true false false, no_extra SUncleared)].

(* the zero amount is written `0 @@ $0.00`: the total cost instead of a quotient *)
Example zero_amount_per_unit_prints_total :
  decide cp2 SUncleared f28_witness =
  Ok [mkLine [65%Z] PReal SUncleared (Some (mkAmt 0 0 false None)) None (Some (CTotal, false, mkAmt 0 2 false usd)) None;
      mkLine [66%Z] PReal SUncleared (Some (mkAmt 5 2 false usd)) None None None;
      mkLine [67%Z] PReal SUncleared None None None None].
Proof. vm_compute. reflexivity. Qed.

(* ---- a single posting under a bucket directive (`bucket B`, `A B`, `account B` + `default`): finalize adds the
   balancing posting on B, which takes over the state of the posting it balances (xact.cc:214-218).  Printed
   (the inferred posting as a bare account line) and read back, the transaction has the same two postings with the
   same exact amounts, and both postings carry the written posting's state in the original AND in the re-read journal *)
Theorem bucket_single_posting_roundtrip : forall ord cp xs b acct k a e,
  k <> PVirtual -> printable cp a -> is_zero cp a = false ->
  e_given e = None -> e_assigned e = None -> (e_state e = SUncleared -> xs = SUncleared) ->
  let ps' := [mkp acct k (Some a); mkPost b PReal (Some (amt_neg (unkeep a))) None None true false false] in
  finalize ord cp (Some b) [mkp acct k (Some a)] = Ok (Accepted ps') /\
  map (fun x => e_state (snd x)) (attach ps' [e]) = [e_state e; e_state e] /\
  exists ls, decide cp xs (attach ps' [e]) = Ok ls /\
    map (fun x => e_state (snd x)) (reread cp xs ls) = [e_state e; e_state e] /\
    exists ps'', finalize ord cp None (map fst (reread cp xs ls)) = Ok (Accepted ps'') /\ Forall2 psim ps'' ps'.
Proof. exact PrintProofs.bucket_single_posting_roundtrip. Qed.
Print Assumptions bucket_single_posting_roundtrip.

(* `bucket B` and `2021/01/04 * x / A $42.10`: two lines, none with a mark of its own under the `*` header *)
Example ex_bucket_cleared :
  match finalize false cp2 (Some [66%Z]) [mkp [65%Z] PReal (Some (mkAmt (421 # 10) 2 false usd))] with
  | Ok (Accepted ps') =>
      match decide cp2 SCleared (attach ps' [no_extra SCleared]) with
      | Ok ls => map l_mark ls = [SUncleared; SUncleared] /\
                 map (fun x => e_state (snd x)) (reread cp2 SCleared ls) = [SCleared; SCleared]
      | _ => False
      end
  | _ => False
  end.
Proof. vm_compute. split; reflexivity. Qed.

(* ---- a balance assignment `Acct  = A` is printed as amount + assertion `Acct  x' = A`, the computed amount x at
   display precision.  When the account's running total t carries more decimals than the commodity displays (an
   elided leg of a fractional per-unit cost), x' differs from x by a residue.  The reader decides the assertion with
   the display-zero test at the commodity's precision (textual.cc:1781 `! diff.is_zero()`): the printed form is
   accepted whenever the residue is below half a display unit - which print's rounding guarantees (printed_amount
   within half a unit, Properties_C04).  The account total and the asserted amount are the same in both journals
   (the other postings re-read exactly: print_reread_equiv) *)
Theorem printed_assignment_rereads_accepted : forall ord cp hist p amt t k,
  p_amt p = None ->
  acct_total ord hist (p_acct p) (negb (is_virtual p)) VVoid = Ok (VAmt t) ->
  acomm amt = Some k -> acomm t = Some k -> base_sym k = k -> akeep amt = false ->
  is_realzero amt = false -> is_realzero t = false ->
  (cp k < aprec t)%Z -> (0 <= cp k <= 230)%Z ->
  let x := mkAmt (Qred (aq amt - aq t)) (addsub_prec amt t) false (Some k) in
  is_zero cp x = false ->
  resolve_assigned ord cp false hist [] (mkW p (Some amt)) = Ok (with_amt p (Some x)) /\
  forall x', acomm x' = Some k ->
    2 * Qabs (aq x - aq x') * inject_Z (10 ^ cp k) < 1 ->
    resolve_assigned ord cp false hist [] (mkW (with_amt p (Some x')) (Some amt)) = Ok (with_amt p (Some x')).
Proof. exact PrintProofs.printed_assignment_rereads_accepted. Qed.
Print Assumptions printed_assignment_rereads_accepted.

(* the seeded journal: Assets:Cash holds $20.00 and the elided leg $-3.999 of `3 AAPL @ $1.333`; `= $10.00`
   computes $-6.001, print writes `$-6.00 = $10.00`, and that assertion (off by $0.001) is accepted *)
Definition pa_hist : list apost :=
  [mkA [67%Z] false (mkAmt 20 2 false usd); mkA [67%Z] false (mkAmt (-3999 # 1000) 3 false usd)].
Definition pa_post : post := mkp [67%Z] PReal None.
Definition pa_amt : amount := mkAmt 10 2 false usd.

Example ex_printed_assignment :
  match resolve_assigned false cp2 false pa_hist [] (mkW pa_post (Some pa_amt)) with
  | Ok p' =>
      match p_amt p' with
      | Some x =>
          Qred (aq x) = (-6001 # 1000) /\ Qred (aq (read_back_value cp2 x)) = (-6 # 1) /\
          resolve_assigned false cp2 false pa_hist []
            (mkW (with_amt pa_post (Some (read_back_value cp2 x))) (Some pa_amt))
          = Ok (with_amt pa_post (Some (read_back_value cp2 x)))
      | None => False
      end
  | Err _ => False
  end.
Proof. vm_compute. repeat split. Qed.

(* finding F135: the hypothesis "the account total is the same in both journals" fails once an EARLIER assignment on
   the account was printed rounded; two roundings can add up to more than half a display unit.  Witness:
   `5 CCC @ $64.197 / A`, `A = $-437.46`, `46 CCC @ $56.179 / A`, `A = $-2957.08`: all accepted; printed with the
   computed amounts at display precision ($-116.48 for -116.475, $64.61 for 64.614) the last line is
   "Balance assertion off by $0.01" *)
Definition f135_ccc : option comm := Some [67; 67; 67]%Z.
Definition f135_buy (n : Z) (price : Q) : list wpost :=
  let a := mkAmt (inject_Z n) 0 false f135_ccc in
  [mkW (mkPost [66%Z] PReal (Some a) (Some (cost_per_unit cp2 (mkAmt price 3 true usd) a)) None false false false) None;
   mkW (mkp [65%Z] PReal None) None].
Definition f135_assign (target : Q) : list wpost :=
  [mkW (mkp [65%Z] PReal None) (Some (mkAmt target 2 false usd)); mkW (mkp [69%Z] PReal None) None].
Definition f135_journal : list (list wpost) :=
  [f135_buy 5 (64197 # 1000); f135_assign (-43746 # 100); f135_buy 46 (56179 # 1000); f135_assign (-295708 # 100)].

(* print: an assignment posting gets the amount ledger computed, as the reader sees its text *)
Definition f135_cp : comm -> Z := fun c => if str_eqb c [36%Z] then 2%Z else 0%Z.
Definition print_assignments (x : list wpost) (o : res outcome) : list wpost :=
  match o with
  | Ok (Accepted ps') =>
      map (fun wp => match w_assigned (fst wp), p_amt (w_post (fst wp)) with
                     | Some _, None =>
                         mkW (with_amt (w_post (fst wp))
                                       (match p_amt (snd wp) with Some a => Some (read_back_value f135_cp a) | None => None end))
                             (w_assigned (fst wp))
                     | _, _ => fst wp
                     end) (combine x ps')
  | _ => x
  end.

Theorem printed_assignments_accumulate_refuted :
  let outs := run_journal_a false false [] [] f135_journal in
  let printed := map (fun xo => print_assignments (fst xo) (snd xo)) (combine f135_journal outs) in
  forallb (fun o => match o with Ok (Accepted _) => true | _ => false end) outs = true /\
  nth 3 (run_journal_a false false [] [] printed) (Ok Ignored) = Err EAssertOff.
Proof. vm_compute. split; reflexivity. Qed.
Print Assumptions printed_assignments_accumulate_refuted.

(* ---- states: the mark print writes brings the posting's state back.  The hypothesis is the
   invariant parse_post establishes (a posting is UNCLEARED only under an uncleared transaction: one
   without its own mark inherits the transaction's state), so it holds of every journal that was read.
   Repaired defect [F27]: before /repo 294def6 `* x / ! B` was printed without B's mark and B came back cleared *)
Theorem posting_state_roundtrip : forall xs e,
  (e_state e = SUncleared -> xs = SUncleared) -> read_state xs (mark_of xs e) = e_state e.
Proof. exact mark_roundtrip. Qed.
Print Assumptions posting_state_roundtrip.

Example pending_posting_under_cleared_xact :
  mark_of SCleared (no_extra SPending) = SPending /\ read_state SCleared SPending = SPending.
Proof. split; reflexivity. Qed.

(* ---- printing twice *)
Theorem printed_amount_prints_the_same : forall cp a c,
  acomm a = Some c -> akeep a = false -> (0 <= cp c <= 230)%Z ->
  read_back cp (read_back cp a) = read_back cp a.
Proof. exact read_back_idem. Qed.
Print Assumptions printed_amount_prints_the_same.

Theorem print_idempotent : forall cp xs (l : list xpost),
  length l <> 2%nat -> Forall (wf_plain cp) l ->
  exists ls, decide cp xs l = Ok ls /\ decide cp xs (reread cp xs ls) = Ok ls.
Proof. exact PrintProofs.print_idempotent. Qed.
Print Assumptions print_idempotent.

(* ---- layout: the one rule the reader depends on - an amount is always at least two blanks away
   from the account name (account column = max 36 / longest name; amount right-justified in 12) *)
Theorem print_separates_account_and_amount : forall names n amt_len,
  In n names -> (0 < amt_len)%Z -> (2 <= sep_blanks (account_width names) n amt_len)%Z.
Proof. exact separator_at_least_two. Qed.
Print Assumptions print_separates_account_and_amount.

Example ex_separator_boundaries :
  sep_blanks (account_width [36; 20]%Z) 36 11 = 2%Z /\      (* name fills the column, amount one short of 12 *)
  sep_blanks (account_width [38; 37]%Z) 37 30 = 2%Z /\      (* one short of the column, wide amount *)
  sep_blanks (account_width [36; 20]%Z) 36 12 = 2%Z /\ sep_blanks (account_width [36; 20]%Z) 36 10 = 2%Z /\
  sep_blanks (account_width [36; 20]%Z) 20 7 = 21%Z /\ sep_blanks (account_width [40; 35]%Z) 35 0 = 0%Z /\
  sep_blanks (account_width [40; 39]%Z) 39 0 = 0%Z.
Proof. vm_compute. repeat split. Qed.

(* repaired finding F50 (/repo 73eebeb): a posting whose amount print leaves out is written exactly as the bare
   name the second print writes for the (then calculated) amount - no padding either way, whatever the widths *)
Theorem print_padding_idempotent : forall names n,
  posting_blanks false (account_width names) n 0 = posting_blanks true (account_width names) n 0.
Proof. intros names n. reflexivity. Qed.
Print Assumptions print_padding_idempotent.

(* ---- equity *)
Theorem equity_reproduces_balances : forall ord cp acct kind amts ps c,
  (forall a, In a amts -> fine cp a) ->
  equity_account ord cp acct kind amts = Ok ps ->
  psum ps c == asum amts c.
Proof. exact PrintProofs.equity_reproduces_balances. Qed.
Print Assumptions equity_reproduces_balances.

(* ---- the hypotheses are satisfiable: `A 10 AAA @ $2.50 / B $-20.00 / C $-5.00` (not cleared) *)
Definition ex_aaa : option comm := Some [65; 65; 65]%Z.
Definition ex_amt := mkAmt 10 0 false ex_aaa.
Definition ex_cost := cost_per_unit cp2 (with_keep (mkAmt (5 # 2) 2 false usd)) ex_amt.
Definition ex_xact : list xpost :=
  [(mkPost [65%Z] PReal (Some ex_amt) (Some ex_cost) None false false false, mkExtra SUncleared (Some ex_cost) false false None);
   (mkp [66%Z] PReal (Some (mkAmt (-20) 2 false usd)), no_extra SUncleared);
   (mkp [67%Z] PReal (Some (mkAmt (-5) 2 false usd)), no_extra SPending)].

Example ex_printable : printable cp2 (mkAmt (-20) 2 false usd).
Proof. split; [vm_compute; split; discriminate|]. split; [vm_compute; discriminate|]. exists (-2000)%Z. vm_compute. reflexivity. Qed.

Example ex_print_decisions :
  decide cp2 SUncleared ex_xact =
  Ok [mkLine [65%Z] PReal SUncleared (Some (mkAmt 10 2 false ex_aaa)) None
             (Some (CPerUnit, false, mkAmt (5 # 2) 2 false usd)) None;
      mkLine [66%Z] PReal SUncleared (Some (mkAmt (-20) 2 false usd)) None None None;
      mkLine [67%Z] PReal SPending (Some (mkAmt (-5) 2 false usd)) None None None].
Proof. vm_compute. reflexivity. Qed.

Example ex_print_reread_accepted :
  match print_reread false cp2 SUncleared ex_xact with
  | Ok (Accepted ps) => map (fun p => match p_cost p with Some c => Qred (aq c) | None => 0 end) ps = [25; 0; 0]
  | _ => False
  end.
Proof. vm_compute. reflexivity. Qed.

(* equity: A received $5.00, 3 EUR and $-5.00: one posting, 3 EUR (the $ sum is zero and dropped) *)
Example ex_equity :
  equity_account false cp2 [65%Z] PReal
    [mkAmt 5 2 false usd; mkAmt 3 0 false (Some [69; 85; 82]%Z); mkAmt (-5) 2 false usd]
  = Ok [mkp [65%Z] PReal (Some (mkAmt 3 0 false (Some [69; 85; 82]%Z)))].
Proof. vm_compute. reflexivity. Qed.

(* `-10 AAA {$5.00} @@ $60.00 / B`: finalize rewrites the cost to the basis $-50.00; print still shows @@ $60.00 *)
Definition ls_amt := mkAmt (-10) 0 false (Some [65; 65; 65; 126; 123; 53; 125]%Z).
Definition ls_cost := cost_total (with_keep (mkAmt 60 2 false usd)) ls_amt.
Definition ls_xact : list xpost :=
  [(mkPost [65%Z] PReal (Some ls_amt) (Some ls_cost) (Some (mkAmt 5 2 true usd)) false false false,
    mkExtra SUncleared (Some ls_cost) true false None);
   (mkp [66%Z] PReal None, no_extra SUncleared)].

Example ex_lot_sale_prints_written_cost :
  match finalize false cp2 None (map fst ls_xact) with
  | Ok (Accepted ps') =>
      map (fun p => match p_cost p with Some c => Qred (aq c) | None => 0 end) ps' = [-50; 0] /\
      match decide cp2 SUncleared (attach ps' (map snd ls_xact)) with
      | Ok (ln :: _) => l_cost ln = Some (CTotal, false, mkAmt 60 2 false usd)
      | _ => False
      end
  | _ => False
  end.
Proof. vm_compute. split; reflexivity. Qed.

(* `A 100.00 EUR @ $1.12 / B -100.00 EUR @ $1.12`: one commodity, both must balance - and both amounts are printed *)
Definition tr_eur : option comm := Some [69; 85; 82]%Z.
Definition tr_leg (acct : str) (q : Q) : xpost :=
  let a := mkAmt q 2 false tr_eur in
  let g := cost_per_unit cp2 (mkAmt (112 # 100) 2 true usd) a in
  (mkPost acct PReal (Some a) (Some g) None false false false, mkExtra SUncleared (Some g) false false None).

Example ex_transfer_with_costs_prints_both_amounts :
  match decide cp2 SUncleared [tr_leg [65%Z] 100; tr_leg [66%Z] (-100)] with
  | Ok [l1; l2] => l_amt l1 = Some (mkAmt 100 2 false tr_eur) /\ l_amt l2 = Some (mkAmt (-100) 2 false tr_eur) /\
                   l_cost l2 = Some (CPerUnit, false, mkAmt (28 # 25) 2 false usd)
  | _ => False
  end.
Proof. vm_compute. repeat split; reflexivity. Qed.

