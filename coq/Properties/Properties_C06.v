From LedgerV Require Import Base.Prelude Model.Print Proofs.PrintProofs.
Theorem placeholder : True. Proof. exact I. Qed.
Print Assumptions placeholder.
