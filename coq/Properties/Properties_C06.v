(* C06 - print and equity output re-reads to an equivalent journal.
   Property theorems only; proofs in Proofs/PrintProofs.v.  The model (Model/Print.v) has
     decide  : print_xact's per-posting decisions on the finalized postings,
     reread  : what parse_post makes of the lines print writes,
     read_back : amount_t::print followed by amount_t::parse (rounding at the display precision,
                 zero trimming), read_back_value : value_t::print (bare 0 for a display-zero amount),
     print_reread = decide ; reread ; finalize,   equity_account : posts_as_equity per account.
   Statements that are FALSE of the faithful model are kept as `..._refuted` with their witness
   (findings F7, F8, F27, F28). *)
From LedgerV Require Import Base.Prelude Base.Round Model.Amount Model.AmountText Model.Xact Model.Print
  Proofs.AmountProofs Proofs.XactProofs Proofs.PrintProofs.
Local Open Scope Q_scope.

(* ---- amounts: the text print writes is exact whenever the display precision covers the decimals *)
Theorem printed_amount_rereads_exactly : forall cp a,
  printable cp a ->
  aq (read_back cp a) == aq a /\ acomm (read_back cp a) = acomm a /\ akeep (read_back cp a) = false.
Proof. exact read_back_exact. Qed.
Print Assumptions printed_amount_rereads_exactly.

(* an amount written in the journal (its decimals were learnt by the commodity) is never shown rounded *)
Theorem written_amount_rereads_exactly : forall cp a,
  printable cp a ->
  match acomm a with Some c => akeep a = true \/ (aprec a <= cp c)%Z | None => True end ->
  aq (read_back_value cp a) == aq a.
Proof. exact read_back_value_written. Qed.
Print Assumptions written_amount_rereads_exactly.

(* ---- costs *)
Theorem per_unit_cost_roundtrip : forall cp u a,
  ~ aq a == 0 -> 0 <= aq u -> acomm u <> None ->
  let g := cost_per_unit cp (with_keep u) a in
  exists q, amt_div cp g a = Ok q /\
    (printable cp (amt_abs q) ->
     let u' := read_back cp (amt_abs q) in
     aq u' == aq u /\ acomm u' = acomm u /\
     aq (cost_per_unit cp (with_keep u') a) == aq g /\
     acomm (cost_per_unit cp (with_keep u') a) = acomm g).
Proof. exact PrintProofs.per_unit_cost_roundtrip. Qed.
Print Assumptions per_unit_cost_roundtrip.

Theorem total_cost_roundtrip : forall cp t a,
  0 <= aq t ->
  let g := cost_total (with_keep t) a in
  printable cp (amt_abs g) ->
  let t' := read_back cp (amt_abs g) in
  aq t' == aq t /\ acomm t' = acomm t /\
  aq (cost_total (with_keep t') a) == aq g /\ acomm (cost_total (with_keep t') a) = acomm g.
Proof. exact PrintProofs.total_cost_roundtrip. Qed.
Print Assumptions total_cost_roundtrip.

(* ---- print ; re-read ; finalize *)
Theorem print_reread_equiv : forall ord cp xs (l : list xpost),
  length l <> 2%nat -> l <> [] -> Forall (wf_written cp) l -> wf_costs (map fst l) ->
  (forall c, bsum (map fst l) c == 0) ->
  finalize ord cp None (map fst l) = Ok (Accepted (map fst l)) /\
  exists ps'', print_reread ord cp xs (attach (map fst l) (map snd l)) = Ok (Accepted ps'') /\
               Forall2 psim ps'' (map fst l).
Proof. exact PrintProofs.print_reread_equiv. Qed.
Print Assumptions print_reread_equiv.

(* the two-posting elision: what the reader infers for the amount that was left out ... *)
Theorem elided_second_is_negation : forall ord cp acct1 k1 a1 acct2 k2,
  k1 <> PVirtual -> k2 <> PVirtual ->
  finalize ord cp None [mkp acct1 k1 (Some a1); mkp acct2 k2 None]
  = Ok (Accepted [mkp acct1 k1 (Some a1);
                  mkPost acct2 k2 (Some (amt_neg (unkeep a1))) None None true false false]).
Proof. exact PrintProofs.elided_second_is_negation. Qed.
Print Assumptions elided_second_is_negation.

(* ... is the amount that was written, PROVIDED both postings must balance *)
Theorem print_elide_sound : forall ord cp acct1 k1 a1 acct2 k2 a2 ps',
  k1 <> PVirtual -> k2 <> PVirtual -> acomm a1 = acomm a2 ->
  match acomm a1 with Some c => (aprec a1 <= cp c /\ aprec a2 <= cp c)%Z | None => True end ->
  finalize ord cp None [mkp acct1 k1 (Some a1); mkp acct2 k2 (Some a2)] = Ok (Accepted ps') ->
  aq a2 == - aq a1 /\ aq (amt_neg (unkeep a1)) == aq a2.
Proof. exact elision_sound. Qed.
Print Assumptions print_elide_sound.

(* without that proviso the statement is false of the faithful model: print.cc does not test
   must_balance().  Every (virtual) pair whose second amount is left out is rejected on re-read *)
Theorem elided_virtual_is_rejected : forall ord cp acct1 a1 acct2,
  finalize ord cp None [mkp acct1 PVirtual (Some a1); mkp acct2 PVirtual None] = Err ENullLeft.
Proof. exact PrintProofs.elided_virtual_is_rejected. Qed.
Print Assumptions elided_virtual_is_rejected.

Definition usd : option comm := Some [36%Z].
Definition cp2 : comm -> Z := fun _ => 2%Z.

(* finding F7, witness `(A) $-3.00 / (B) $3.00`: accepted, printed with `(B)` bare, text rejected *)
Definition f7_witness : list xpost :=
  [(mkp [65%Z] PVirtual (Some (mkAmt (-3) 2 false usd)), no_extra SUncleared);
   (mkp [66%Z] PVirtual (Some (mkAmt 3 2 false usd)), no_extra SUncleared)].

Theorem print_elide_virtual_refuted :
  exists (l : list xpost),
    match finalize false cp2 None (map fst l) with
    | Ok (Accepted ps') => print_reread false cp2 SUncleared (attach ps' (map snd l)) = Err ENullLeft
    | _ => False
    end.
Proof. exists f7_witness. vm_compute. reflexivity. Qed.
Print Assumptions print_elide_virtual_refuted.

(* finding F8: a commoditized zero is written as a bare 0; the quantity survives, the commodity does not *)
Theorem zero_amount_commodity_lost_refuted :
  exists cp a, acomm a <> None /\ acomm (read_back_value cp a) = None /\ aq (read_back_value cp a) == aq a.
Proof.
  exists cp2, (mkAmt 0 2 false usd). split; [discriminate|]. split; vm_compute; reflexivity.
Qed.
Print Assumptions zero_amount_commodity_lost_refuted.

(* finding F28: `A 0 AAA @ $2.00 / B $5.00 / C` is accepted and print fails on it *)
Definition f23_zero : amount := mkAmt 0 0 false (Some [65; 65; 65]%Z).
Definition f23_cost : amount := cost_per_unit cp2 (mkAmt 2 2 true usd) f23_zero.
Definition f23_witness : list xpost :=
  [(mkPost [65%Z] PReal (Some f23_zero) (Some f23_cost) None false false false,
    mkExtra SUncleared (Some f23_cost) false false None);
   (mkp [66%Z] PReal (Some (mkAmt 5 2 false usd)), no_extra SUncleared);
   (mkp [67%Z] PReal None, no_extra SUncleared)].

Theorem print_zero_amount_per_unit_refuted :
  exists (l : list xpost),
    match finalize false cp2 None (map fst l) with
    | Ok (Accepted ps') => decide cp2 SUncleared (attach ps' (map snd l)) = Err EDivZero
    | _ => False
    end.
Proof. exists f23_witness. vm_compute. reflexivity. Qed.
Print Assumptions print_zero_amount_per_unit_refuted.

(* ---- states: a posting's mark survives under an uncleared transaction, or when it is the transaction's *)
Theorem posting_state_roundtrip : forall xs e,
  xs = SUncleared \/ e_state e = xs -> read_state xs (mark_of xs e) = e_state e.
Proof.
  intros xs e [->|H]; [apply mark_roundtrip_uncleared | apply mark_roundtrip_same; exact H].
Qed.
Print Assumptions posting_state_roundtrip.

(* finding F27: otherwise it is lost (`* x / ! B`: B comes back cleared) *)
Theorem posting_state_lost_refuted : exists xs e, read_state xs (mark_of xs e) <> e_state e.
Proof. exact mark_lost_refuted. Qed.
Print Assumptions posting_state_lost_refuted.

(* ---- printing twice *)
Theorem printed_amount_prints_the_same : forall cp a c,
  acomm a = Some c -> akeep a = false -> (0 <= cp c <= 230)%Z ->
  read_back cp (read_back cp a) = read_back cp a.
Proof. exact read_back_idem. Qed.
Print Assumptions printed_amount_prints_the_same.

Theorem print_idempotent : forall cp xs (l : list xpost),
  length l <> 2%nat -> Forall (wf_plain cp) l ->
  exists ls, decide cp xs l = Ok ls /\ decide cp xs (reread cp xs ls) = Ok ls.
Proof. exact PrintProofs.print_idempotent. Qed.
Print Assumptions print_idempotent.

(* ---- equity *)
Theorem equity_reproduces_balances : forall ord cp acct kind amts ps c,
  (forall a, In a amts -> fine cp a) ->
  equity_account ord cp acct kind amts = Ok ps ->
  psum ps c == asum amts c.
Proof. exact PrintProofs.equity_reproduces_balances. Qed.
Print Assumptions equity_reproduces_balances.

(* ---- the hypotheses are satisfiable: `A 10 AAA @ $2.50 / B $-20.00 / C $-5.00` (not cleared) *)
Definition ex_aaa : option comm := Some [65; 65; 65]%Z.
Definition ex_amt := mkAmt 10 0 false ex_aaa.
Definition ex_cost := cost_per_unit cp2 (with_keep (mkAmt (5 # 2) 2 false usd)) ex_amt.
Definition ex_xact : list xpost :=
  [(mkPost [65%Z] PReal (Some ex_amt) (Some ex_cost) None false false false, mkExtra SUncleared (Some ex_cost) false false None);
   (mkp [66%Z] PReal (Some (mkAmt (-20) 2 false usd)), no_extra SUncleared);
   (mkp [67%Z] PReal (Some (mkAmt (-5) 2 false usd)), no_extra SPending)].

Example ex_printable : printable cp2 (mkAmt (-20) 2 false usd).
Proof. split; [vm_compute; split; discriminate|]. split; [vm_compute; discriminate|]. exists (-2000)%Z. vm_compute. reflexivity. Qed.

Example ex_print_decisions :
  decide cp2 SUncleared ex_xact =
  Ok [mkLine [65%Z] PReal SUncleared (Some (mkAmt 10 2 false ex_aaa)) None
             (Some (CPerUnit, false, mkAmt (5 # 2) 2 false usd)) None;
      mkLine [66%Z] PReal SUncleared (Some (mkAmt (-20) 2 false usd)) None None None;
      mkLine [67%Z] PReal SPending (Some (mkAmt (-5) 2 false usd)) None None None].
Proof. vm_compute. reflexivity. Qed.

Example ex_print_reread_accepted :
  match print_reread false cp2 SUncleared ex_xact with
  | Ok (Accepted ps) => map (fun p => match p_cost p with Some c => Qred (aq c) | None => 0 end) ps = [25; 0; 0]
  | _ => False
  end.
Proof. vm_compute. reflexivity. Qed.

(* equity: A received $5.00, 3 EUR and $-5.00: one posting, 3 EUR (the $ sum is zero and dropped) *)
Example ex_equity :
  equity_account false cp2 [65%Z] PReal
    [mkAmt 5 2 false usd; mkAmt 3 0 false (Some [69; 85; 82]%Z); mkAmt (-5) 2 false usd]
  = Ok [mkp [65%Z] PReal (Some (mkAmt 3 0 false (Some [69; 85; 82]%Z)))].
Proof. vm_compute. reflexivity. Qed.
