(* C13 - period reports partition the timeline.
   Property theorems only; proofs in Proofs/PeriodProofs.v and Proofs/PeriodCalendarProofs.v.

   Vocabulary (Model/Period.v, Model/PeriodCalendar.v):
     add_dur dur z          date_duration_t::add (boost day / week / month / year arithmetic)
     init dur from to       what the period-expression parser returns for `<dur> [from F] [to T]`
     stabilize, increment   date_interval_t::stabilize, operator++ (times.cc:1184-1307, 1389-1413)
     walk n st              the (start, end_of_duration) pairs the object steps through
     flush_posts            interval_posts::flush (filters.cc:956-1045)
     spec_intervals dur from to a n
                            THE SPECIFICATION: s_0 = a, s_{i+1} = add_dur dur s_i; interval i is
                            [s_i, s_{i+1}) cut to [from, to); the first n of them
     is_anchor .. date a    a is the point of the grid starting at stabilize's initial start
                            whose period contains the date (from, or the earliest posting)
     dur_ok dur             the duration is at least one unit long (the parser rejects 0) *)
From LedgerV Require Import Base.Prelude Model.PeriodCalendar Gen.PeriodSources Gen.PeriodWords Model.Period
  Model.PeriodExpr Proofs.PeriodCalendarProofs Proofs.PeriodProofs Proofs.PeriodExprProofs.
From Coq Require Import Sorting.Sorted Sorting.Permutation.
Local Open Scope Z_scope.

(* adding a duration of at least one unit moves a date strictly forward: days, weeks, and the
   month-based quanta with boost's end-of-month rule (Jan 31 + 1 month, leap days) *)
Theorem add_dur_increasing : forall q n d, 1 <= n -> d < add_dur (mkDur q n) d.
Proof. exact add_dur_increasing_lemma. Qed.
Print Assumptions add_dur_increasing.

(* the calendar underneath: the two conversions are inverse on every day number *)
Theorem calendar_roundtrip : forall z,
  let '(y, m, d) := civil_from_days z in
  (1 <= m <= 12 /\ 1 <= d <= days_in_month y m) /\ days_from_civil y m d = z.
Proof. exact civil_roundtrip. Qed.
Print Assumptions calendar_roundtrip.

(* anchor_ok: the anchor a is the grid point of the period containing `from`; bounds_ok: from < to *)

(* finish_i = start_{i+1} *)
Theorem intervals_consecutive : forall dur from to a,
  dur_ok dur -> anchor_ok dur from a -> bounds_ok from to ->
  forall n i s e s' e',
    nth_error (spec_intervals dur from to a n) i = Some (s, e) ->
    nth_error (spec_intervals dur from to a n) (S i) = Some (s', e') -> e = s'.
Proof. exact spec_consecutive_full. Qed.

(* every interval is non-empty and earlier intervals end before later ones start *)
Theorem intervals_disjoint : forall dur from to a,
  dur_ok dur -> anchor_ok dur from a -> bounds_ok from to ->
  forall n i j s e s' e',
    (i < j)%nat ->
    nth_error (spec_intervals dur from to a n) i = Some (s, e) ->
    nth_error (spec_intervals dur from to a n) j = Some (s', e') -> s < e /\ e <= s' /\ s' < e'.
Proof. exact spec_disjoint_full. Qed.

(* an interval is exactly one duration long unless `to` cuts it; only the first one may start
   off the grid - at `from` - and then it ends where the period containing `from` ends *)
Theorem interval_length : forall dur from to a,
  dur_ok dur -> anchor_ok dur from a -> bounds_ok from to ->
  forall n i s e,
    nth_error (spec_intervals dur from to a n) i = Some (s, e) ->
    (e = add_dur dur s \/ (to = Some e /\ e < add_dur dur s) \/
     (i = 0%nat /\ from = Some s /\ a < s /\ e = clip to (add_dur dur a))) /\
    ((exists k, s = iter_dur dur k a) \/ (i = 0%nat /\ from = Some s /\ a < s)) /\
    (i = 0%nat -> s = first_start from a).
Proof. exact spec_length_full. Qed.

(* from <= d < to -> exists! i, start_i <= d < finish_i *)
Theorem every_date_in_exactly_one : forall dur from to a,
  dur_ok dur -> anchor_ok dur from a -> bounds_ok from to ->
  forall d, first_start from a <= d -> past to d = false ->
    (exists i s e, nth_error (spec_intervals dur from to a (S (S (Z.to_nat (d - a))))) i = Some (s, e) /\ s <= d < e) /\
    (forall n i j s e s' e',
       nth_error (spec_intervals dur from to a n) i = Some (s, e) -> s <= d < e ->
       nth_error (spec_intervals dur from to a n) j = Some (s', e') -> s' <= d < e' -> i = j).
Proof. exact spec_exactly_one_full. Qed.
Print Assumptions intervals_consecutive.
Print Assumptions intervals_disjoint.
Print Assumptions interval_length.
Print Assumptions every_date_in_exactly_one.

(* without --align-intervals (or without a `from`), every start other than a first one clipped at
   `from` is the first day of a month / of a quarter month / of January, or falls on the
   configured first day of the week *)
Theorem alignment : forall sow align dur from to date a n i s e,
  dur_ok dur -> 0 <= sow < 7 ->
  is_anchor sow align dur from to date a -> (forall f, from = Some f -> date = f) ->
  (forall f t, from = Some f -> to = Some t -> f < t) ->
  align && since_of from = false ->
  nth_error (spec_intervals dur from to a n) i = Some (s, e) ->
  match d_q dur with
  | QDays => True
  | QWeeks => weekday s = sow
  | QMonths => exists y m, civil_from_days s = (y, m, 1)
  | QQuarters => exists y m, civil_from_days s = (y, m, 1) /\ (m = 1 \/ m = 4 \/ m = 7 \/ m = 10)
  | QYears => exists y, civil_from_days s = (y, 1, 1)
  end \/ (i = 0%nat /\ from = Some s /\ a < s).
Proof. exact spec_alignment. Qed.
Print Assumptions alignment.

(* with --align-intervals and a `from`, s_0 = from *)
Theorem align_intervals_anchors_at_from : forall sow dur f to a n,
  dur_ok dur -> is_anchor sow true dur (Some f) to f a -> past to f = false ->
  a = f /\ exists e, nth_error (spec_intervals dur (Some f) to a (S n)) 0 = Some (f, e).
Proof. exact anchored_at_from. Qed.
Print Assumptions align_intervals_anchors_at_from.

(* the transcribed state machine (stabilize, then operator++ repeatedly) visits exactly the
   specification sequence; `date` is `from` when the expression has one, else the first posting *)
Theorem model_walk_is_spec : forall sow align dur from to date fuel n,
  dur_ok dur -> 0 <= sow < 7 ->
  (forall f, from = Some f -> date = f) -> past to date = false ->
  (Z.to_nat (date - initial_start sow align (init dur from to) date) < fuel)%nat ->
  exists st a, stabilize fuel sow (init dur from to) (Some date) align = Ok st /\
               is_anchor sow align dur from to date a /\
               walk (S n) st = spec_intervals dur from to a (S n).
Proof. exact walk_is_spec'. Qed.
Print Assumptions model_walk_is_spec.

(* the catch-up loop of stabilize terminates: 600 steps of fuel are enough for 1-12 units *)
Theorem stabilize_fuel_bound : forall sow align dur from to date,
  dur_ok dur -> 0 <= sow < 7 -> d_n dur <= 12 ->
  date - initial_start sow align (init dur from to) date < 600.
Proof. exact initial_start_near. Qed.
Print Assumptions stabilize_fuel_bound.

(* flush: the groups are the postings in order, cut into runs; every posting sits in the group
   whose interval contains its date; every group's interval is one of the specification's *)
Theorem every_posting_in_its_interval : forall sow align empty dur from to posts fuel rows date,
  dur_ok dur -> 0 <= sow < 7 ->
  (forall f t, from = Some f -> to = Some t -> f < t) ->
  date_sorted posts ->
  Forall (fun p => (forall f, from = Some f -> f <= p_date p) /\ past to (p_date p) = false) posts ->
  first_date from posts = Some date ->
  (Z.to_nat (date - initial_start sow align (init dur from to) date) < fuel)%nat ->
  flush_posts fuel sow align empty (init dur from to) posts = Ok rows ->
  concat (map r_posts rows) = posts /\
  Forall (fun r => exists s e, r_start r = Some s /\ r_eod r = Some e /\
                               forall p, In p (r_posts r) -> s <= p_date p < e) rows /\
  exists k a, a = iter_dur dur k (initial_start sow align (init dur from to) date) /\
              a <= date < add_dur dur a /\
              Forall (fun r => exists x y n, r_start r = Some x /\ r_eod r = Some y /\
                                             In (x, y) (spec_intervals dur from to a n)) rows.
Proof. exact flush_posts_spec. Qed.
Print Assumptions every_posting_in_its_interval.

(* ... so the interval subtotals add up to the total of the postings within the bounds *)
Theorem subtotals_sum_to_total : forall sow align empty dur from to posts fuel rows date,
  dur_ok dur -> 0 <= sow < 7 ->
  (forall f t, from = Some f -> to = Some t -> f < t) ->
  date_sorted posts ->
  Forall (fun p => (forall f, from = Some f -> f <= p_date p) /\ past to (p_date p) = false) posts ->
  first_date from posts = Some date ->
  (Z.to_nat (date - initial_start sow align (init dur from to) date) < fuel)%nat ->
  flush_posts fuel sow align empty (init dur from to) posts = Ok rows ->
  (fold_right (fun r acc => qsum (r_posts r) + acc) 0 rows == qsum posts)%Q.
Proof. exact flush_sum. Qed.
Print Assumptions subtotals_sum_to_total.

(* flush terminates normally: fuel covering the postings and the days up to the last one suffices
   (each step takes a posting or moves the window at least one day forward) *)
Theorem flush_terminates : forall sow align empty dur from to posts fuel date hi,
  dur_ok dur -> 0 <= sow < 7 ->
  (forall f t, from = Some f -> to = Some t -> f < t) ->
  date_sorted posts ->
  Forall (fun p => (forall f, from = Some f -> f <= p_date p) /\ past to (p_date p) = false /\ p_date p <= hi) posts ->
  first_date from posts = Some date ->
  (Z.to_nat (date - initial_start sow align (init dur from to) date) < fuel)%nat ->
  (length posts + Z.to_nat (hi - initial_start sow align (init dur from to) date) < fuel)%nat ->
  exists rows, flush_posts fuel sow align empty (init dur from to) posts = Ok rows.
Proof. exact flush_posts_total. Qed.
Print Assumptions flush_terminates.

(* ---- bounds written in the user's --input-date-format ------------------------------------------- *)
(* the two places of temporal_io_t that derive "has year / month / day" from a format (the constructor,
   used for the reader --input-date-format creates, and set_format) recognise the same directives;
   both lists are re-read from src/times.cc on every run (Gen/PeriodSources.v) *)
Theorem reader_trait_sites_agree : src_reader_traits_ctor = src_reader_traits_set_format.
Proof. exact reader_trait_sites_agree_lemma. Qed.
Print Assumptions reader_trait_sites_agree.

(* a from/to/since/until/in date written in a format that has a year (%Y %y %F), a month (%m, a month
   name %b %B, %F) and a day (%d %F) reaches the interval object as the date the text names - so all
   theorems above, stated for bounds given as dates, apply to bounds given as text in such a format.
   (bytes: 37 = %, 121 = y, 70 = F, 109 = m, 98 = b, 100 = d; directives match case-insensitively) *)
Theorem named_bound_is_the_bound_used : forall fmt cur_year z,
  (icontains fmt [37; 121] = true \/ icontains fmt [37; 70] = true) ->
  (icontains fmt [37; 109] = true \/ icontains fmt [37; 98] = true \/ icontains fmt [37; 70] = true) ->
  (icontains fmt [37; 100] = true \/ icontains fmt [37; 70] = true) ->
  bound_of_text fmt cur_year z = z.
Proof. exact bound_of_text_named. Qed.
Print Assumptions named_bound_is_the_bound_used.

(* ---- --group-by ------------------------------------------------------------------------------------ *)
(* when interval_posts::clear() empties all_posts (Gen/PeriodSources.v, read from src/filters.h), the
   groups of --group-by are reported independently: each group's report is flush on its own postings *)
Theorem group_reports_independent : forall fuel sow align empty st groups,
  src_interval_clear_resets_all_posts = true ->
  group_by_report fuel sow align empty st groups =
  map (fun g => flush_posts fuel sow align empty st (sort_posts [] g)) groups.
Proof. exact group_reports_independent_lemma. Qed.
Print Assumptions group_reports_independent.

(* ... so each group's rows hold exactly that group's postings, each in the interval containing its
   date, and the group's period subtotals add up to the group's own total *)
Theorem group_subtotals_are_the_groups_postings : forall sow align empty dur from to groups fuel i g rows date,
  src_interval_clear_resets_all_posts = true ->
  dur_ok dur -> 0 <= sow < 7 ->
  (forall f t, from = Some f -> to = Some t -> f < t) ->
  nth_error groups i = Some g ->
  nth_error (group_by_report fuel sow align empty (init dur from to) groups) i = Some (Ok rows) ->
  Forall (fun p => (forall f, from = Some f -> f <= p_date p) /\ past to (p_date p) = false) g ->
  first_date from (sort_posts [] g) = Some date ->
  (Z.to_nat (date - initial_start sow align (init dur from to) date) < fuel)%nat ->
  Permutation (concat (map r_posts rows)) g /\
  Forall (fun r => exists s e, r_start r = Some s /\ r_eod r = Some e /\
                               forall p, In p (r_posts r) -> s <= p_date p < e) rows /\
  (fold_right (fun r acc => qsum (r_posts r) + acc) 0 rows == qsum g)%Q.
Proof. exact group_subtotals_lemma. Qed.
Print Assumptions group_subtotals_are_the_groups_postings.

(* F125: while clear() leaves all_posts alone, the second group of
   `reg -p monthly --group-by payee` on  2021/01/05 alice 1 / 2021/01/20 bob 2  reports 3, not 2 *)
Theorem group_by_partition_refuted :
  src_interval_clear_resets_all_posts = false ->
  exists groups,
    map (fun r => match r with Ok rows => map (fun w => Qred (qsum (r_posts w))) rows | Err _ => [] end)
        (group_by_report 100 0 false false (init (mkDur QMonths 1) None None) groups)
    = [[1%Q]; [3%Q]] /\
    groups = [[mkPost 18632 1]; [mkPost 18647 2]].
Proof. exact group_by_leak_lemma. Qed.
Print Assumptions group_by_partition_refuted.

(* ---- the period EXPRESSION: what the written forms mean (Model/PeriodExpr.v) ------------------------ *)
(* The keyword table of date_parser_t::lexer_t::next_token and the token -> duration switches of
   date_parser_t::parse are re-read from src/times.cc on every run (Gen/PeriodWords.v); the theorems
   below hold only while that table says what the property text says.
     parse_words fmt cy ws     lexer + parser on the blank-separated words of the expression
     text_named_forms ...      the vocabulary of the property text (Model/PeriodExpr.v, written by hand)
     dur_toks ts = Some d      ts is one duration clause (named form, every N units, every unit)
     init d from to            the interval object all theorems above are about *)

(* daily, weekly, biweekly, monthly, bimonthly, quarterly, yearly - in any letter case - are 1 day,
   1 week, 2 weeks, 1 month, 2 months, 1 quarter, 1 year *)
Theorem named_forms_denote : forall w q n fmt cy,
  In (map lower_byte w, (q, n)) text_named_forms ->
  parse_words fmt cy [WWord w] = Ok (init (mkDur q n) None None).
Proof. exact named_forms_lemma. Qed.
Print Assumptions named_forms_denote.

(* `every N days/weeks/months/quarters/years` is N units of that quantum, for every N the lexer's
   unsigned short holds *)
Theorem every_n_units_denote : forall e w n q fmt cy,
  map lower_byte e = w_every -> 1 <= n <= 65535 -> In (map lower_byte w, q) text_unit_plurals ->
  parse_words fmt cy [WWord e; WInt n; WWord w] = Ok (init (mkDur q n) None None).
Proof. exact every_n_lemma. Qed.
Print Assumptions every_n_units_denote.

Theorem every_unit_denotes : forall e w q fmt cy,
  map lower_byte e = w_every -> In (map lower_byte w, q) text_unit_singulars ->
  parse_words fmt cy [WWord e; WWord w] = Ok (init (mkDur q 1) None None).
Proof. exact every_unit_lemma. Qed.
Print Assumptions every_unit_denotes.

(* dur_ok is never violated by an accepted expression: `every 0 <anything>` is an error *)
Theorem every_zero_rejected : forall e w fmt cy,
  map lower_byte e = w_every -> exists err, parse_words fmt cy [WWord e; WInt 0; w] = Err err.
Proof. exact every_zero_lemma. Qed.
Print Assumptions every_zero_rejected.

(* from/since, to/until, in, every: recognised in any letter case *)
Theorem keywords_any_case : forall w,
  (map lower_byte w = w_from \/ map lower_byte w = w_since -> lex_word w = KTok T_SINCE) /\
  (map lower_byte w = w_to \/ map lower_byte w = w_until -> lex_word w = KTok T_UNTIL) /\
  (map lower_byte w = w_in -> lex_word w = KTok T_IN) /\
  (map lower_byte w = w_every -> lex_word w = KTok T_EVERY).
Proof. exact keywords_lemma. Qed.
Print Assumptions keywords_any_case.

(* an expression made of duration clauses, `from D` and `to D` clauses - any number, any order - is
   read clause by clause (a later duration replaces an earlier one, a second from or to is an error) *)
Theorem expression_read_clause_by_clause : forall fmt cy cs st,
  (forall ts, In (CDur ts) cs -> dur_toks ts <> None) ->
  parse_toks fmt cy (concat (map clause_toks cs)) st = apply_clauses fmt cy cs st.
Proof. exact parse_clauses_ok. Qed.
Print Assumptions expression_read_clause_by_clause.

(* ... so a duration, a from and a to mean the same in all six orders: the interval object is
   init d from to, with the bounds the date words name (named_bound_is_the_bound_used) *)
Theorem bounded_expression_any_order : forall fmt cy dts d f t cs,
  dur_toks dts = Some d -> In cs (perms3 (CDur dts) (CFrom f) (CTo t)) ->
  (do st <- parse_toks fmt cy (concat (map clause_toks cs)) ps_empty; period_of st)
  = Ok (init d (Some (bound_of_text fmt cy f)) (Some (bound_of_text fmt cy t))).
Proof. exact any_order_3. Qed.
Print Assumptions bounded_expression_any_order.

Theorem from_expression_any_order : forall fmt cy dts d f cs,
  dur_toks dts = Some d -> In cs [[CDur dts; CFrom f]; [CFrom f; CDur dts]] ->
  (do st <- parse_toks fmt cy (concat (map clause_toks cs)) ps_empty; period_of st)
  = Ok (init d (Some (bound_of_text fmt cy f)) None).
Proof. exact any_order_from. Qed.
Print Assumptions from_expression_any_order.

(* only a to/until: since_specified stays false (init d None ..), so --align-intervals does not anchor *)
Theorem to_expression_any_order : forall fmt cy dts d t cs,
  dur_toks dts = Some d -> In cs [[CDur dts; CTo t]; [CTo t; CDur dts]] ->
  (do st <- parse_toks fmt cy (concat (map clause_toks cs)) ps_empty; period_of st)
  = Ok (init d None (Some (bound_of_text fmt cy t))).
Proof. exact any_order_to. Qed.
Print Assumptions to_expression_any_order.

(* `in D` or a bare D, before or after the duration: the range is [begin, end) of what the date word
   names (a day; a month or a year when the format carries no day / no month) and no since is recorded *)
Theorem in_date_is_the_named_range : forall fmt cy dts d z b e,
  dur_toks dts = Some d -> incl_of fmt cy z = Ok (b, e) ->
  forall ts, In ts [dts ++ [KTok T_IN; KDate z]; dts ++ [KDate z]; [KTok T_IN; KDate z] ++ dts; [KDate z] ++ dts] ->
  (do st <- parse_toks fmt cy ts ps_empty; period_of st)
  = Ok (mkIval (Some b) (Some e) None None false None d None false).
Proof. exact in_date_lemma. Qed.
Print Assumptions in_date_is_the_named_range.

(* --start-of-week TEXT: an accepted text names a day 0..6 - the `0 <= sow < 7` of the theorems above -
   and the letter case of the text does not matter (Monday, MON and monday configure the same day) *)
Theorem week_start_text_names_a_day : forall s d, week_start_of_text s = Ok d -> 0 <= d < 7.
Proof. exact week_start_range. Qed.
Print Assumptions week_start_text_names_a_day.

Theorem week_start_text_any_case : forall s s', map lower_byte s = map lower_byte s' ->
  week_start_of_text s = week_start_of_text s'.
Proof. exact week_start_case_insensitive. Qed.
Print Assumptions week_start_text_any_case.

(* Monday = 1, SAT = 6, 0 = Sunday; lundi and 7 are refused *)
Example week_start_example :
  week_start_of_text [77; 111; 110; 100; 97; 121] = Ok 1 /\ week_start_of_text [83; 65; 84] = Ok 6 /\
  week_start_of_text [48] = Ok 0 /\ week_start_of_text [108; 117; 110; 100; 105] = Err EOther /\
  week_start_of_text [55] = Err EOther.
Proof. vm_compute. repeat split; reflexivity. Qed.

(* the hypotheses are satisfiable, from the text: `to 2020/03/03 Every 2 Weeks from 2020/01/08`
   (bytes of the text; the two date words name days 18324 and 18269) *)
Example expression_example :
  let d := days_from_civil in
  parse_text [37; 89; 47; 37; 109; 47; 37; 100] 2021
    [116; 111; 32; 50; 48; 50; 48; 47; 48; 51; 47; 48; 51; 32; 69; 118; 101; 114; 121; 32; 50; 32; 87; 101; 101;
     107; 115; 32; 102; 114; 111; 109; 32; 50; 48; 50; 48; 47; 48; 49; 47; 48; 56] [d 2020 3 3; d 2020 1 8]
  = Ok (init (mkDur QWeeks 2) (Some (d 2020 1 8)) (Some (d 2020 3 3))) /\
  dur_toks [KTok T_EVERY; KInt 2; KTok T_WEEKS] = Some (mkDur QWeeks 2) /\
  dur_toks [KTok T_BIMONTHLY] = Some (mkDur QMonths 2) /\
  incl_of [37; 89; 47; 37; 109; 47; 37; 100] 2021 (d 2020 3 5) = Ok (d 2020 3 5, d 2020 3 6) /\
  incl_of [37; 89; 47; 37; 109] 2021 (d 2020 3 5) = Ok (d 2020 3 1, d 2020 4 1).
Proof. vm_compute. repeat split; reflexivity. Qed.

(* the hypotheses are satisfiable and the functions compute what ledger prints:
   `every 2 weeks from 2020/01/08 to 2020/03/03` (Sunday weeks): 01/08-01/11 (clipped), then
   14-day Sunday-aligned periods, the last one cut at 03/02 *)
Example biweekly_example :
  let d := days_from_civil in
  match stabilize 100 0 (init (mkDur QWeeks 2) (Some (d 2020 1 8)) (Some (d 2020 3 3))) (Some (d 2020 1 8)) false with
  | Ok st => walk 20 st
  | Err _ => []
  end = [(d 2020 1 8, d 2020 1 12); (d 2020 1 12, d 2020 1 26); (d 2020 1 26, d 2020 2 9);
         (d 2020 2 9, d 2020 2 23); (d 2020 2 23, d 2020 3 3)].
Proof. vm_compute. reflexivity. Qed.

(* month ends: Jan 31 + 1 month = Feb 29 (2020), Feb 29 + 1 month = Mar 31, Mar 31 + 1 month = Apr 30 *)
Example month_end_example :
  let d := days_from_civil in
  add_months (d 2020 1 31) 1 = d 2020 2 29 /\ add_months (d 2020 2 29) 1 = d 2020 3 31 /\
  add_months (d 2020 3 31) 1 = d 2020 4 30 /\ add_months (d 2020 1 30) 1 = d 2020 2 29 /\
  add_months (d 2019 1 30) 1 = d 2019 2 28 /\ add_years (d 2020 2 29) 1 = d 2021 2 28.
Proof. vm_compute. repeat split; reflexivity. Qed.

Example flush_example :
  let d := days_from_civil in
  match flush_posts 1000 1 false false (init (mkDur QMonths 1) None None)
          [mkPost (d 2020 1 31) 1; mkPost (d 2020 2 1) 2; mkPost (d 2020 2 29) 4; mkPost (d 2020 4 1) 8] with
  | Ok rows => map (fun r => (r_start r, r_eod r, Qred (qsum (r_posts r)))) rows
  | Err _ => []
  end = [(Some (d 2020 1 1), Some (d 2020 2 1), 1%Q); (Some (d 2020 2 1), Some (d 2020 3 1), 6%Q);
         (Some (d 2020 4 1), Some (d 2020 5 1), 8%Q)].
Proof. vm_compute. reflexivity. Qed.
