(* C05 - balance, register and account-tree totals agree.
   Property theorems only; proofs are in Proofs/TotalsProofs.v.
   ps  : the postings of the journal in file order (as xact_t::finalize leaves them)
   o   : the report options; `sel o` is the limit predicate they stand for, `amt o` the amount
         expression (amount, or rounded(cost) under -B) - every statement holds for all o, i.e.
         for every combination of --real, --cleared/--uncleared/--pending, a query term, -B,
         the lot options, --flat, --depth and --empty
   ord : the unspecified hash-table insertion order of balance_t (all statements hold for both)
   den v c : the exact quantity the value v holds in commodity c (Proofs/AmountProofs.v)
   sel_sum o ps c P : the per-commodity sum of `amt o` over the postings selected by `sel o`
         that satisfy P - the specification every total is compared with. *)
From LedgerV Require Import Base.Prelude Base.Round Model.Amount Proofs.AmountProofs
                            Model.Totals Proofs.TotalsProofs
                            Gen.DeferredPosts Model.Deferred Proofs.DeferredProofs.
Local Open Scope Q_scope.

(* ---- the reports are total functions: no option set makes account_t::total, the register or
        the balance report throw on these values ---- *)
Theorem total_never_fails : forall ord o ps a, exists v, total_of ord o ps a = Ok v.
Proof. exact total_of_ok. Qed.
Print Assumptions total_never_fails.

Theorem register_never_fails : forall ord o ps, exists rows, reg_rows ord o ps = Ok rows.
Proof. exact reg_rows_ok. Qed.
Print Assumptions register_never_fails.

Theorem balance_never_fails : forall ord cp o ps, exists rows, bal_rows ord cp o ps = Ok rows.
Proof. exact bal_rows_ok. Qed.
Print Assumptions balance_never_fails.

(* ---- the total of an account is the exact sum over the selected postings of its sub-tree ---- *)
Theorem total_is_sum_of_subtree : forall ord o ps a v c,
  total_of ord o ps a = Ok v ->
  den v c == sel_sum o ps c (fun p => is_prefix a (p_acct p)).
Proof. exact total_of_den. Qed.
Print Assumptions total_is_sum_of_subtree.

Theorem own_amount_is_sum_of_own_postings : forall ord o ps a v c,
  own_of ord o ps a = Ok v ->
  den v c == sel_sum o ps c (fun p => path_eqb (p_acct p) a).
Proof. exact own_of_den. Qed.
Print Assumptions own_amount_is_sum_of_own_postings.

(* the same for any amount expression f, any list of visited postings sp and any fuel that
   bounds the depth of the tree below a: the statement is parametric in sel and amt *)
Theorem total_is_sum_of_subtree_parametric :
  forall ord (f : posting -> amount) all sp c,
  (forall p, In p sp -> In (p_acct p) all) ->
  forall fuel a v,
  (forall p, In p sp -> is_prefix a (p_acct p) = true ->
             (length (p_acct p) <= length a + fuel)%nat) ->
  total fuel ord f all sp a = Ok v ->
  den v c == sumq (fun p => at_comm (f p) c) (filter (fun p => is_prefix a (p_acct p)) sp).
Proof. exact total_den. Qed.
Print Assumptions total_is_sum_of_subtree_parametric.

(* ---- every parent's total equals its own postings plus its children's totals ---- *)
Theorem parent_total : forall ord o ps a v s ts c,
  total_of ord o ps a = Ok v ->
  own_of ord o ps a = Ok s ->
  map_res (total_of ord o ps) (children (map p_acct ps) a) = Ok ts ->
  den v c == den s c + sumq (fun t => den t c) ts.
Proof. exact parent_total_of. Qed.
Print Assumptions parent_total.

(* the step account_t::total() performs (children in map order, then the own amount) *)
Theorem parent_total_step : forall ord f all sp n a v c,
  total (S n) ord f all sp a = Ok v ->
  exists s ts, own ord f sp a = Ok s /\
               map_res (total n ord f all sp) (children all a) = Ok ts /\
               den v c == den s c + sumq (fun t => den t c) ts.
Proof. exact total_step. Qed.
Print Assumptions parent_total_step.

(* ---- the register's running total on row n+1 is the sum of the amounts of rows 1..n+1 ---- *)
Theorem running_total_prefix : forall ord o ps rows c,
  reg_rows ord o ps = Ok rows ->
  forall n r, nth_error rows n = Some r ->
  den (r_total r) c == sumq (fun r' => den (r_amt r') c) (firstn (S n) rows).
Proof. exact reg_running_prefix. Qed.
Print Assumptions running_total_prefix.

(* ---- and its last value equals the balance report's grand total ---- *)
Theorem grand_total_is_register_sum : forall ord ord' o ps g rows c,
  total_of ord o ps [] = Ok g ->
  reg_rows ord' o ps = Ok rows ->
  den g c == sumq (fun r => den (r_amt r) c) rows.
Proof. exact grand_is_reg_sum. Qed.
Print Assumptions grand_total_is_register_sum.

Theorem last_running_total_is_grand_total : forall ord ord' o ps g rows r c,
  total_of ord o ps [] = Ok g ->
  reg_rows ord' o ps = Ok rows ->
  nth_error rows (length rows - 1) = Some r ->
  den (r_total r) c == den g c.
Proof. exact last_running_is_grand. Qed.
Print Assumptions last_running_total_is_grand_total.

(* ---- the balance of an account = the sum of the register rows of it and its sub-accounts,
        for every option set ---- *)
Theorem bal_eq_reg : forall ord ord' o ps a v rows c,
  total_of ord o ps a = Ok v ->
  reg_rows ord' o ps = Ok rows ->
  den v c == sumq (fun r => den (r_amt r) c) (filter (fun r => is_prefix a (r_acct r)) rows).
Proof. exact bal_eq_reg_gen. Qed.
Print Assumptions bal_eq_reg.

Theorem own_eq_reg : forall ord ord' o ps a v rows c,
  own_of ord o ps a = Ok v ->
  reg_rows ord' o ps = Ok rows ->
  den v c == sumq (fun r => den (r_amt r) c) (filter (fun r => path_eqb (r_acct r) a) rows).
Proof. exact own_eq_reg_gen. Qed.
Print Assumptions own_eq_reg.

(* ---- --flat / --depth / --empty choose which accounts are rows; they change no total and not
        the grand total: every row of the balance report carries brow_of of its account, and
        brow_of does not look at these options ---- *)
Theorem balance_rows_are_account_totals : forall ord cp o ps rows,
  bal_rows ord cp o ps = Ok rows ->
  Forall (fun b => brow_of ord o ps (b_acct b) = Ok b /\ disp_pred o (b_acct b) = true) rows.
Proof. exact bal_rows_spec. Qed.
Print Assumptions balance_rows_are_account_totals.

Theorem depth_flat_invariance : forall ord o o' ps a,
  same_filters o o' -> brow_of ord o ps a = brow_of ord o' ps a.
Proof. exact brow_of_same_filters. Qed.
Print Assumptions depth_flat_invariance.

Theorem balance_row_total_is_subtree_sum : forall ord o ps a b c,
  brow_of ord o ps a = Ok b ->
  den (b_total b) c == sel_sum o ps c (fun p => is_prefix a (p_acct p)).
Proof. exact brow_total_den. Qed.
Print Assumptions balance_row_total_is_subtree_sum.

(* ---- reg --depth n (collapse_posts): the balance of an account at depth <= n is the sum of
        the collapsed per-transaction rows of it and its sub-accounts; no row is deeper than n ---- *)
Theorem bal_eq_reg_depth : forall ord ord' o ps n a v gs c,
  (Z.of_nat (length a) <= n)%Z ->
  total_of ord o ps a = Ok v ->
  collapsed ord' n o ps = Ok gs ->
  den v c == sumq (fun g => mapq c (is_prefix a) g) gs.
Proof. exact bal_eq_reg_depth_gen. Qed.
Print Assumptions bal_eq_reg_depth.

(* the same for the rows in the order report_subtotal hands them on (by account name) *)
Theorem bal_eq_reg_depth_ordered_rows : forall ord ord' o ps n a v gs c,
  (Z.of_nat (length a) <= n)%Z ->
  total_of ord o ps a = Ok v ->
  collapsed_rows ord' n o ps = Ok gs ->
  den v c == sumq (fun g => mapq c (is_prefix a) g) gs.
Proof. exact bal_eq_reg_depth_rows. Qed.
Print Assumptions bal_eq_reg_depth_ordered_rows.

Theorem collapsed_rows_depth_bounded : forall ord n o, (0 <= n)%Z -> forall sp m m',
  collapse_xact ord n o sp m = Ok m' ->
  (forall k, In k (map fst m) -> (Z.of_nat (length k) <= n)%Z) ->
  forall k, In k (map fst m') -> (Z.of_nat (length k) <= n)%Z.
Proof. exact collapse_xact_depth. Qed.
Print Assumptions collapsed_rows_depth_bounded.

(* ---- the lazy account_t::amount() (last_post iterator + CONSIDERED flags): a call returns the
        old total plus every visited posting not yet considered, provided none lies before
        last_post, and leaves nothing unconsidered - any interleaving of appending/visiting
        postings in file order and calling amount() yields the plain sum; in particular the two
        calls a balance row makes return `own` ---- *)
Theorem account_amount_incremental_eq : forall ord sd posts sd' posts' c,
  (forall x, In x (firstn (match sd_last sd with Some i => i | None => O end) posts) ->
             lp_fresh x = false) ->
  amount_call ord sd posts = Ok (sd', posts') ->
  den (sd_total sd') c == den (sd_total sd) c + sumq (lp_q c) posts /\
  (forall x, In x posts' -> lp_fresh x = false) /\
  length posts' = length posts.
Proof. exact amount_call_den. Qed.
Print Assumptions account_amount_incremental_eq.

Theorem account_amount_called_twice_is_own : forall ord o ps a,
  (forall p, In p ps -> p_temp p = false) ->
  own_lazy_twice ord o ps a = own_of ord o ps a.
Proof. exact own_lazy_eq. Qed.
Print Assumptions account_amount_called_twice_is_own.

(* ---- the tree-form balance report reads back as a tree: partial_name and get_depth_spacer
        (model: partial_of / spacer_of over the TO_DISPLAY marks mark_accounts leaves) are such
        that a reader who keeps the last name seen at each indentation level and appends a
        line's partial name to the name one level up recovers, line by line, exactly the
        accounts of the balance rows. ---- *)
Theorem layout_reads_back : forall ord cp o ps rows,
  o_flat o = false ->
  bal_layout ord cp o ps = Ok rows ->
  read_tree [] (map (fun l => (l_spacer l, l_partial l)) rows) = map l_acct rows.
Proof. exact layout_reads_back_uncond. Qed.
Print Assumptions layout_reads_back.

(* the invariant of mark_accounts behind it: in tree form every displayed level (an ancestor
   with more than one displayed child branch, or marked TO_DISPLAY) is itself a printed line
   that passes the display predicate *)
Theorem displayed_levels_are_printed : forall ord cp o ps,
  o_flat o = false -> layout_ok ord cp o ps = Ok true.
Proof. exact layout_ok_holds. Qed.
Print Assumptions displayed_levels_are_printed.

Theorem layout_flat_reads_back : forall ord cp o ps rows,
  o_flat o = true ->
  bal_layout ord cp o ps = Ok rows ->
  read_tree [] (map (fun l => (l_spacer l, l_partial l)) rows) = map l_acct rows.
Proof. exact layout_flat_reads_back_gen. Qed.
Print Assumptions layout_flat_reads_back.

Theorem layout_lines_are_balance_rows : forall ord cp o ps rows lrows,
  bal_rows ord cp o ps = Ok rows -> bal_layout ord cp o ps = Ok lrows ->
  map l_acct lrows = map b_acct rows.
Proof. exact bal_layout_accounts. Qed.
Print Assumptions layout_lines_are_balance_rows.

(* the same for any level test cnt and any set of printed lines in which every displayed level
   is printed: the statement about the reader does not depend on how the marks were computed *)
Theorem tree_reads_back_parametric : forall cnt shown all fuel,
  shown [] = false ->
  (forall y, In y (pre all fuel []) -> y <> [] -> cnt y = true -> shown y = true) ->
  read_tree [] (rows_of_list cnt shown (pre all fuel [])) = filter shown (pre all fuel []).
Proof. intros cnt shown all fuel H. exact (read_tree_pre cnt shown all H fuel). Qed.
Print Assumptions tree_reads_back_parametric.

(* ---- directives: the posting finalize() infers for a default account (bucket X / A X /
        account X + default) is an ordinary posting; and the wipe after the journal is read
        (xact_base_t::clear_xdata, its test regenerated from the source into Gen/ClearXdata.v)
        leaves no posting of the journal VISITED, so a report counts a posting in
        account_t::amount() iff its own filter selected it ---- *)
Theorem clear_xdata_wipes_every_journal_posting : forall p,
  p_temp p = false -> survives_clear p = false.
Proof. exact survives_clear_journal. Qed.
Print Assumptions clear_xdata_wipes_every_journal_posting.

Theorem visited_iff_selected : forall o p,
  p_temp p = false -> visited_at_report o p = sel o p.
Proof. exact visited_at_report_journal. Qed.
Print Assumptions visited_iff_selected.

Theorem inferred_posting_is_ordinary_for_totals : forall ord o ps a,
  total_of ord o (map as_written ps) a = total_of ord o ps a.
Proof. exact total_of_as_written. Qed.
Print Assumptions inferred_posting_is_ordinary_for_totals.

Theorem inferred_posting_is_ordinary_for_register : forall ord o ps,
  reg_rows ord o (map as_written ps) = reg_rows ord o ps.
Proof. exact reg_rows_as_written. Qed.
Print Assumptions inferred_posting_is_ordinary_for_register.

(* ---- deferred postings (`<Account>`, POST_DEFERRED; Model/Deferred.v).  js : the journal in file
        order, each posting with its deferred flag and the id of its transaction (UUID tag, else the
        sequence number).  The register walks js; the balance report sums account->posts, which a
        deferred posting reaches through account_t::add_deferred_post / apply_deferred_posts.  The
        shape of those functions is regenerated from the source (Gen/DeferredPosts.v) ---- *)
Theorem deferred_source_shape :
  src_deferred_recognised = true /\
  src_deferred_new_id_keeps_post = true /\
  src_deferred_known_id_appends = true /\
  src_deferred_apply_adds_every_post = true /\
  src_finalize_defers_by_xact_id = true.
Proof. exact deferred_source_facts. Qed.
Print Assumptions deferred_source_shape.

(* account->posts of a holds exactly the postings of the journal to a, each once: for any ids,
   any number of deferred postings of one transaction to one account, any interleaving *)
Theorem deferred_postings_all_reach_their_account : forall a js,
  Permutation.Permutation (acct_final a js) (filter (to_acct a) js).
Proof. exact acct_final_perm. Qed.
Print Assumptions deferred_postings_all_reach_their_account.

Theorem accounts_hold_the_journal : forall js,
  Permutation.Permutation (account_view js) (map jp_post js).
Proof. exact account_view_perm. Qed.
Print Assumptions accounts_hold_the_journal.

Theorem deferred_balance_never_fails : forall ord o js a, exists v, bal_total_of ord o js a = Ok v.
Proof. exact bal_total_of_ok. Qed.
Print Assumptions deferred_balance_never_fails.

(* the balance over what reached the accounts = the register rows (file order) under the account *)
Theorem bal_eq_reg_deferred : forall ord ord' o js a v rows c,
  bal_total_of ord o js a = Ok v ->
  reg_rows_of ord' o js = Ok rows ->
  den v c == sumq (fun r => den (r_amt r) c) (filter (fun r => is_prefix a (r_acct r)) rows).
Proof. exact bal_eq_reg_deferred_gen. Qed.
Print Assumptions bal_eq_reg_deferred.

Theorem own_eq_reg_deferred : forall ord ord' o js a v rows c,
  own_of ord o (account_view js) a = Ok v ->
  reg_rows_of ord' o js = Ok rows ->
  den v c == sumq (fun r => den (r_amt r) c) (filter (fun r => path_eqb (r_acct r) a) rows).
Proof. exact own_deferred_gen. Qed.
Print Assumptions own_eq_reg_deferred.

Theorem last_running_total_is_grand_total_deferred : forall ord ord' o js g rows r c,
  bal_total_of ord o js [] = Ok g ->
  reg_rows_of ord' o js = Ok rows ->
  nth_error rows (length rows - 1) = Some r ->
  den (r_total r) c == den g c.
Proof. exact grand_deferred_gen. Qed.
Print Assumptions last_running_total_is_grand_total_deferred.

(* ---- lots: whatever lot details are kept, the displayed value has, for every base commodity s,
        the sum of all annotated variants of s in the exact value (showing lots refines a total
        but never changes its per-commodity sum) ---- *)
Theorem lots_refine : forall s ord o v d,
  display_value ord o v = Ok d ->
  pden_v (of_base s) d == pden_v (of_base s) v.
Proof. exact display_value_base. Qed.
Print Assumptions lots_refine.

Theorem strip_keeps_base_commodity : forall kp kd kt k,
  base_sym (strip_key kp kd kt k) = base_sym k.
Proof. exact strip_key_base. Qed.
Print Assumptions strip_keeps_base_commodity.

(* ---- the hypotheses are satisfiable: a two-level tree, two commodities, one lot ---- *)
Local Close Scope Q_scope.
Local Open Scope Z_scope.
Example ex_amt (n : Z) (c : str) : amount := mkAmt (inject_Z n) 0 false (Some c).
Example ex_opts : opts := mkOpts false SAny [] None None false false false false false None false.
Example ex_posts : list posting :=
  [ mkPost 0 [80] Uncleared Uncleared [[65]; [66]] false (ex_amt 10 [36]) None 20200101 false false;
    mkPost 0 [80] Uncleared Cleared   [[65]]       false (ex_amt 5 [88; 126; 49; 126; 126]) None 20200101 false false;
    mkPost 0 [80] Uncleared Uncleared [[67]]       false (ex_amt (-10) [36]) None 20200101 false false ].

Example ex_total_A :
  total_of true ex_opts ex_posts [[65]] =
  Ok (VBal [ex_amt 5 [88; 126; 49; 126; 126]; ex_amt 10 [36]]).
Proof. vm_compute. reflexivity. Qed.

Example ex_display_strips_lot :
  display_value true ex_opts (VAmt (ex_amt 5 [88; 126; 49; 126; 126])) = Ok (VAmt (ex_amt 5 [88])).
Proof. vm_compute. reflexivity. Qed.

Example ex_cleared_only :
  total_of true (mkOpts false SCleared [] None None false false false false false None false) ex_posts [] =
  Ok (VAmt (ex_amt 5 [88; 126; 49; 126; 126])).
Proof. vm_compute. reflexivity. Qed.

(* one transaction (id "5") defers two postings to the same account A:B; both are in account->posts *)
Example ex_two_deferred_same_account :
  let j k d := mkJpost (nth k ex_posts (mkPost 0 [] Uncleared Uncleared [] false (ex_amt 0 []) None 0 false false)) d [53] in
  map jp_post (acct_final [[65]; [66]] [j 0%nat true; j 1%nat false; j 0%nat true; j 2%nat true]) =
  [nth 0%nat ex_posts (mkPost 0 [] Uncleared Uncleared [] false (ex_amt 0 []) None 0 false false);
   nth 0%nat ex_posts (mkPost 0 [] Uncleared Uncleared [] false (ex_amt 0 []) None 0 false false)].
Proof. vm_compute. reflexivity. Qed.
