(* C01 - a transaction is accepted if and only if its postings balance.
   Property theorems only; proofs in Proofs/XactProofs.v.
   finalize  = the model of xact_base_t::finalize; scan_posts = its first loop (the balance of
   the postings that must balance, at cost); bsum ps c = the exact sum, in commodity c, of
   cost-or-amount over the postings that must balance; cp = the pool's display precision;
   ord = the unspecified hash-table insertion order.  wf_costs: no lot price, cost commodity
   differs from the amount's (exchange() then leaves the balance alone); two_entries: the
   balance has exactly two commodity entries (the implied-rate branch, stated separately). *)
From LedgerV Require Import Base.Prelude Base.Round Model.Amount Model.Xact
  Proofs.AmountProofs Proofs.XactProofs Proofs.GainLossProofs Proofs.VirtualProofs Gen.SourceGuards Model.PostLine Proofs.PostLineProofs Gen.StatusOfCount Proofs.ErrorsProofs Proofs.OnlyVirtualProofs.
From Coq Require Import Qabs.
Local Open Scope Q_scope.

(* the balance finalize tests is the exact per-commodity sum of cost-or-amount *)
Theorem balance_is_exact_sum : forall ord c ps i bal nul bal' nul',
  scan_posts ord ps i bal nul = Ok (bal', nul') -> den bal' c == den bal c + bsum ps c.
Proof. exact scan_posts_exact. Qed.
Print Assumptions balance_is_exact_sum.

(* acceptance is exactly the display-zero test on that balance *)
Theorem finalize_accepts_iff_displays_zero : forall ord cp ps bal,
  wf_costs ps -> ps <> [] -> all_have_amounts ps ->
  scan_posts ord ps 0 VVoid None = Ok (bal, None) -> two_entries bal = false ->
  finalize ord cp None ps = if v_is_zero cp bal then Ok (Accepted ps) else Err EUnbalanced.
Proof. exact finalize_no_null. Qed.
Print Assumptions finalize_accepts_iff_displays_zero.

(* an exactly balanced transaction is accepted, unchanged *)
Theorem exactly_balanced_accepted : forall ord cp ps bal,
  wf_costs ps -> ps <> [] -> all_have_amounts ps ->
  scan_posts ord ps 0 VVoid None = Ok (bal, None) -> two_entries bal = false ->
  (forall c, bsum ps c == 0) ->
  finalize ord cp None ps = Ok (Accepted ps).
Proof. exact exact_balance_accepted. Qed.
Print Assumptions exactly_balanced_accepted.

(* a transaction off by at least one whole unit in some commodity is rejected *)
Theorem whole_unit_off_rejected : forall ord cp ps bal c,
  (forall k, 0 <= cp k <= 230)%Z ->
  wf_costs ps -> ps <> [] -> all_have_amounts ps ->
  scan_posts ord ps 0 VVoid None = Ok (bal, None) -> two_entries bal = false ->
  1 <= Qabs (bsum ps c) ->
  finalize ord cp None ps = Err EUnbalanced.
Proof. exact whole_unit_rejected. Qed.
Print Assumptions whole_unit_off_rejected.

(* an accepted transaction's residual displays as zero and is below one unit in every commodity *)
Theorem accepted_residual_displays_zero : forall ord cp ps bal c,
  (forall k, 0 <= cp k <= 230)%Z ->
  wf_costs ps -> ps <> [] -> all_have_amounts ps ->
  scan_posts ord ps 0 VVoid None = Ok (bal, None) -> two_entries bal = false ->
  finalize ord cp None ps = Ok (Accepted ps) ->
  v_is_zero cp bal = true /\ Qabs (bsum ps c) < 1.
Proof. exact accepted_displays_zero. Qed.
Print Assumptions accepted_residual_displays_zero.

(* display zero of an amount shown at or below its commodity's precision is exact zero: with no
   costs involved, accepted means exactly balanced *)
Theorem display_zero_is_exact_without_excess_precision : forall cp a,
  match acomm a with Some c => (akeep a = true \/ aprec a <= cp c)%Z | None => True end ->
  is_zero cp a = true -> aq a == 0.
Proof. exact is_zero_exact. Qed.
Print Assumptions display_zero_is_exact_without_excess_precision.

(* the display-zero test never passes a whole unit *)
Theorem display_zero_below_one_unit : forall cp a,
  (forall c, 0 <= cp c <= 230)%Z -> is_zero cp a = true -> Qabs (aq a) < 1.
Proof. exact is_zero_lt_unit. Qed.
Print Assumptions display_zero_below_one_unit.

(* a journal all of whose transactions balance exactly has a zero grand total at cost *)
Theorem journal_total_zero : forall xs c,
  (forall x, In x xs -> bsum x c == 0) -> jsum xs c == 0.
Proof. exact journal_grand_total_zero. Qed.
Print Assumptions journal_total_zero.

(* the first loop never fails except for a second elided amount *)
Theorem scan_total : forall ord ps i bal nul,
  is_sum_value bal ->
  (match nul with Some _ => count_nulls ps = 0%nat | None => (count_nulls ps <= 1)%nat end) ->
  exists bal' nul', scan_posts ord ps i bal nul = Ok (bal', nul') /\ is_sum_value bal'.
Proof. exact scan_posts_total. Qed.
Print Assumptions scan_total.

(* THE TWO-COMMODITY RULE (xact.cc:220-283).  No elided amount, no written cost, a balance holding
   exactly two commodities x (the top posting's) and y: every balancing posting in x gets the cost
   |y/x| * amount (apply_rate with that rate), amounts are untouched, nothing is left in x and the
   remainder in y is  y + |y/x| * x ... *)
Theorem two_commodity_implied_rate : forall ord cp ps bal x y q cx cy ps' bal',
  acomm x = Some cx -> acomm y = Some cy -> comm_eqb (Some cx) (Some cy) = false ->
  amt_div cp y x = Ok q ->
  let rate := let r := amt_abs q in mkAmt (aq r) (aprec r) true (acomm r) in
  apply_rate ord cp rate (Some cx) ps bal = Ok (ps', bal') ->
  den bal (Some cx) == aq x -> den bal (Some cy) == aq y ->
  rated_sum (Some cx) ps (Some cx) == aq x ->
  map p_amt ps' = map p_amt ps /\
  den bal' (Some cx) == 0 /\
  den bal' (Some cy) == aq y + Qabs (aq y / aq x) * aq x.
Proof. exact two_commodity_rate. Qed.
Print Assumptions two_commodity_implied_rate.

(* ... which is zero exactly when the two commodity totals have opposite signs: a purchase
   `10 AAA / $-25` is a conversion, `10 AAA / $25` does not balance *)
Theorem implied_rate_balances_iff_opposite_signs : forall x y : Q,
  ~ x == 0 -> (y + Qabs (y / x) * x == 0 <-> (y == 0 \/ (0 < x /\ y < 0) \/ (x < 0 /\ 0 < y))).
Proof. exact rate_remainder_zero_iff. Qed.
Print Assumptions implied_rate_balances_iff_opposite_signs.

(* non-vacuity: a concrete three-posting transaction over two commodities with a cost meets
   the hypotheses of exactly_balanced_accepted (10 AAA @ $2.50, $-25.00) *)
Example hypotheses_satisfiable :
  let usd := Some [36%Z] in let aaa := Some [65; 65; 65]%Z in
  let p1 := mkPost [65%Z] PReal (Some (mkAmt 10 0 false aaa)) (Some (mkAmt 25 2 true usd)) None false false false in
  let p2 := mkPost [66%Z] PReal (Some (mkAmt (-25) 2 false usd)) None None false false false in
  exists bal, scan_posts false [p1; p2] 0 VVoid None = Ok (bal, None) /\ two_entries bal = false /\
              finalize false (fun _ => 2%Z) None [p1; p2] = Ok (Accepted [p1; p2]).
Proof. cbn zeta. eexists. split; [vm_compute; reflexivity|]. split; vm_compute; reflexivity. Qed.

(* outside C01's quantifier, recorded so that it is not rediscovered as an alarm: a transaction
   whose residual is below half a display unit is accepted although it does not balance exactly
   (1 AAA @ $3.333 against $-3.33 with $ displayed at two decimals) *)
Theorem accepted_need_not_balance_exactly_refuted :
  exists cp ps c, finalize false cp None ps = Ok (Accepted ps) /\ ~ bsum ps c == 0.
Proof.
  exists (fun _ => 2%Z).
  exists [mkPost [65%Z] PReal (Some (mkAmt 1 0 false (Some [65; 65; 65]%Z)))
                 (Some (mkAmt (3333 # 1000) 3 true (Some [36%Z]))) None false false false;
          mkPost [66%Z] PReal (Some (mkAmt (-333 # 100) 2 false (Some [36%Z]))) None None false false false].
  exists (Some [36%Z]). split; [vm_compute; reflexivity|]. vm_compute. discriminate.
Qed.
Print Assumptions accepted_need_not_balance_exactly_refuted.

(* "(virtual) postings need not balance": the balance a transaction is judged on - the scan over the postings and the
   gain/loss pass - is the same with or without the postings that do not have to balance; whether an elided amount was
   met is decided by the balancing postings alone *)
Theorem nonbalancing_postings_play_no_part_in_the_scan : forall ord ps i i' bal nul nul' b n,
  same_presence nul nul' ->
  scan_posts ord ps i bal nul = Ok (b, n) ->
  exists n', scan_posts ord (filter must_balance ps) i' bal nul' = Ok (b, n') /\ same_presence n n'.
Proof. exact scan_posts_skips_nonbalancing. Qed.
Print Assumptions nonbalancing_postings_play_no_part_in_the_scan.

Theorem nonbalancing_postings_play_no_part_in_gain_loss : forall ord cp ps bal ps' bal',
  exchange_posts ord cp ps bal = Ok (ps', bal') ->
  exists ps'', exchange_posts ord cp (filter must_balance ps) bal = Ok (ps'', bal').
Proof. exact exchange_posts_skips_nonbalancing. Qed.
Print Assumptions nonbalancing_postings_play_no_part_in_gain_loss.

(* end to end: for a transaction in which every posting has an amount and the postings that need not balance carry no
   cost, finalize reaches the same decision - accepted, or the very same error - with and without those postings,
   through the balance scan, the implied-rate branch and the gain/loss pass alike (for every pool, hash order and
   number of postings).  A (virtual) posting WITH a written cost is outside: it stops the search for an implied rate
   (xact.cc `saw_cost`), as a real one does. *)
Theorem virtual_postings_do_not_decide_acceptance : forall ord cp ps,
  all_amounts ps -> plain_virtuals ps -> mb_only ps <> [] ->
  decision_of (finalize ord cp None (mb_only ps)) = decision_of (finalize ord cp None ps).
Proof. exact virtual_postings_do_not_decide. Qed.
Print Assumptions virtual_postings_do_not_decide_acceptance.

Example ex_virtual_postings_do_not_decide :
  let eur q := mkAmt q 2 false (Some [69; 85; 82]%Z) in
  let usd q := mkAmt q 2 false (Some [36%Z]) in
  let ps := [mkPost [65%Z] PReal (Some (eur 100)) None None false false false;
             mkPost [86%Z] PVirtual (Some (eur 40)) None None false false false;
             mkPost [66%Z] PReal (Some (usd (-120))) None None false false false] in
  all_amounts ps /\ plain_virtuals ps /\ mb_only ps <> [] /\
  decision_of (finalize false (fun _ => 2%Z) None ps) = DAccepted.
Proof.
  cbv zeta. split; [|split; [|split]].
  - intros p [<-|[<-|[<-|[]]]]; discriminate.
  - intros p [<-|[<-|[<-|[]]]]; cbn; intros H; try reflexivity; discriminate.
  - cbn. discriminate.
  - vm_compute. reflexivity.
Qed.

(* the written form of a posting line (Model/PostLine.v transcribes next_element, skip_ws and the account part of
   parse_post; the driver reads account, kind and the presence of an amount off the written line through it):
   whatever separates the account from the amount - a tab, two or more spaces, any run of blanks holding a tab - the
   account found is the written name and the amount text is what follows.  name_ok: no control white space in the
   name, a space only between two non-blank bytes; sep_ok: blanks only, a tab among them or at least two of them;
   the amount text starts with a byte that is not white space *)
Theorem account_and_amount_found_whatever_the_gap : forall a sep rest,
  name_ok a = true -> sep_ok sep = true -> skip_ws rest = rest ->
  split_post_line (a ++ sep ++ rest) = (classify_name a, Some rest).
Proof. exact split_post_line_gap. Qed.
Print Assumptions account_and_amount_found_whatever_the_gap.

Theorem posting_line_reading_independent_of_the_gap : forall a sep1 sep2 rest,
  name_ok a = true -> sep_ok sep1 = true -> sep_ok sep2 = true -> skip_ws rest = rest ->
  split_post_line (a ++ sep1 ++ rest) = split_post_line (a ++ sep2 ++ rest).
Proof. exact split_post_line_gap_independent. Qed.
Print Assumptions posting_line_reading_independent_of_the_gap.

Theorem posting_line_without_amount : forall a, name_ok a = true -> split_post_line a = (classify_name a, None).
Proof. exact split_post_line_bare. Qed.
Print Assumptions posting_line_without_amount.

(* an amount is present exactly when something other than a note (;) or an assertion (=) follows the gap; a line that
   ends with the account name has none (its amount is the elided one, C02) *)
Theorem posting_amount_follows_the_gap : forall a sep c t,
  name_ok a = true -> sep_ok sep = true -> is_ws c = false ->
  has_amount_text (snd (split_post_line (a ++ sep ++ c :: t))) = negb (Z.eqb c 59) && negb (Z.eqb c 61).
Proof. exact amount_follows_the_gap. Qed.
Print Assumptions posting_amount_follows_the_gap.

Theorem posting_line_ending_with_the_account_has_no_amount : forall a,
  name_ok a = true -> has_amount_text (snd (split_post_line a)) = false.
Proof. exact bare_posting_has_no_amount. Qed.
Print Assumptions posting_line_ending_with_the_account_has_no_amount.

Example ex_posting_line_gaps :
  let a := [69;120;112;58;68;32;79]%Z in
  name_ok a = true /\ sep_ok [SP; TAB] = true /\ sep_ok [TAB] = true /\ sep_ok [SP; SP; SP] = true /\
  sep_ok [SP] = false /\
  split_post_line (a ++ [SP; TAB] ++ [36; 53]%Z) = ((KReal, a), Some [36; 53]%Z) /\
  split_post_line (a ++ [TAB] ++ [36; 53]%Z) = ((KReal, a), Some [36; 53]%Z) /\
  split_post_line (a ++ [SP] ++ [36; 53]%Z) = ((KReal, a ++ [SP; 36; 53]%Z), None).
Proof. exact gap_forms_agree. Qed.

(* "exits with a non-zero status": the status is derived from the number of refused items by the expression of main.cc
   that harness/translators/c12_status.py re-reads on every run (Gen/StatusOfCount.v); the system keeps eight bits of it,
   and for every positive count those eight bits are not zero *)
Theorem refused_transactions_give_a_nonzero_status : forall n : Z,
  (n > 0)%Z -> (status_of_count n mod 256 <> 0)%Z.
Proof. exact status_of_count_nonzero. Qed.
Print Assumptions refused_transactions_give_a_nonzero_status.

(* the tie to the source by translation: the lines of /repo/src this model transcribes (harness/translators/src_guards.py
   lists them, with the function each is looked for in) are still there, in the same order, in the source as it is NOW -
   coq/Gen/SourceGuards.v is regenerated on every run and names the guards that are false *)
Theorem model_transcribes_current_source : forallb (fun b => b) src_guards_C01 = true.
Proof. vm_compute. reflexivity. Qed.
Print Assumptions model_transcribes_current_source.

(* ROUND 10 (own work).  THE STATE FLAG OF A POSTING LINE (`* Account  $5`, `!Account  $5`; textual.cc parse_post, `// Parse the
   state flag`): Model/PostLine.v `strip_state` / `read_post_line` transcribe it; the driver reads every written posting
   line through `read_post_line`.  A flag, ANY white space after it (none included), then the posting: the flag is read
   and account, kind and amount text are those of the line without it - for every line and every run of white space *)
Theorem posting_state_flag_is_read_and_dropped : forall m ws line,
  is_marker m = true -> forallb is_ws ws = true -> skip_ws line = line ->
  read_post_line (m :: ws ++ line) = (state_of_marker m, split_post_line line).
Proof. exact read_post_line_marked. Qed.
Print Assumptions posting_state_flag_is_read_and_dropped.

Theorem posting_without_state_flag_read_as_before : forall ind c t,
  forallb is_ws ind = true -> is_ws c = false -> is_marker c = false ->
  read_post_line (ind ++ c :: t) = (SUncleared, split_post_line (c :: t)).
Proof. exact read_post_line_unmarked. Qed.
Print Assumptions posting_without_state_flag_read_as_before.

(* cleared / pending is irrelevant for the balance: what finalize is given (account, kind, amount text) is the same *)
Theorem posting_state_flag_changes_nothing_the_balance_is_made_of : forall m ws line,
  is_marker m = true -> forallb is_ws ws = true -> skip_ws line = line ->
  (forall c t, line = c :: t -> is_marker c = false) ->
  snd (read_post_line (m :: ws ++ line)) = snd (read_post_line line).
Proof. exact state_flag_changes_nothing_read. Qed.
Print Assumptions posting_state_flag_changes_nothing_the_balance_is_made_of.

(* ONE flag only: in `* ! A:B  $5` the second flag is part of the account name *)
Example ex_posting_state_flags :
  let a := [65; 58; 66]%Z in
  read_post_line ([STAR; SP] ++ a ++ [SP; SP; 36; 53]%Z) = (SCleared, ((KReal, a), Some [36; 53]%Z)) /\
  read_post_line ([BANG] ++ [40]%Z ++ a ++ [41; TAB; 36; 53]%Z) = (SPending, ((KVirtual, a), Some [36; 53]%Z)) /\
  read_post_line ([STAR; SP; BANG; SP] ++ a ++ [SP; SP; 36; 53]%Z) = (SCleared, ((KReal, [BANG; SP] ++ a), Some [36; 53]%Z)) /\
  read_post_line (a ++ [SP; SP; 36; 53]%Z) = (SUncleared, ((KReal, a), Some [36; 53]%Z)).
Proof. exact ex_state_flags. Qed.

(* A TRANSACTION NONE OF WHOSE POSTINGS HAS TO BALANCE (only (virtual) postings) is accepted unchanged whatever its
   amounts are, with or without a bucket account, for every pool and every number of postings: every loop of finalize
   skips its postings and the balance stays null *)
Theorem only_virtual_postings_always_accepted : forall ord cp bucket ps,
  none_must_balance ps -> wf_costs ps -> ps <> [] -> all_have_amounts ps ->
  finalize ord cp bucket ps = Ok (Accepted ps).
Proof. exact only_virtual_accepted. Qed.
Print Assumptions only_virtual_postings_always_accepted.

Example ex_only_virtual_postings :
  let usd q := mkAmt q 2 false (Some [36%Z]) in
  let ps := [mkPost [86%Z] PVirtual (Some (usd 100)) None None false false false;
             mkPost [87%Z] PVirtual (Some (usd 7)) None None false false false] in
  none_must_balance ps /\ wf_costs ps /\ ps <> [] /\ all_have_amounts ps /\
  finalize false (fun _ => 2%Z) (Some [66%Z]) ps = Ok (Accepted ps).
Proof.
  cbv zeta. split; [|split; [|split; [|split]]].
  - intros p [<-|[<-|[]]]; reflexivity.
  - intros p [<-|[<-|[]]]; split; reflexivity.
  - discriminate.
  - intros p [<-|[<-|[]]]; discriminate.
  - vm_compute. reflexivity.
Qed.
