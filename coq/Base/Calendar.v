(* The proleptic Gregorian calendar over Z, shared by the date reader (C14), the period
   arithmetic (C13) and the time log (C20).  Definitions only; the lemmas are in
   Proofs/CalendarProofs.v.  Stdlib only, self-contained.

   A civil date is a triple (y, m, d) : Z * Z * Z; a day number is a Z with
   day 0 = 1970-01-01 (days_from_civil / civil_from_days: the era-based algorithms,
   valid for every integer year because Z./ is the floor division).

   The second half transcribes boost::gregorian's own algorithms as ledger uses them
   (date_t = boost::gregorian::date): the Julian day number of a date
   (gregorian_calendar_base::day_number), its inverse (from_day_number), day_of_week,
   end_of_month_day, and the month arithmetic of date_time::month_functor behind
   `date + months(n)` / `date + years(n)` with its end-of-month rule.  CalendarProofs.v
   proves them equal to the era-based definitions (offset 2440588). *)
From Coq Require Import ZArith List Bool.
Local Open Scope Z_scope.

Definition ymd : Type := (Z * Z * Z)%type.

(* ---- leap years, month lengths, validity ---- *)
Definition is_leap (y : Z) : bool :=
  (y mod 4 =? 0) && (negb (y mod 100 =? 0) || (y mod 400 =? 0)).

Definition days_in_month (y m : Z) : Z :=
  if m =? 2 then (if is_leap y then 29 else 28)
  else if (m =? 4) || (m =? 6) || (m =? 9) || (m =? 11) then 30
  else 31.

Definition days_in_year (y : Z) : Z := if is_leap y then 366 else 365.

Definition valid_ymd (y m d : Z) : Prop := 1 <= m <= 12 /\ 1 <= d <= days_in_month y m.

Definition valid_ymdb (y m d : Z) : bool :=
  (1 <=? m) && (m <=? 12) && (1 <=? d) && (d <=? days_in_month y m).

(* ---- day numbers (day 0 = 1970-01-01) ---- *)
Definition days_from_civil (y m d : Z) : Z :=
  let y' := if m <=? 2 then y - 1 else y in      (* years start on 1 March *)
  let era := y' / 400 in
  let yoe := y' - era * 400 in                    (* 0 .. 399 *)
  let mp := (m + 9) mod 12 in                     (* March = 0 .. February = 11 *)
  let doy := (153 * mp + 2) / 5 + d - 1 in        (* 0 .. 365 *)
  let doe := yoe * 365 + yoe / 4 - yoe / 100 + doy in
  era * 146097 + doe - 719468.

Definition civil_from_days (z : Z) : ymd :=
  let z := z + 719468 in
  let era := z / 146097 in
  let doe := z - era * 146097 in                  (* 0 .. 146096 *)
  let yoe := (doe - doe / 1460 + doe / 36524 - doe / 146096) / 365 in
  let y := yoe + era * 400 in
  let doy := doe - (365 * yoe + yoe / 4 - yoe / 100) in
  let mp := (5 * doy + 2) / 153 in
  let d := doy - (153 * mp + 2) / 5 + 1 in
  let m := if mp <? 10 then mp + 3 else mp - 9 in
  (if m <=? 2 then y + 1 else y, m, d).

(* lexicographic order on triples = calendar order (CalendarProofs.order_correct) *)
Definition ymd_lt (a b : ymd) : Prop :=
  let '(y1, m1, d1) := a in
  let '(y2, m2, d2) := b in
  y1 < y2 \/ (y1 = y2 /\ (m1 < m2 \/ (m1 = m2 /\ d1 < d2))).

Definition ymd_ltb (a b : ymd) : bool :=
  let '(y1, m1, d1) := a in
  let '(y2, m2, d2) := b in
  (y1 <? y2) || ((y1 =? y2) && ((m1 <? m2) || ((m1 =? m2) && (d1 <? d2)))).

(* ---- weekday: 0 = Sunday .. 6 = Saturday; 1970-01-01 was a Thursday ---- *)
Definition weekday (z : Z) : Z := (z + 4) mod 7.

(* day of the year, 1 = 1 January *)
Definition day_of_year (y m d : Z) : Z := days_from_civil y m d - days_from_civil y 1 1 + 1.

(* ---- date arithmetic ---- *)
Definition add_days (t : ymd) (n : Z) : ymd :=
  let '(y, m, d) := t in civil_from_days (days_from_civil y m d + n).

(* boost::date_time::month_functor::get_offset: a date that is the last day of its month
   maps to the last day of the target month; otherwise the day of the month is kept and
   clamped to the length of the target month.  wrapping_int2<short,1,12>::add's
   truncating remainder/overflow pair is the floor division of the zero-based month index. *)
Definition add_months (t : ymd) (n : Z) : ymd :=
  let '(y, m, d) := t in
  let eom := d =? days_in_month y m in
  let k := (m - 1) + n in
  let y' := y + k / 12 in
  let m' := k mod 12 + 1 in
  let e' := days_in_month y' m' in
  (y', m', if eom then e' else Z.min d e').

Definition add_years (t : ymd) (n : Z) : ymd := add_months t (12 * n).

(* ---- boost::gregorian as written (greg_calendar.ipp); unsigned arithmetic there, so the
   transcription is exact where every intermediate value is non-negative, which holds for
   boost's year range 1400..9999 ---- *)
Definition boost_min_year : Z := 1400.
Definition boost_max_year : Z := 9999.

Definition boost_day_number (y m d : Z) : Z :=
  let a := (14 - m) / 12 in
  let y' := y + 4800 - a in
  let m' := m + 12 * a - 3 in
  d + (153 * m' + 2) / 5 + 365 * y' + y' / 4 - y' / 100 + y' / 400 - 32045.

Definition boost_from_day_number (dn : Z) : ymd :=
  let a := dn + 32044 in
  let b := (4 * a + 3) / 146097 in
  let c := a - (146097 * b) / 4 in
  let d := (4 * c + 3) / 1461 in
  let e := c - (1461 * d) / 4 in
  let m := (5 * e + 2) / 153 in
  (100 * b + d - 4800 + m / 10, m + 3 - 12 * (m / 10), e - (153 * m + 2) / 5 + 1).

Definition boost_day_of_week (y m d : Z) : Z :=
  let a := (14 - m) / 12 in
  let y' := y - a in
  let m' := m + 12 * a - 2 in
  (d + y' + y' / 4 - y' / 100 + y' / 400 + (31 * m') / 12) mod 7.

(* the Julian day number of 1970-01-01 *)
Definition boost_epoch_offset : Z := 2440588.

(* ---- a checker for finite sweeps over Z ranges that is cheap under vm_compute
   (N.iter is binary; no unary nat of the size of the range is ever built) ---- *)
Definition range_check (f : Z -> bool) (lo : Z) (n : N) : bool :=
  snd (N.iter n (fun p : Z * bool => (fst p + 1, snd p && f (fst p))) (lo, true)).
