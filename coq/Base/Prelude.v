(* Common definitions for the ledger model: result type, error enum, byte strings. *)
From Coq Require Export ZArith QArith List Bool Lia.
Export ListNotations.

(* Error classes; every C++ `throw` site in the modelled code maps to one of these. *)
Inductive err : Type :=
| EUnbalanced | ETwoNulls | ENullLeft | EAssertOff | EBadDate | EBadAmount
| ECostSameComm | EDivZero | EDiffComm | ENullAmt | EBadOp
| ETimelogNoIn | ETimelogDouble | ETimelogNegative | EOutOfFuel | EOther.

Inductive res (A : Type) : Type :=
| Ok (a : A)
| Err (e : err).
Arguments Ok {A} a.
Arguments Err {A} e.

Definition bind {A B} (r : res A) (f : A -> res B) : res B :=
  match r with Ok a => f a | Err e => Err e end.
Notation "'do' x <- r ; k" := (bind r (fun x => k))
  (at level 200, x name, r at level 100, k at level 200).

(* A byte string is a list of byte codes 0..255. *)
Definition str := list Z.

Fixpoint str_eqb (a b : str) : bool :=
  match a, b with
  | [], [] => true
  | x :: a', y :: b' => Z.eqb x y && str_eqb a' b'
  | _, _ => false
  end.

Lemma str_eqb_spec a b : str_eqb a b = true <-> a = b.
Proof.
  revert b; induction a as [|x a IH]; intros [|y b]; cbn [str_eqb]; split;
    try discriminate; try reflexivity.
  - intros H. apply andb_true_iff in H as [H1 H2]. apply Z.eqb_eq in H1.
    apply IH in H2. congruence.
  - intros H. injection H as -> ->. rewrite Z.eqb_refl. cbn. apply IH. reflexivity.
Qed.

Lemma str_eqb_refl a : str_eqb a a = true.
Proof. apply str_eqb_spec. reflexivity. Qed.

(* lexicographic comparison on byte strings (std::string::compare on unsigned bytes) *)
Fixpoint str_compare (a b : str) : comparison :=
  match a, b with
  | [], [] => Eq
  | [], _ :: _ => Lt
  | _ :: _, [] => Gt
  | x :: a', y :: b' =>
      match Z.compare x y with
      | Eq => str_compare a' b'
      | c => c
      end
  end.

Definition opt_eqb {A} (eqb : A -> A -> bool) (a b : option A) : bool :=
  match a, b with
  | None, None => true
  | Some x, Some y => eqb x y
  | _, _ => false
  end.
