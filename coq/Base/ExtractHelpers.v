(* Integer helpers the OCaml drivers use to read and print Z and Q values. *)
From Coq Require Import ZArith QArith.
Definition h_add := Z.add.
Definition h_mul := Z.mul.
Definition h_div := Z.div.
Definition h_mod := Z.modulo.
Definition h_opp := Z.opp.
Definition h_ltb := Z.ltb.
Definition h_eqb := Z.eqb.
Definition h_qred := Qred.
Definition h_qmake (n d : Z) : Q :=
  match d with Zpos p => Qmake n p | _ => Qmake 0 1 end.
Definition h_qnum (q : Q) : Z := Qnum q.
Definition h_qden (q : Q) : Z := Zpos (Qden q).
