(* Model of ledger's decimal rendering of a GMP rational:
   stream_out_mpq (amount.cc:101-225) = mpfr_div at (bits n + 384 + bits d + 384) bits,
   round-to-nearest-even, then mpfr_asprintf("%.*RNf") = round-to-nearest-even at p decimals;
   and amount_t::in_place_roundto (amount.cc:658-694) = exact round-half-even on the rational. *)
From LedgerV Require Import Base.Prelude.
Local Open Scope Z_scope.

(* number of bits of |n| as mpz_sizeinbase(n,2): 1 for 0 *)
Definition bits (n : Z) : Z := if Z.eqb n 0 then 1 else Z.log2 (Z.abs n) + 1.

(* round half even of n/d, d > 0 (floor quotient, compare twice the remainder) *)
Definition rhe_nd (n d : Z) : Z :=
  let q := n / d in
  let r := n mod d in
  match Z.compare (2 * r) d with
  | Gt => q + 1
  | Eq => if Z.odd q then q + 1 else q
  | Lt => q
  end.

(* extend_by_digits (amount.h) ; regenerated into Gen/Consts.v and checked equal there *)
Definition extend_by_digits : Z := 6.

Definition mpfr_prec (n d : Z) : Z :=
  (bits n + extend_by_digits * 64) + (bits d + extend_by_digits * 64).

(* RN_P(n/d) for n > 0, d > 0 as a pair (m, e) meaning m / 2^e  (e may be negative: m * 2^-e) *)
Definition rn_bits_pos (n d P : Z) : Z * Z :=
  let e0 := bits n - bits d in         (* 2^(e0-1) < n/d < 2^(e0+1) *)
  (* choose s with 2^(P-1) <= (n/d) * 2^s < 2^P *)
  let s0 := P - e0 in                  (* (n/d)*2^s0 in (2^(P-1), 2^(P+1)) *)
  let scaled_ge :=                     (* (n/d)*2^s0 >= 2^P ? *)
    if 0 <=? s0 then d * 2 ^ P <=? n * 2 ^ s0
    else d * 2 ^ P * 2 ^ (- s0) <=? n in
  let s := if scaled_ge then s0 - 1 else s0 in
  let m := if 0 <=? s then rhe_nd (n * 2 ^ s) d else rhe_nd n (d * 2 ^ (- s)) in
  (m, s).

Definition rn_bits (n d P : Z) : Z * Z :=
  if n =? 0 then (0, 0)
  else if 0 <? n then rn_bits_pos n d P
  else let (m, s) := rn_bits_pos (- n) d P in (- m, s).

(* the integer N such that the printed text is N / 10^p, for quantity n/d (d > 0) *)
Definition print_scaled (n d p : Z) : Z :=
  let (m, s) := rn_bits n d (mpfr_prec n d) in
  if 0 <=? s then rhe_nd (m * 10 ^ p) (2 ^ s) else m * 2 ^ (- s) * 10 ^ p.

(* exact round-half-even at `places` >= 0 decimals: the scaled integer *)
Definition roundto_scaled (n d places : Z) : Z := rhe_nd (n * 10 ^ places) d.

(* decimal digits of a non-negative integer, most significant first, on fuel *)
Fixpoint digits_fuel (fuel : nat) (n : Z) (acc : str) : str :=
  match fuel with
  | O => acc
  | S f => if n <? 10 then (48 + n) :: acc
           else digits_fuel f (n / 10) ((48 + n mod 10) :: acc)
  end.
Definition digits (n : Z) : str := digits_fuel (S (Z.to_nat (Z.log2 (Z.max n 1)))) n [].

Definition pad_left (k : nat) (s : str) : str := repeat 48 (k - length s) ++ s.

(* text of N / 10^p in mpfr's %.*f layout: "-" sign (also for negative zero results:
   the sign of the rounded value follows the sign of the quantity), integer part, ".", p digits *)
Definition fixed_text (neg : bool) (N p : Z) : str :=
  let a := Z.abs N in
  let ds := digits a in
  let pn := Z.to_nat p in
  let ds' := pad_left (S pn) ds in   (* at least p+1 digits *)
  let k := (length ds' - pn)%nat in
  let ip := firstn k ds' in
  let fp := skipn k ds' in
  (if neg then [45] else []) ++ ip ++ (if (0 <? p) then 46 :: fp else []).
