(* Proofs about Model/AmountText.v: pool learning and the digit-text round trip. *)
From LedgerV Require Import Base.Prelude Base.Round Model.Amount Model.AmountText.
From Coq Require Import Permutation.
Local Open Scope Z_scope.

(* ---- display precision ---- *)
Lemma display_precision_spec cp a :
  display_precision cp a =
  match acomm a with
  | Some c => if akeep a then Z.max (aprec a) (cp c) else cp c
  | None => aprec a
  end.
Proof. reflexivity. Qed.

Lemma display_precision_ge_commodity cp a c :
  acomm a = Some c -> cp c <= display_precision cp a.
Proof. intros H. unfold display_precision. rewrite H. destruct (akeep a); lia. Qed.

(* ---- what the pool learns: max of the decimals, or of the flags; order-free ---- *)
Definition style_eq (a b : style) : Prop :=
  st_suffixed a = st_suffixed b /\ st_separated a = st_separated b /\
  st_thousands a = st_thousands b /\ st_decimal_comma a = st_decimal_comma b.

Lemma learn_prec ci p st : ci_prec (learn ci p st) = Z.max (ci_prec ci) p.
Proof. unfold learn. cbn. destruct (Z.ltb_spec (ci_prec ci) p); lia. Qed.

Lemma learn_all_prec l : forall ci,
  ci_prec (learn_all ci l) = fold_left Z.max (map fst l) (ci_prec ci).
Proof.
  unfold learn_all. induction l as [|[p st] l IH]; intros ci; cbn [fold_left map fst snd]; [reflexivity|].
  rewrite IH, learn_prec. reflexivity.
Qed.

Lemma fold_max_ge l : forall a, a <= fold_left Z.max l a.
Proof. induction l as [|x l IH]; intros a; cbn; [lia|]. specialize (IH (Z.max a x)). lia. Qed.

Lemma fold_max_in l : forall a x, In x l -> x <= fold_left Z.max l a.
Proof.
  induction l as [|y l IH]; intros a x; cbn; [contradiction|].
  intros [->|H]; [pose proof (fold_max_ge l (Z.max a x)); lia | apply IH; exact H].
Qed.

Lemma fold_max_attained l : forall a, fold_left Z.max l a = a \/ In (fold_left Z.max l a) l.
Proof.
  induction l as [|y l IH]; intros a; cbn; [left; reflexivity|].
  destruct (IH (Z.max a y)) as [H|H]; [|right; right; exact H].
  rewrite H. destruct (Z.max_spec a y) as [[_ ->]|[_ ->]]; [right; left; reflexivity | left; reflexivity].
Qed.

(* the learned precision is the largest number of decimals written (or the initial one) *)
Lemma learn_all_prec_is_max ci l :
  let p := ci_prec (learn_all ci l) in
  ci_prec ci <= p /\ (forall x, In x (map fst l) -> x <= p) /\
  (p = ci_prec ci \/ In p (map fst l)).
Proof.
  cbn. rewrite learn_all_prec. split; [apply fold_max_ge|]. split.
  - intros x Hx. apply fold_max_in. exact Hx.
  - apply fold_max_attained.
Qed.

Lemma fold_max_perm l l' : Permutation l l' -> forall a, fold_left Z.max l a = fold_left Z.max l' a.
Proof.
  induction 1 as [| x l l' _ IH | x y l | l l' l'' _ IH1 _ IH2]; intros a; cbn.
  - reflexivity.
  - apply IH.
  - f_equal. lia.
  - rewrite IH1. apply IH2.
Qed.

Lemma learn_all_prec_perm ci l l' :
  Permutation l l' -> ci_prec (learn_all ci l) = ci_prec (learn_all ci l').
Proof.
  intros H. rewrite !learn_all_prec. apply fold_max_perm. apply Permutation_map. exact H.
Qed.

Lemma style_or_comm3 a b c : style_or (style_or a b) c = style_or (style_or a c) b.
Proof.
  destruct a as [a1 a2 a3 a4], b as [b1 b2 b3 b4], c as [c1 c2 c3 c4]. unfold style_or. cbn.
  f_equal; [destruct a1, b1, c1 | destruct a2, b2, c2 | destruct a3, b3, c3 | destruct a4, b4, c4]; reflexivity.
Qed.

Lemma learn_style ci p st : ci_style (learn ci p st) = style_or (ci_style ci) st.
Proof. reflexivity. Qed.

Lemma learn_all_style l : forall ci,
  ci_style (learn_all ci l) = fold_left style_or (map snd l) (ci_style ci).
Proof.
  unfold learn_all. induction l as [|[p st] l IH]; intros ci; cbn [fold_left map fst snd]; [reflexivity|].
  rewrite IH, learn_style. reflexivity.
Qed.

Lemma fold_style_perm l l' : Permutation l l' -> forall a, fold_left style_or l a = fold_left style_or l' a.
Proof.
  induction 1 as [| x l l' _ IH | x y l | l l' l'' _ IH1 _ IH2]; intros a; cbn.
  - reflexivity.
  - apply IH.
  - rewrite style_or_comm3. reflexivity.
  - rewrite IH1. apply IH2.
Qed.

Lemma learn_all_style_perm ci l l' :
  Permutation l l' -> ci_style (learn_all ci l) = ci_style (learn_all ci l').
Proof.
  intros H. rewrite !learn_all_style. apply fold_style_perm. apply Permutation_map. exact H.
Qed.

(* ---- digits: the decimal digit text of a number reads back as that number ---- *)
Lemma digits_value_app s t : forall a, digits_value a (s ++ t) = digits_value (digits_value a s) t.
Proof.
  induction s as [|c s IH]; intros a; cbn [app digits_value]; [reflexivity|].
  destruct (is_digit c); apply IH.
Qed.

Lemma is_digit_48 k : 0 <= k < 10 -> is_digit (48 + k) = true.
Proof. intros H. unfold is_digit. apply andb_true_iff. split; apply Z.leb_le; lia. Qed.

Lemma digits_fuel_acc f : forall n acc, digits_fuel f n acc = digits_fuel f n [] ++ acc.
Proof.
  induction f as [|f IH]; intros n acc; cbn [digits_fuel]; [reflexivity|].
  destruct (n <? 10); [reflexivity|].
  rewrite (IH (n / 10) ((48 + n mod 10) :: acc)), (IH (n / 10) [48 + n mod 10]).
  rewrite <- app_assoc. reflexivity.
Qed.

Lemma digits_fuel_value f : forall n a,
  0 <= n < 2 ^ Z.of_nat f -> digits_value a (digits_fuel f n []) = a * 10 ^ Z.of_nat (length (digits_fuel f n [])) + n.
Proof.
  induction f as [|f IH]; intros n a Hn.
  - cbn in *. assert (n = 0) by lia. subst. lia.
  - cbn [digits_fuel]. destruct (Z.ltb_spec n 10) as [Hlt|Hge].
    + cbn [digits_value length]. rewrite is_digit_48 by lia. cbn [digits_value]. change (Z.of_nat 1) with 1. lia.
    + rewrite digits_fuel_acc, digits_value_app, app_length. cbn [length digits_value].
      assert (Hm := Z.mod_pos_bound n 10 ltac:(lia)).
      rewrite is_digit_48 by lia.
      assert (Hq : 0 <= n / 10 < 2 ^ Z.of_nat f).
      { split; [apply Z.div_pos; lia|]. rewrite Nat2Z.inj_succ, Z.pow_succ_r in Hn by lia.
        apply Z.div_lt_upper_bound; lia. }
      rewrite (IH (n / 10) a Hq).
      rewrite Nat2Z.inj_add. change (Z.of_nat 1) with 1. rewrite Z.pow_add_r by lia.
      pose proof (Z.div_mod n 10 ltac:(lia)). lia.
Qed.

Lemma digits_value_digits n : 0 <= n -> digits_value 0 (digits n) = n.
Proof.
  intros Hn. unfold digits.
  rewrite digits_fuel_value; [lia|].
  split; [exact Hn|].
  rewrite Nat2Z.inj_succ, Z2Nat.id by apply Z.log2_nonneg.
  destruct (Z.eq_dec n 0) as [->|Hz]; [cbn; lia|].
  assert (Z.max n 1 = n) by lia. rewrite H.
  apply Z.log2_spec. lia.
Qed.

Lemma digits_value_zeros k : forall a, digits_value a (repeat 48 k) = a * 10 ^ Z.of_nat k.
Proof.
  induction k as [|k IH]; intros a; cbn [repeat digits_value]; [cbn; lia|].
  change (is_digit 48) with true. cbn iota. rewrite IH, Nat2Z.inj_succ, Z.pow_succ_r by lia. lia.
Qed.

(* leading zero padding does not change the value read *)
Lemma digits_value_pad k n : 0 <= n -> digits_value 0 (pad_left k (digits n)) = n.
Proof.
  intros Hn. unfold pad_left. rewrite digits_value_app, digits_value_zeros. cbn [Z.mul].
  apply digits_value_digits. exact Hn.
Qed.

(* a '.' or ',' inside the text is skipped by the value reader *)
Lemma digits_value_mark s t m : is_digit m = false -> forall a,
  digits_value a (s ++ m :: t) = digits_value a (s ++ t).
Proof.
  intros Hm a. rewrite !digits_value_app. cbn [digits_value]. rewrite Hm. reflexivity.
Qed.

(* ---- the right-to-left scan on a plain decimal text: digits, one point, digits ---- *)
Definition all_digits (s : str) : Prop := Forall (fun c => is_digit c = true) s.

Lemma is_digit_not_mark c : is_digit c = true -> (c =? 46) = false /\ (c =? 44) = false.
Proof.
  unfold is_digit. intros H. apply andb_true_iff in H as [H1 H2].
  apply Z.leb_le in H1, H2. split; apply Z.eqb_neq; lia.
Qed.

Lemma scan_rev_digits r : all_digits r -> forall s,
  scan_rev s r = Ok (mkScan (sc_offset s + Z.of_nat (length r)) (sc_prec s) (sc_last_comma s) (sc_last_period s)
                            (sc_no_more_commas s) (sc_no_more_periods s) (sc_decimal_comma s) (sc_thousands s)).
Proof.
  induction 1 as [|c r Hc _ IH]; intros s; cbn [scan_rev length].
  - destruct s; cbn. repeat f_equal. lia.
  - unfold scan_step. destruct (is_digit_not_mark c Hc) as [-> ->]. cbn [bind].
    rewrite IH. rewrite Nat2Z.inj_succ.
    cbn [sc_offset sc_prec sc_last_comma sc_last_period sc_no_more_commas sc_no_more_periods
         sc_decimal_comma sc_thousands].
    do 2 f_equal. lia.
Qed.

Lemma scan_rev_app l1 : forall s l2,
  scan_rev s (l1 ++ l2) = bind (scan_rev s l1) (fun s' => scan_rev s' l2).
Proof.
  induction l1 as [|c l1 IH]; intros s l2; cbn [app scan_rev]; [reflexivity|].
  destruct (scan_step s c); cbn [bind]; [apply IH | reflexivity].
Qed.

Lemma scan_step_point k :
  scan_step (mkScan k 0 false false false false false false) 46 =
  Ok (mkScan 0 k false true false true false false).
Proof. reflexivity. Qed.

(* text "ip.fp" (ip, fp digit strings), scanned for a commodity without decimal-comma style:
   precision = number of fraction digits, no style flags, no error *)
Lemma scan_plain_decimal ip fp :
  all_digits ip -> all_digits fp ->
  scan_rev (mkScan 0 0 false false false false false false) (rev (ip ++ 46 :: fp)) =
  Ok (mkScan (Z.of_nat (length ip)) (Z.of_nat (length fp)) false true false true false false).
Proof.
  intros Hi Hf. rewrite rev_app_distr. cbn [rev]. rewrite <- app_assoc. cbn [app].
  assert (Hrf : all_digits (rev fp)) by (apply Forall_rev; exact Hf).
  assert (Hri : all_digits (rev ip)) by (apply Forall_rev; exact Hi).
  rewrite scan_rev_app, (scan_rev_digits _ Hrf). cbn [bind scan_rev sc_offset sc_prec sc_last_comma
    sc_last_period sc_no_more_commas sc_no_more_periods sc_decimal_comma sc_thousands].
  rewrite Z.add_0_l, scan_step_point. cbn [bind].
  rewrite (scan_rev_digits _ Hri). cbn [sc_offset sc_prec sc_last_comma
    sc_last_period sc_no_more_commas sc_no_more_periods sc_decimal_comma sc_thousands].
  rewrite !rev_length, Z.add_0_l. reflexivity.
Qed.

(* a pure digit string: precision 0 *)
Lemma scan_plain_integer ip :
  all_digits ip ->
  scan_rev (mkScan 0 0 false false false false false false) (rev ip) =
  Ok (mkScan (Z.of_nat (length ip)) 0 false false false false false false).
Proof.
  intros Hi. assert (Hri : all_digits (rev ip)) by (apply Forall_rev; exact Hi).
  rewrite (scan_rev_digits _ Hri). cbn [sc_offset sc_prec sc_last_comma
    sc_last_period sc_no_more_commas sc_no_more_periods sc_decimal_comma sc_thousands].
  rewrite rev_length, Z.add_0_l. reflexivity.
Qed.

Lemma Forall_firstn' {A} (P : A -> Prop) k : forall l, Forall P l -> Forall P (firstn k l).
Proof.
  induction k as [|k IH]; intros l H; cbn [firstn]; [constructor|].
  destruct l as [|x l]; [constructor|]. inversion H; subst. constructor; [assumption | apply IH; assumption].
Qed.

Lemma Forall_skipn' {A} (P : A -> Prop) k : forall l, Forall P l -> Forall P (skipn k l).
Proof.
  induction k as [|k IH]; intros l H; cbn [skipn]; [exact H|].
  destruct l as [|x l]; [constructor|]. inversion H; subst. apply IH; assumption.
Qed.

Lemma all_digits_digits_fuel f : forall n acc, 0 <= n -> all_digits acc -> all_digits (digits_fuel f n acc).
Proof.
  induction f as [|f IH]; intros n acc Hn Ha; cbn [digits_fuel]; [exact Ha|].
  destruct (Z.ltb_spec n 10).
  - constructor; [apply is_digit_48; lia | exact Ha].
  - apply IH; [apply Z.div_pos; lia|].
    constructor; [apply is_digit_48; apply Z.mod_pos_bound; lia | exact Ha].
Qed.

Lemma all_digits_digits n : 0 <= n -> all_digits (digits n).
Proof. intros Hn. unfold digits. apply all_digits_digits_fuel; [exact Hn | constructor]. Qed.

Lemma all_digits_pad k s : all_digits s -> all_digits (pad_left k s).
Proof.
  intros Hs. unfold pad_left. apply Forall_app. split; [|exact Hs].
  apply Forall_forall. intros x Hx. apply repeat_spec in Hx. subst. reflexivity.
Qed.

Lemma not_minus_head c : c <> 45 -> match c with 45 => true | _ => false end = false.
Proof.
  intros H. destruct c as [|q|q]; try reflexivity.
  repeat (destruct q as [q|q|]; try reflexivity). exfalso. apply H. reflexivity.
Qed.

(* print -> read round trip on the plain decimal text of N / 10^p (N >= 0, p > 0, untrimmed):
   the reader recovers exactly N and p, with no style flags *)
Theorem plain_text_roundtrip N p :
  0 <= N -> 0 < p ->
  scan_quantity false (quantity_text style_none false false N p p) = Ok (mkPQ N p false false).
Proof.
  intros HN Hp. unfold quantity_text, scan_quantity. cbn [st_thousands st_decimal_comma style_none andb app].
  rewrite Z.abs_eq by exact HN.
  set (pn := Z.to_nat p). set (ds := pad_left (S pn) (digits N)).
  set (k := (length ds - pn)%nat).
  assert (Hds : all_digits ds) by (apply all_digits_pad, all_digits_digits; exact HN).
  assert (Hlen : (S pn <= length ds)%nat).
  { unfold ds, pad_left. rewrite app_length, repeat_length. lia. }
  assert (Hfp : length (skipn k ds) = pn) by (rewrite skipn_length; unfold k; lia).
  (* nothing is trimmed when zeros_prec = p *)
  assert (Htrim : trim_fraction (skipn k ds) p = skipn k ds).
  { unfold trim_fraction. rewrite Hfp. fold pn. rewrite Nat.sub_diag. cbn [strip_zeros_rev].
    apply rev_involutive. }
  rewrite Htrim.
  assert (Hne : skipn k ds <> []).
  { intros E. rewrite E in Hfp. cbn in Hfp. unfold pn in Hfp. lia. }
  destruct (skipn k ds) as [|f0 fr] eqn:Efp; [contradiction|].
  rewrite <- Efp.
  assert (Hip : all_digits (firstn k ds)) by (apply Forall_firstn'; exact Hds).
  assert (Hfr : all_digits (skipn k ds)) by (apply Forall_skipn'; exact Hds).
  rewrite (scan_plain_decimal _ _ Hip Hfr). cbn [bind sc_prec sc_thousands sc_decimal_comma].
  assert (Hfirst : match firstn k ds ++ 46 :: skipn k ds with 45 :: _ => true | _ => false end = false).
  { destruct (firstn k ds) as [|c0 r0] eqn:E0; [reflexivity|]. cbn [app].
    pose proof (Forall_inv Hip) as Hc0. cbn beta in Hc0. unfold is_digit in Hc0.
    apply andb_true_iff in Hc0 as [Hc0 _]. apply Z.leb_le in Hc0.
    apply not_minus_head. lia. }
  rewrite Hfirst.
  rewrite digits_value_mark by reflexivity. rewrite firstn_skipn.
  rewrite Efp, Hfp.
  unfold ds. rewrite digits_value_pad by exact HN. unfold pn. rewrite Z2Nat.id by lia. reflexivity.
Qed.


(* ---- thousands marks: the grouped text is read back as the same number ---- *)
Lemma group3_rev_Forall (P : Z -> Prop) m : P m -> forall r n, Forall P r -> Forall P (group3_rev r n m).
Proof.
  intros Pm. induction r as [|x r IH]; intros n H; cbn [group3_rev]; [constructor|].
  inversion H as [|? ? Px Hr]; subst.
  destruct r as [|y r']; [constructor; [exact Px | constructor]|].
  destruct (Nat.eqb (n mod 3) 2).
  - constructor; [exact Px|]. constructor; [exact Pm|]. apply IH. exact Hr.
  - constructor; [exact Px|]. apply IH. exact Hr.
Qed.

Lemma filter_rev {A} (f : A -> bool) (l : list A) : filter f (rev l) = rev (filter f l).
Proof.
  induction l as [|x l IH]; [reflexivity|]. cbn [rev filter]. rewrite filter_app, IH. cbn [filter].
  destruct (f x); cbn [rev]; [reflexivity | apply app_nil_r].
Qed.

Lemma digits_value_filter s : forall a, digits_value a s = digits_value a (filter is_digit s).
Proof.
  induction s as [|c s IH]; intros a; cbn [digits_value filter]; [reflexivity|].
  destruct (is_digit c) eqn:E; cbn [digits_value]; [rewrite E|]; apply IH.
Qed.

Lemma filter_all_digits s : all_digits s -> filter is_digit s = s.
Proof.
  induction 1 as [|c s Hc _ IH]; cbn [filter]; [reflexivity|]. rewrite Hc, IH. reflexivity.
Qed.

Lemma group3_rev_filter m : is_digit m = false -> forall r n, all_digits r ->
  filter is_digit (group3_rev r n m) = r.
Proof.
  intros Hm. induction r as [|x r IH]; intros n H; cbn [group3_rev]; [reflexivity|].
  inversion H as [|? ? Hx Hr]; subst.
  destruct r as [|y r']; [cbn [filter]; rewrite Hx; reflexivity|].
  destruct (Nat.eqb (n mod 3) 2); cbn [filter]; rewrite Hx, ?Hm; f_equal; apply IH; exact Hr.
Qed.

Lemma digits_value_group3 ip m a : is_digit m = false -> all_digits ip ->
  digits_value a (group3 ip m) = digits_value a ip.
Proof.
  intros Hm Hi. rewrite digits_value_filter. unfold group3. rewrite filter_rev.
  rewrite (group3_rev_filter m Hm (rev ip) 0) by (apply Forall_rev; exact Hi).
  rewrite rev_involutive. reflexivity.
Qed.

(* the scan of the grouped integer digits, right to left, after the decimal point has been met: every comma stands
   where the count of digits is a multiple of three, so none is refused *)
Lemma scan_grouped_digits p : forall r n lc th, all_digits r ->
  exists lc' th',
    scan_rev (mkScan (Z.of_nat n) p lc true false true false th) (group3_rev r n 44) =
    Ok (mkScan (Z.of_nat (n + length r)) p lc' true false true false th').
Proof.
  induction r as [|x r IH]; intros n lc th H; cbn [group3_rev].
  - exists lc, th. cbn [scan_rev length]. rewrite Nat.add_0_r. reflexivity.
  - inversion H as [|? ? Hx Hr]; subst.
    assert (Hstep : forall lc0 th0, scan_step (mkScan (Z.of_nat n) p lc0 true false true false th0) x =
                    Ok (mkScan (Z.of_nat (S n)) p lc0 true false true false th0)).
    { intros lc0 th0. unfold scan_step. destruct (is_digit_not_mark x Hx) as [-> ->].
      cbn [sc_offset sc_prec sc_last_comma sc_last_period sc_no_more_commas sc_no_more_periods sc_decimal_comma sc_thousands].
      rewrite Nat2Z.inj_succ. repeat f_equal; try lia. }
    destruct r as [|y r'].
    + exists lc, th. cbn [scan_rev length]. rewrite Hstep. cbn [bind]. replace (n + 1)%nat with (S n) by lia. reflexivity.
    + destruct (Nat.eqb (n mod 3) 2) eqn:E.
      * (* x , rest *)
        apply Nat.eqb_eq in E.
        assert (Hmod : (Z.of_nat (S n)) mod 3 = 0).
        { rewrite Nat2Z.inj_succ. pose proof (Nat.div_mod n 3 ltac:(lia)) as D.
          assert (Z.of_nat n = 3 * Z.of_nat (n / 3) + 2) by lia.
          replace (Z.succ (Z.of_nat n)) with ((Z.of_nat (n / 3) + 1) * 3) by lia. apply Z.mod_mul. lia. }
        destruct (IH (S n) true true Hr) as [lc' [th' E']].
        exists lc', th'. cbn [scan_rev]. rewrite Hstep. cbn [bind scan_rev].
        unfold scan_step at 1. cbn [sc_offset sc_prec sc_last_comma sc_last_period sc_no_more_commas
          sc_no_more_periods sc_decimal_comma sc_thousands]. change (44 =? 46) with false. change (44 =? 44) with true.
        cbn iota. rewrite Hmod. cbn [Z.eqb negb bind sc_offset sc_prec sc_last_comma sc_last_period sc_no_more_commas
          sc_no_more_periods sc_decimal_comma sc_thousands].
        rewrite E'. cbn [length]. replace (S n + S (length r'))%nat with (n + S (S (length r')))%nat by lia. reflexivity.
      * destruct (IH (S n) lc th Hr) as [lc' [th' E']].
        exists lc', th'. cbn [scan_rev]. rewrite Hstep. cbn [bind]. rewrite E'. cbn [length]. replace (S n + S (length r'))%nat with (n + S (S (length r')))%nat by lia. reflexivity.
Qed.

(* print -> read round trip with thousands marks: N / 10^p printed in a style that groups the integer digits in threes
   is read back as exactly N with precision p, without error and without taking a comma for a decimal mark *)
Theorem grouped_text_roundtrip N p sfx sep :
  0 <= N -> 0 < p ->
  exists th, scan_quantity false (quantity_text (mkStyle sfx sep true false) true false N p p) = Ok (mkPQ N p th false).
Proof.
  intros HN Hp. unfold quantity_text, scan_quantity. cbn [st_thousands st_decimal_comma andb app].
  rewrite Z.abs_eq by exact HN.
  set (pn := Z.to_nat p). set (ds := pad_left (S pn) (digits N)).
  set (k := (length ds - pn)%nat).
  assert (Hds : all_digits ds) by (apply all_digits_pad, all_digits_digits; exact HN).
  assert (Hlen : (S pn <= length ds)%nat).
  { unfold ds, pad_left. rewrite app_length, repeat_length. lia. }
  assert (Hfp : length (skipn k ds) = pn) by (rewrite skipn_length; unfold k; lia).
  assert (Htrim : trim_fraction (skipn k ds) p = skipn k ds).
  { unfold trim_fraction. rewrite Hfp. fold pn. rewrite Nat.sub_diag. cbn [strip_zeros_rev].
    apply rev_involutive. }
  rewrite Htrim.
  assert (Hne : skipn k ds <> []).
  { intros E. rewrite E in Hfp. cbn in Hfp. unfold pn in Hfp. lia. }
  destruct (skipn k ds) as [|f0 fr] eqn:Efp; [contradiction|].
  rewrite <- Efp. rewrite <- Efp in Hfp.
  assert (Hip : all_digits (firstn k ds)) by (apply Forall_firstn'; exact Hds).
  assert (Hfr : all_digits (skipn k ds)) by (apply Forall_skipn'; exact Hds).
  set (ip := firstn k ds) in *. set (fp := skipn k ds) in *.
  (* the scan *)
  assert (Hscan : exists lc th, scan_rev (mkScan 0 0 false false false false false false) (rev (group3 ip 44 ++ 46 :: fp)) =
                  Ok (mkScan (Z.of_nat (length ip)) p lc true false true false th)).
  { rewrite rev_app_distr. cbn [rev]. rewrite <- app_assoc. cbn [app].
    assert (Hrf : all_digits (rev fp)) by (apply Forall_rev; exact Hfr).
    rewrite scan_rev_app, (scan_rev_digits _ Hrf). cbn [bind scan_rev sc_offset sc_prec sc_last_comma
      sc_last_period sc_no_more_commas sc_no_more_periods sc_decimal_comma sc_thousands].
    rewrite Z.add_0_l, scan_step_point. cbn [bind].
    unfold group3. rewrite rev_involutive.
    destruct (scan_grouped_digits (Z.of_nat (length (rev fp))) (rev ip) 0 false false (Forall_rev Hip)) as [lc [th E]].
    exists lc, th. change (Z.of_nat 0) with 0 in E. rewrite E. rewrite rev_length, rev_length. cbn [Nat.add].
    rewrite Hfp. unfold pn. rewrite Z2Nat.id by lia. reflexivity. }
  destruct Hscan as [lc [th Hscan]]. exists th. rewrite Hscan. cbn [bind sc_prec sc_thousands sc_decimal_comma].
  assert (Hfirst : match group3 ip 44 ++ 46 :: fp with 45 :: _ => true | _ => false end = false).
  { assert (HF : Forall (fun c => c <> 45) (group3 ip 44 ++ 46 :: fp)).
    { apply Forall_app. split.
      - unfold group3. apply Forall_rev. apply group3_rev_Forall; [discriminate|]. apply Forall_rev.
        eapply Forall_impl; [|exact Hip]. intros c Hc. cbn beta in Hc. unfold is_digit in Hc.
        apply andb_true_iff in Hc as [Hc _]. apply Z.leb_le in Hc. lia.
      - constructor; [discriminate|]. eapply Forall_impl; [|exact Hfr]. intros c Hc. cbn beta in Hc. unfold is_digit in Hc.
        apply andb_true_iff in Hc as [Hc _]. apply Z.leb_le in Hc. lia. }
    destruct (group3 ip 44 ++ 46 :: fp) as [|c0 r0]; [reflexivity|].
    apply not_minus_head. exact (Forall_inv HF). }
  rewrite Hfirst.
  rewrite digits_value_app, (digits_value_group3 ip 44 0 eq_refl Hip), <- digits_value_app.
  rewrite digits_value_mark by reflexivity. unfold ip, fp. rewrite firstn_skipn.
  unfold ds. rewrite digits_value_pad by exact HN. reflexivity.
Qed.

Example grouped_roundtrip_example :
  quantity_text (mkStyle false false true false) true false 123456789 2 2 = [49;44;50;51;52;44;53;54;55;46;56;57] /\
  scan_quantity false [49;44;50;51;52;44;53;54;55;46;56;57] = Ok (mkPQ 123456789 2 true false).
Proof. vm_compute. split; reflexivity. Qed.

(* ---- report columns: quotes are dropped only where the text stays unambiguous ---- *)
Lemma column_symbol_text_cases st sym :
  column_symbol_text st sym = symbol_text sym \/
  (column_symbol_text st sym = sym /\ st_separated st = true /\
   existsb (fun c => c =? 32) sym = false /\ forallb is_digit sym = false).
Proof.
  unfold column_symbol_text.
  destruct (needs_quotes sym); cbn [andb]; [|left; reflexivity].
  destruct (st_separated st); cbn [andb]; [|left; reflexivity].
  destruct (existsb (fun c => c =? 32) sym); cbn [andb negb]; [left; reflexivity|].
  destruct (forallb is_digit sym); cbn [andb negb]; [left; reflexivity|].
  right. repeat split; reflexivity.
Qed.

Lemma column_text_unseparated cp st a :
  st_separated st = false -> amount_text_col cp st a = amount_text cp st a.
Proof.
  intros Hs. unfold amount_text_col, amount_text.
  destruct (acomm a) as [sym|]; [|reflexivity].
  destruct (column_symbol_text_cases st sym) as [E|[_ [E _]]]; [rewrite E; reflexivity|congruence].
Qed.

Lemma column_text_usual_symbol cp st a sym :
  acomm a = Some sym -> needs_quotes sym = false -> amount_text_col cp st a = amount_text cp st a.
Proof.
  intros Hc Hq. unfold amount_text_col, amount_text, column_symbol_text. rewrite Hc, Hq. reflexivity.
Qed.

(* ---- the printed symbol is read back whole: quoted exactly when the reader would stop inside it ---- *)
From LedgerV Require Import Gen.InvalidChars.

Lemma take_while_all (f : Z -> bool) s rest :
  forallb f s = true -> (match rest with [] => True | c :: _ => f c = false end) ->
  take_while f (s ++ rest) = (s, rest).
Proof.
  induction s as [|c s IH]; cbn [forallb app take_while]; intros Hs Hr.
  - destruct rest as [|c r]; [reflexivity|]. cbn [take_while]. rewrite Hr. reflexivity.
  - apply andb_true_iff in Hs as [Hc Hs]. rewrite Hc, (IH Hs Hr). reflexivity.
Qed.

Lemma needs_quotes_false_all_valid sym :
  needs_quotes sym = false -> forallb (fun c => negb (is_invalid c)) sym = true.
Proof.
  unfold needs_quotes. intros H0. apply orb_false_iff in H0 as [H0 _]. revert H0. unfold has_invalid_char.
  induction sym as [|c s IH]; cbn [existsb forallb]; [reflexivity|].
  intros H. apply orb_false_iff in H as [Hc Hs]. unfold is_invalid at 1. rewrite Hc. cbn. exact (IH Hs).
Qed.

Lemma needs_quotes_false_not_reserved sym :
  needs_quotes sym = false -> existsb (str_eqb sym) src_reserved_words = false.
Proof. unfold needs_quotes. intros H. apply orb_false_iff in H as [_ H]. exact H. Qed.

Lemma skip_ws_nonspace c s : is_space c = false -> skip_ws (c :: s) = c :: s.
Proof. intros H. unfold skip_ws. cbn [take_while]. rewrite H. reflexivity. Qed.

(* the reader's first test, written with a boolean test instead of a pattern on the literal 34 *)
Definition read_symbol_bare (s : str) : res (str * str) :=
  let (sym, rest) := take_while (fun c => negb (is_invalid c)) s in
  if existsb (str_eqb sym) src_reserved_words then Ok ([], s) else Ok (sym, rest).

Lemma read_symbol_not_quote c t :
  is_space c = false -> (c =? 34) = false -> read_symbol (c :: t) = read_symbol_bare (c :: t).
Proof.
  intros Hsp Hq. unfold read_symbol. rewrite (skip_ws_nonspace c t Hsp).
  destruct c as [|p|p]; try reflexivity.
  do 6 (destruct p as [p|p|]; try reflexivity). discriminate Hq.
Qed.

Lemma symbol_text_reads_back sym rest c0 s0 :
  sym = c0 :: s0 -> is_space c0 = false ->
  existsb (fun c => c =? 34) sym = false ->
  (match rest with [] => True | c :: _ => is_invalid c = true end) ->
  read_symbol (symbol_text sym ++ rest) = Ok (sym, rest).
Proof.
  intros Hsym Hsp Hq Hrest. unfold symbol_text.
  destruct (needs_quotes sym) eqn:Hn.
  - (* quoted *)
    unfold read_symbol. cbn [app]. rewrite (skip_ws_nonspace 34) by reflexivity.
    rewrite <- app_assoc. cbn [app].
    rewrite (take_while_all (fun c => negb (c =? 34)) sym (34 :: rest)).
    + reflexivity.
    + clear -Hq. induction sym as [|c s IH]; cbn [existsb forallb] in *; [reflexivity|].
      apply orb_false_iff in Hq as [Hc Hs]. rewrite Hc. cbn. exact (IH Hs).
    + reflexivity.
  - (* bare *)
    assert (Hne : (c0 =? 34) = false).
    { subst sym. cbn [existsb] in Hq. apply orb_false_iff in Hq as [Hc _]. exact Hc. }
    rewrite Hsym. cbn [app]. rewrite (read_symbol_not_quote c0 (s0 ++ rest) Hsp Hne).
    unfold read_symbol_bare. change (c0 :: s0 ++ rest) with ((c0 :: s0) ++ rest). rewrite <- Hsym.
    rewrite (take_while_all (fun c => negb (is_invalid c)) sym rest).
    + rewrite (needs_quotes_false_not_reserved sym Hn). reflexivity.
    + apply needs_quotes_false_all_valid. exact Hn.
    + destruct rest as [|c r]; [exact I | rewrite Hrest; reflexivity].
Qed.

(* ---- a format directive fixes what is displayed ---- *)
Lemma learn_f_fixed f p st : fi_fixed f = true -> learn_f f p st = f.
Proof. unfold learn_f. intros ->. reflexivity. Qed.

Lemma learn_f_all_fixed l : forall f, fi_fixed f = true -> learn_f_all f l = f.
Proof.
  unfold learn_f_all. induction l as [|[p st] l IH]; intros f Hf; cbn [fold_left fst snd]; [reflexivity|].
  rewrite (learn_f_fixed f p st Hf). apply IH, Hf.
Qed.

Theorem format_fixes_display f p st l :
  learn_f_all (fix_format f p st) l = fix_format f p st.
Proof. apply learn_f_all_fixed. reflexivity. Qed.

Lemma learn_f_all_free l : forall f, fi_fixed f = false ->
  learn_f_all f l = mkFI (learn_all (fi_info f) l) false.
Proof.
  unfold learn_f_all, learn_all. induction l as [|[p st] l IH]; intros f Hf; cbn [fold_left fst snd].
  - destruct f as [i b]. cbn in Hf. subst b. reflexivity.
  - unfold learn_f at 2. rewrite Hf. rewrite IH by reflexivity. reflexivity.
Qed.

(* before the directive everything is learned as usual; the directive's own amount is learned too; nothing after it *)
Theorem display_info_with_format_directive ci before p st after :
  fi_info (learn_f_all (fix_format (learn_f_all (mkFI ci false) before) p st) after) =
  learn (learn_all ci before) p st.
Proof.
  rewrite format_fixes_display. rewrite (learn_f_all_free before (mkFI ci false) eq_refl).
  unfold fix_format, learn_f. reflexivity.
Qed.
