(* The parser model against the precedence grammar: fuel monotonicity, then
   "every admissible rendering of an abstract expression parses to its tree". *)
From LedgerV Require Import Base.Prelude Base.Round Model.Amount Model.Expr.
Local Open Scope Z_scope.

Section Mono.
Variable cp : comm -> Z.

Definition mono3 (f : nat -> bool -> list tok -> presult) (n : nat) : Prop :=
  forall s ts r, f n s ts = Ok r -> forall m, (n <= m)%nat -> f m s ts = Ok r.

Definition mono_all (n : nat) : Prop :=
  mono3 (parse_value_term cp) n /\
  mono3 (parse_call_expr cp) n /\
  (forall nd ts r, call_loop cp n nd ts = Ok r -> forall m, (n <= m)%nat -> call_loop cp m nd ts = Ok r) /\
  mono3 (parse_unary_expr cp) n /\
  (forall lv, mono3 (fun k => parse_bin cp k lv) n) /\
  (forall lv nd ts r, bin_loop cp n lv nd ts = Ok r -> forall m, (n <= m)%nat -> bin_loop cp m lv nd ts = Ok r) /\
  mono3 (parse_querycolon_expr cp) n /\
  mono3 (parse_comma_expr cp) n /\
  (forall ts r, comma_rest cp n ts = Ok r -> forall m, (n <= m)%nat -> comma_rest cp m ts = Ok r) /\
  mono3 (parse_lambda_expr cp) n /\
  mono3 (parse_assign_expr cp) n /\
  mono3 (parse_value_expr cp) n /\
  (forall ts r, seq_rest cp n ts = Ok r -> forall m, (n <= m)%nat -> seq_rest cp m ts = Ok r).

Lemma parser_mono : forall n, mono_all n.
Proof.
  induction n as [|n IH].
  - unfold mono_all, mono3. repeat split; intros; discriminate.
  - destruct IH as (IHterm & IHcall & IHcloop & IHun & IHbin & IHbloop & IHq & IHcomma & IHcrest
                    & IHlam & IHas & IHve & IHseq).
    unfold mono_all, mono3 in *.
    Ltac useE E Hle IHterm IHcall IHcloop IHun IHbin IHbloop IHq IHcomma IHcrest IHlam IHas IHve IHseq :=
      first [ rewrite (IHterm _ _ _ E _ Hle) | rewrite (IHcall _ _ _ E _ Hle) | rewrite (IHcloop _ _ _ E _ Hle)
            | rewrite (IHun _ _ _ E _ Hle) | rewrite (IHbin _ _ _ _ E _ Hle) | rewrite (IHbloop _ _ _ _ E _ Hle)
            | rewrite (IHq _ _ _ E _ Hle) | rewrite (IHcomma _ _ _ E _ Hle) | rewrite (IHcrest _ _ E _ Hle)
            | rewrite (IHlam _ _ _ E _ Hle) | rewrite (IHas _ _ _ E _ Hle) | rewrite (IHve _ _ _ E _ Hle)
            | rewrite (IHseq _ _ E _ Hle) ].
    Ltac tailE H Hle IHterm IHcall IHcloop IHun IHbin IHbloop IHq IHcomma IHcrest IHlam IHas IHve IHseq :=
      first [ exact (IHterm _ _ _ H _ Hle) | exact (IHcall _ _ _ H _ Hle) | exact (IHcloop _ _ _ H _ Hle)
            | exact (IHun _ _ _ H _ Hle) | exact (IHbin _ _ _ _ H _ Hle) | exact (IHbloop _ _ _ _ H _ Hle)
            | exact (IHq _ _ _ H _ Hle) | exact (IHcomma _ _ _ H _ Hle) | exact (IHcrest _ _ H _ Hle)
            | exact (IHlam _ _ _ H _ Hle) | exact (IHas _ _ _ H _ Hle) | exact (IHve _ _ _ H _ Hle)
            | exact (IHseq _ _ H _ Hle) ].
    Ltac mstep Hle IHterm IHcall IHcloop IHun IHbin IHbloop IHq IHcomma IHcrest IHlam IHas IHve IHseq :=
      match goal with
      | H : ?L = Ok ?r |- ?L = Ok ?r => exact H
      | H : ?L = Ok _ |- _ =>
          match L with
          | Err _ => discriminate H
          | Ok _ => exact H
          | bind (match ?Y with _ => _ end) _ => revert H; destruct Y eqn:?; intros H
          | bind ?X _ =>
              let E := fresh "E" in
              revert H; destruct X eqn:E; intros H;
              [ useE E Hle IHterm IHcall IHcloop IHun IHbin IHbloop IHq IHcomma IHcrest IHlam IHas IHve IHseq;
                cbn [bind] in H |- *
              | discriminate H ]
          | match ?X with _ => _ end => revert H; destruct X eqn:?; intros H
          | if ?X then _ else _ => revert H; destruct X eqn:?; intros H
          | _ => tailE H Hle IHterm IHcall IHcloop IHun IHbin IHbloop IHq IHcomma IHcrest IHlam IHas IHve IHseq
          end
      end.
    Ltac go Hle IHterm IHcall IHcloop IHun IHbin IHbloop IHq IHcomma IHcrest IHlam IHas IHve IHseq :=
      repeat mstep Hle IHterm IHcall IHcloop IHun IHbin IHbloop IHq IHcomma IHcrest IHlam IHas IHve IHseq.
    repeat split.
    + intros s ts r H m Hm. destruct m as [|m]; [lia|]. assert (Hle : (n <= m)%nat) by lia.
      simpl in H |- *.
      go Hle IHterm IHcall IHcloop IHun IHbin IHbloop IHq IHcomma IHcrest IHlam IHas IHve IHseq.
    + intros s ts r H m Hm. destruct m as [|m]; [lia|]. assert (Hle : (n <= m)%nat) by lia.
      simpl in H |- *.
      go Hle IHterm IHcall IHcloop IHun IHbin IHbloop IHq IHcomma IHcrest IHlam IHas IHve IHseq.
    + intros nd ts r H m Hm. destruct m as [|m]; [lia|]. assert (Hle : (n <= m)%nat) by lia.
      simpl in H |- *.
      go Hle IHterm IHcall IHcloop IHun IHbin IHbloop IHq IHcomma IHcrest IHlam IHas IHve IHseq.
    + intros s ts r H m Hm. destruct m as [|m]; [lia|]. assert (Hle : (n <= m)%nat) by lia.
      simpl in H |- *.
      go Hle IHterm IHcall IHcloop IHun IHbin IHbloop IHq IHcomma IHcrest IHlam IHas IHve IHseq.
    + intros lv s ts r H m Hm. destruct m as [|m]; [lia|]. assert (Hle : (n <= m)%nat) by lia.
      simpl in H |- *.
      go Hle IHterm IHcall IHcloop IHun IHbin IHbloop IHq IHcomma IHcrest IHlam IHas IHve IHseq.
    + intros lv nd ts r H m Hm. destruct m as [|m]; [lia|]. assert (Hle : (n <= m)%nat) by lia.
      simpl in H |- *.
      go Hle IHterm IHcall IHcloop IHun IHbin IHbloop IHq IHcomma IHcrest IHlam IHas IHve IHseq.
    + intros s ts r H m Hm. destruct m as [|m]; [lia|]. assert (Hle : (n <= m)%nat) by lia.
      simpl in H |- *.
      go Hle IHterm IHcall IHcloop IHun IHbin IHbloop IHq IHcomma IHcrest IHlam IHas IHve IHseq.
    + intros s ts r H m Hm. destruct m as [|m]; [lia|]. assert (Hle : (n <= m)%nat) by lia.
      simpl in H |- *.
      go Hle IHterm IHcall IHcloop IHun IHbin IHbloop IHq IHcomma IHcrest IHlam IHas IHve IHseq.
    + intros ts r H m Hm. destruct m as [|m]; [lia|]. assert (Hle : (n <= m)%nat) by lia.
      simpl in H |- *.
      go Hle IHterm IHcall IHcloop IHun IHbin IHbloop IHq IHcomma IHcrest IHlam IHas IHve IHseq.
    + intros s ts r H m Hm. destruct m as [|m]; [lia|]. assert (Hle : (n <= m)%nat) by lia.
      simpl in H |- *.
      go Hle IHterm IHcall IHcloop IHun IHbin IHbloop IHq IHcomma IHcrest IHlam IHas IHve IHseq.
    + intros s ts r H m Hm. destruct m as [|m]; [lia|]. assert (Hle : (n <= m)%nat) by lia.
      simpl in H |- *.
      go Hle IHterm IHcall IHcloop IHun IHbin IHbloop IHq IHcomma IHcrest IHlam IHas IHve IHseq.
    + intros s ts r H m Hm. destruct m as [|m]; [lia|]. assert (Hle : (n <= m)%nat) by lia.
      simpl in H |- *.
      go Hle IHterm IHcall IHcloop IHun IHbin IHbloop IHq IHcomma IHcrest IHlam IHas IHve IHseq.
    + intros ts r H m Hm. destruct m as [|m]; [lia|]. assert (Hle : (n <= m)%nat) by lia.
      simpl in H |- *.
      go Hle IHterm IHcall IHcloop IHun IHbin IHbloop IHq IHcomma IHcrest IHlam IHas IHve IHseq.
Qed.

End Mono.

(* ------------------------------------------------------------------ the grammar *)

Inductive bop := BMul | BDiv | BAdd | BSub | BEq | BNe | BLt | BLe | BGt | BGe | BAnd | BOr.

Inductive aexpr : Type :=
| AVal (v : value)
| AId (s : str)
| ANeg (e : aexpr)
| ANot (e : aexpr)
| ABin (o : bop) (a b : aexpr)
| ATern (c a b : aexpr).

Definition bop_level (o : bop) : blevel :=
  match o with
  | BMul | BDiv => LMul
  | BAdd | BSub => LAdd
  | BEq | BNe | BLt | BLe | BGt | BGe => LLogic
  | BAnd => LAnd
  | BOr => LOr
  end.

Definition bop_kind (o : bop) : kind2 * bool :=
  match o with
  | BMul => (KMul, false) | BDiv => (KDiv, false) | BAdd => (KAdd, false) | BSub => (KSub, false)
  | BEq => (KEq, false) | BNe => (KEq, true) | BLt => (KLt, false) | BLe => (KLte, false)
  | BGt => (KGt, false) | BGe => (KGte, false) | BAnd => (KAnd, false) | BOr => (KOr, false)
  end.

(* the canonical token of an operator; `div` is the other token of BDiv (R_bin accepts both) *)
Definition bop_tok (o : bop) : tok :=
  match o with
  | BMul => TStar | BDiv => TSlash | BAdd => TPlus | BSub => TMinus
  | BEq => TEqual | BNe => TNequal | BLt => TLess | BLe => TLessEq
  | BGt => TGreater | BGe => TGreaterEq | BAnd => TAnd | BOr => TOr
  end.

(* precedence levels, tightest = 7:  0 ?:   1 |   2 &   3 comparisons   4 + -   5 * /
   6 unary - !   7 literals, identifiers, parenthesised expressions *)
Definition lvn (lv : blevel) : nat :=
  match lv with LOr => 1 | LAnd => 2 | LLogic => 3 | LAdd => 4 | LMul => 5 end%nat.

Section Grammar.
Variable cp : comm -> Z.

Definition neg_node (t : op) : op :=
  match t with
  | OValue v => match v_neg v with Ok w => OValue w | Err _ => OUn KNeg t end
  | _ => OUn KNeg t
  end.
Definition not_node (t : op) : op :=
  match t with
  | OValue v => match v_not_inplace cp v with Ok w => OValue w | Err _ => OUn KNot t end
  | _ => OUn KNot t
  end.

(* the tree the documented grammar assigns (a sign or a negation in front of a literal is
   folded into the literal, `a != b` is `!(a == b)`) *)
Fixpoint tree (e : aexpr) : op :=
  match e with
  | AVal v => OValue v
  | AId s => OIdent s None
  | ANeg a => neg_node (tree a)
  | ANot a => not_node (tree a)
  | ABin o a b => mk_bin (fst (bop_kind o)) (snd (bop_kind o)) (tree a) (tree b)
  | ATern c a b => OBin KQuery (tree c) (Some (OBin KColon (tree a) (Some (tree b))))
  end.

(* literals are amounts or booleans, never the null value *)
Fixpoint wfv (e : aexpr) : Prop :=
  match e with
  | AVal v => v <> VVoid
  | AId _ => True
  | ANeg a | ANot a => wfv a
  | ABin _ a b => wfv a /\ wfv b
  | ATern c a b => wfv c /\ wfv a /\ wfv b
  end.

(* "ts is a way of writing e where an expression of level >= l is expected": operators need
   parentheses exactly when the precedence table says so, redundant parentheses are allowed
   anywhere, binary operators associate to the left *)
Inductive R : nat -> aexpr -> list tok -> Prop :=
| R_val v : R 7 (AVal v) [TVal v]
| R_id s : R 7 (AId s) [TIdent s]
| R_paren e ts : R 0 e ts -> R 7 e (TLParen :: ts ++ [TRParen])
| R_neg e ts : R 7 e ts -> R 6 (ANeg e) (TMinus :: ts)
| R_not e ts : R 7 e ts -> R 6 (ANot e) (TExclam :: ts)
| R_bin o t a b ta tb :
    level_op (bop_level o) t = Some (bop_kind o) ->
    R (lvn (bop_level o)) a ta -> R (S (lvn (bop_level o))) b tb ->
    R (lvn (bop_level o)) (ABin o a b) (ta ++ t :: tb)
| R_tern c a b tc ta tb :
    R 1 c tc -> R 1 a ta -> R 1 b tb ->
    R 0 (ATern c a b) (tc ++ TQuery :: ta ++ TColon :: tb)
| R_up l e ts : (l < 7)%nat -> R (S l) e ts -> R l e ts.

(* the level at which a token continues an expression (operator context) *)
Definition cont_level (t : tok) : option nat :=
  match t with
  | TLParen => Some 7
  | TStar | TSlash | TKwDiv => Some 5
  | TPlus | TMinus => Some 4
  | TEqual | TNequal | TLess | TLessEq | TGreater | TGreaterEq => Some 3
  | TAnd => Some 2
  | TOr => Some 1
  | TQuery | TKwIf | TComma | TArrow | TAssign | TSemi => Some 0
  | _ => None
  end%nat.

Definition hd_ok (p : tok -> bool) (rest : list tok) : Prop :=
  match rest with [] => True | t :: _ => p t = true end.

(* what may follow an expression written at level l *)
Definition stop (l : nat) (rest : list tok) : Prop :=
  hd_ok (fun t => match cont_level t with Some k => Nat.ltb k l | None => true end) rest.
(* ... when the level-l loop itself may still continue *)
Definition tstop (l : nat) (rest : list tok) : Prop :=
  hd_ok (fun t => match cont_level t with Some k => Nat.leb k l | None => true end) rest.

Definition P_at (l n : nat) (ts : list tok) : presult :=
  match l with
  | 0 => parse_value_expr cp n false ts
  | 1 => parse_bin cp n LOr false ts
  | 2 => parse_bin cp n LAnd false ts
  | 3 => parse_bin cp n LLogic false ts
  | 4 => parse_bin cp n LAdd false ts
  | 5 => parse_bin cp n LMul false ts
  | 6 => parse_unary_expr cp n false ts
  | _ => parse_call_expr cp n false ts
  end%nat.

Definition PV (l : nat) (ts : list tok) (r : option op * list tok) : Prop :=
  exists n, P_at l n ts = Ok r.
Definition BL (lv : blevel) (nd : op) (ts : list tok) (r : option op * list tok) : Prop :=
  exists n, bin_loop cp n lv nd ts = Ok r.

Lemma mono_at l n m ts r : P_at l n ts = Ok r -> (n <= m)%nat -> P_at l m ts = Ok r.
Proof.
  intros H Hle. destruct (parser_mono cp n) as (M1 & M2 & M3 & M4 & M5 & M6 & M7 & M8 & M9 & M10 & M11 & M12 & M13).
  do 7 (destruct l as [|l]; [cbn [P_at] in *; first [eapply M12 | eapply (M5 _) | eapply M4]; eassumption|]).
  cbn [P_at] in *. eapply M2; eassumption.
Qed.

Lemma mono_loop lv n m nd ts r : bin_loop cp n lv nd ts = Ok r -> (n <= m)%nat -> bin_loop cp m lv nd ts = Ok r.
Proof.
  intros H Hle. destruct (parser_mono cp n) as (_ & _ & _ & _ & _ & M6 & _). eapply M6; eassumption.
Qed.

(* parse_bin = lower level, then the loop *)
Lemma PV_bin lv ts nd r1 res :
  PV (S (lvn lv)) ts (Some nd, r1) -> BL lv nd r1 res -> PV (lvn lv) ts res.
Proof.
  intros [n1 H1] [n2 H2]. exists (S (Nat.max n1 n2)).
  apply (mono_at _ _ (Nat.max n1 n2)) in H1; [|lia].
  apply (mono_loop _ _ (Nat.max n1 n2)) in H2; [|lia].
  destruct lv; cbn [P_at lvn] in *; simpl; rewrite H1; cbn [bind fst snd]; exact H2.
Qed.

Lemma BL_step lv t k neg nd r rh r2 res :
  level_op lv t = Some (k, neg) ->
  PV (S (lvn lv)) r (Some rh, r2) -> BL lv (mk_bin k neg nd rh) r2 res ->
  BL lv nd (t :: r) res.
Proof.
  intros Hop [n1 H1] [n2 H2]. exists (S (Nat.max n1 n2)).
  apply (mono_at _ _ (Nat.max n1 n2)) in H1; [|lia].
  apply (mono_loop _ _ (Nat.max n1 n2)) in H2; [|lia].
  destruct lv; cbn [P_at lvn] in *; simpl; simpl in Hop; rewrite Hop, H1; cbn [bind fst snd]; exact H2.
Qed.

Lemma level_op_cont lv t x : level_op lv t = Some x -> cont_level t = Some (lvn lv).
Proof. destruct lv, t; cbn; intros H; try discriminate H; reflexivity. Qed.

Lemma BL_stop lv nd rest : stop (lvn lv) rest -> BL lv nd rest (Some nd, rest).
Proof.
  intros Hs. exists 1%nat. destruct rest as [|t rest]; [reflexivity|].
  cbn [bin_loop]. destruct (level_op lv t) as [[k neg]|] eqn:E; [|reflexivity].
  apply level_op_cont in E. cbn [stop hd_ok] in Hs. rewrite E in Hs.
  rewrite Nat.ltb_irrefl in Hs. discriminate Hs.
Qed.

Lemma stop_weaken l l' rest : (l <= l')%nat -> stop l rest -> stop l' rest.
Proof.
  intros Hle. destruct rest as [|t rest]; [trivial|]. cbn [stop hd_ok].
  destruct (cont_level t) as [k|]; [|trivial].
  intros H. apply Nat.ltb_lt in H. apply Nat.ltb_lt. lia.
Qed.

Lemma tstop_stop l rest : tstop l rest -> stop (S l) rest.
Proof.
  destruct rest as [|t rest]; [trivial|]. cbn [stop tstop hd_ok].
  destruct (cont_level t) as [k|]; [|trivial].
  intros H. apply Nat.leb_le in H. apply Nat.ltb_lt. lia.
Qed.

Lemma stop_tstop l rest : stop l rest -> tstop l rest.
Proof.
  destruct rest as [|t rest]; [trivial|]. cbn [stop tstop hd_ok].
  destruct (cont_level t) as [k|]; [|trivial].
  intros H. apply Nat.ltb_lt in H. apply Nat.leb_le. lia.
Qed.

Lemma tstop_cons lv t x rest : level_op lv t = Some x -> tstop (lvn lv) (t :: rest).
Proof. intros H. apply level_op_cont in H. cbn [tstop hd_ok]. rewrite H. apply Nat.leb_refl. Qed.


(* unfolding equations (the functions are one mutual fixpoint) *)
Lemma term_val_eq n s v r : parse_value_term cp (S n) s (TVal v :: r) = Ok (Some (OValue v), r).
Proof. reflexivity. Qed.
Lemma term_id_eq n s x r : parse_value_term cp (S n) s (TIdent x :: r) = Ok (Some (OIdent x None), r).
Proof. reflexivity. Qed.
Lemma term_paren_eq n s r :
  parse_value_term cp (S n) s (TLParen :: r) =
  do x <- parse_value_expr cp n false r;
  match snd x with TRParen :: r2 => Ok (fst x, r2) | _ => Err EOther end.
Proof. reflexivity. Qed.
Lemma call_eq n single ts :
  parse_call_expr cp (S n) single ts =
  do x <- parse_value_term cp n single ts;
  match fst x with
  | None => Ok x
  | Some nd => if single then Ok x else call_loop cp n nd (snd x)
  end.
Proof. reflexivity. Qed.
Lemma cloop_eq n nd ts :
  call_loop cp (S n) nd ts =
  match ts with
  | TLParen :: _ => do x <- parse_value_expr cp n true ts; call_loop cp n (OBin KCall nd (fst x)) (snd x)
  | _ => Ok (Some nd, ts)
  end.
Proof. reflexivity. Qed.
Lemma unary_eq n single ts :
  parse_unary_expr cp (S n) single ts =
  match ts with
  | TExclam :: r =>
      do x <- parse_call_expr cp n single r;
      (match fst x with
       | None => Err EOther
       | Some (OValue v) => do b <- v_not_inplace cp v; Ok (Some (OValue b), snd x)
       | Some t => Ok (Some (OUn KNot t), snd x)
       end)
  | TMinus :: r =>
      do x <- parse_call_expr cp n single r;
      (match fst x with
       | None => Err EOther
       | Some (OValue v) => do b <- v_neg v; Ok (Some (OValue b), snd x)
       | Some t => Ok (Some (OUn KNeg t), snd x)
       end)
  | _ => parse_call_expr cp n single ts
  end.
Proof. reflexivity. Qed.
Lemma query_eq n ts :
  parse_querycolon_expr cp (S n) false ts =
  do x <- parse_bin cp n LOr false ts;
  match fst x with
  | None => Ok x
  | Some nd =>
    match snd x with
    | TQuery :: r =>
        do y <- parse_bin cp n LOr false r;
        (match fst y, snd y with
         | Some a, TColon :: r2 =>
             do z <- parse_bin cp n LOr false r2;
             (match fst z with
              | Some b => Ok (Some (OBin KQuery nd (Some (OBin KColon a (Some b)))), snd z)
              | None => Err EOther
              end)
         | _, _ => Err EOther
         end)
    | TKwIf :: r =>
        do y <- parse_bin cp n LOr false r;
        (match fst y with
         | None => Err EOther
         | Some c =>
             match snd y with
             | TKwElse :: r2 =>
                 do z <- parse_bin cp n LOr false r2;
                 (match fst z with
                  | Some b => Ok (Some (OBin KQuery c (Some (OBin KColon nd (Some b)))), snd z)
                  | None => Err EOther
                  end)
             | r2 => Ok (Some (OBin KQuery c (Some (OBin KColon nd (Some (OValue VVoid))))), r2)
             end
         end)
    | _ => Ok x
    end
  end.
Proof. reflexivity. Qed.
Lemma comma_eq n ts :
  parse_comma_expr cp (S n) false ts =
  do x <- parse_querycolon_expr cp n false ts;
  match fst x with
  | None => Ok x
  | Some nd =>
    match snd x with
    | TComma :: r => do y <- comma_rest cp n r; Ok (Some (OBin KCons nd (fst y)), snd y)
    | _ => Ok x
    end
  end.
Proof. reflexivity. Qed.
Lemma lambda_eq n ts :
  parse_lambda_expr cp (S n) false ts =
  do x <- parse_comma_expr cp n false ts;
  match fst x with
  | None => Ok x
  | Some nd =>
    match snd x with
    | TArrow :: r =>
        do y <- parse_querycolon_expr cp n false r;
        (match fst y with
         | Some b => Ok (Some (OBin KLambda nd (Some (OScope b))), snd y)
         | None => Err EOther
         end)
    | _ => Ok x
    end
  end.
Proof. reflexivity. Qed.
Lemma assign_eq n ts :
  parse_assign_expr cp (S n) false ts =
  do x <- parse_lambda_expr cp n false ts;
  match fst x with
  | None => Ok x
  | Some nd =>
    match snd x with
    | TAssign :: r =>
        do y <- parse_lambda_expr cp n false r;
        (match fst y with
         | Some b => Ok (Some (OBin KDefine nd (Some (OScope b))), snd y)
         | None => Err EOther
         end)
    | _ => Ok x
    end
  end.
Proof. reflexivity. Qed.
Lemma vexpr_eq n ts :
  parse_value_expr cp (S n) false ts =
  do x <- parse_assign_expr cp n false ts;
  match fst x with
  | None => Ok x
  | Some nd =>
    match snd x with
    | TSemi :: r => do y <- seq_rest cp n r; Ok (Some (OBin KSeq nd (fst y)), snd y)
    | _ => Ok x
    end
  end.
Proof. reflexivity. Qed.

(* ---- level 7: literal, identifier, parenthesised expression *)
Lemma not_lparen rest : stop 7 rest -> match rest with TLParen :: _ => False | _ => True end.
Proof. destruct rest as [|[]]; cbn; trivial. intros H; discriminate H. Qed.

Lemma PV7_atom nd t rest :
  (forall n single, parse_value_term cp (S n) single (t :: rest) = Ok (Some nd, rest)) ->
  stop 7 rest -> PV 7 (t :: rest) (Some nd, rest).
Proof.
  intros H Hs. exists 3%nat. cbn [P_at]. rewrite call_eq, H. cbn [bind fst snd].
  rewrite cloop_eq. apply not_lparen in Hs. destruct rest as [|[]]; try reflexivity. contradiction.
Qed.

Lemma PV7_paren ts nd rest :
  PV 0 (ts ++ TRParen :: rest) (Some nd, TRParen :: rest) -> stop 7 rest ->
  PV 7 (TLParen :: ts ++ TRParen :: rest) (Some nd, rest).
Proof.
  intros [n H] Hs. exists (S (S (S n))). cbn [P_at].
  assert (E : parse_value_term cp (S (S n)) false (TLParen :: ts ++ TRParen :: rest) = Ok (Some nd, rest)).
  { rewrite term_paren_eq. pose proof (mono_at 0 _ (S n) _ _ H) as H'. cbn [P_at] in H'.
    rewrite H' by lia. reflexivity. }
  rewrite call_eq, E. cbn [bind fst snd]. rewrite cloop_eq.
  apply not_lparen in Hs. destruct rest as [|[]]; try reflexivity. contradiction.
Qed.

(* ---- level 6 *)
Lemma PV6_of_7 ts r :
  PV 7 ts r -> match ts with TExclam :: _ | TMinus :: _ => False | _ => True end -> PV 6 ts r.
Proof.
  intros [n H] Hh. exists (S n). cbn [P_at] in *. rewrite unary_eq.
  destruct ts as [|[]]; try exact H; contradiction.
Qed.

Lemma PV6_neg ts t r :
  PV 7 ts (Some t, r) ->
  (forall v, t = OValue v -> exists w, v_neg v = Ok w) ->
  PV 6 (TMinus :: ts) (Some (neg_node t), r).
Proof.
  intros [n H] Hv. exists (S n). cbn [P_at] in *. rewrite unary_eq, H. cbn [bind fst snd].
  destruct t; try reflexivity. destruct (Hv _ eq_refl) as [w Hw]. cbn [neg_node]. rewrite Hw. reflexivity.
Qed.

Lemma PV6_not ts t r :
  PV 7 ts (Some t, r) ->
  (forall v, t = OValue v -> exists w, v_not_inplace cp v = Ok w) ->
  PV 6 (TExclam :: ts) (Some (not_node t), r).
Proof.
  intros [n H] Hv. exists (S n). cbn [P_at] in *. rewrite unary_eq, H. cbn [bind fst snd].
  destruct t; try reflexivity. destruct (Hv _ eq_refl) as [w Hw]. cbn [not_node]. rewrite Hw. reflexivity.
Qed.

(* ---- level 0: nothing of ?: , -> = ; follows *)
Lemma PV0_of_1 ts nd rest : PV 1 ts (Some nd, rest) -> stop 0 rest -> PV 0 ts (Some nd, rest).
Proof.
  intros [n H] Hs. exists (S (S (S (S (S n))))). cbn [P_at] in *.
  assert (Q : parse_querycolon_expr cp (S n) false ts = Ok (Some nd, rest)).
  { rewrite query_eq, H. cbn [bind fst snd]. destruct rest as [|t rest]; [reflexivity|].
    cbn [stop hd_ok] in Hs. destruct t; cbn in Hs; try discriminate Hs; reflexivity. }
  rewrite vexpr_eq, assign_eq, lambda_eq, comma_eq, Q. cbn [bind fst snd].
  destruct rest as [|t rest]; [reflexivity|].
  cbn [stop hd_ok] in Hs. destruct t; cbn in Hs; try discriminate Hs; reflexivity.
Qed.

Lemma PV0_tern tc ta tb c a b rest :
  PV 1 (tc ++ TQuery :: ta ++ TColon :: tb ++ rest) (Some c, TQuery :: ta ++ TColon :: tb ++ rest) ->
  PV 1 (ta ++ TColon :: tb ++ rest) (Some a, TColon :: tb ++ rest) ->
  PV 1 (tb ++ rest) (Some b, rest) -> stop 0 rest ->
  PV 0 (tc ++ TQuery :: ta ++ TColon :: tb ++ rest)
       (Some (OBin KQuery c (Some (OBin KColon a (Some b)))), rest).
Proof.
  intros [n1 H1] [n2 H2] [n3 H3] Hs.
  set (n := Nat.max n1 (Nat.max n2 n3)).
  apply (mono_at _ _ n) in H1; [|lia]. apply (mono_at _ _ n) in H2; [|lia]. apply (mono_at _ _ n) in H3; [|lia].
  exists (S (S (S (S (S n))))). cbn [P_at] in *.
  assert (Q : parse_querycolon_expr cp (S n) false (tc ++ TQuery :: ta ++ TColon :: tb ++ rest) =
              Ok (Some (OBin KQuery c (Some (OBin KColon a (Some b)))), rest)).
  { rewrite query_eq, H1. cbn [bind fst snd]. rewrite H2. cbn [bind fst snd]. rewrite H3. reflexivity. }
  rewrite vexpr_eq, assign_eq, lambda_eq, comma_eq, Q. cbn [bind fst snd].
  destruct rest as [|t rest]; [reflexivity|].
  cbn [stop hd_ok] in Hs. destruct t; cbn in Hs; try discriminate Hs; reflexivity.
Qed.

(* ---- values stay non-null *)
Lemma tree_value_nonvoid e v : wfv e -> tree e = OValue v -> v <> VVoid.
Proof.
  revert v. induction e as [v0|s|a IH|a IH|o a IHa b IHb|c IHc a IHa b IHb]; intros v W H; cbn [tree] in H.
  - injection H as <-. exact W.
  - discriminate H.
  - cbn [wfv] in W. destruct (tree a) as [v1| | | | | |] eqn:E; cbn [neg_node] in H; try discriminate H.
    specialize (IH _ W eq_refl). destruct v1; cbn in H; try discriminate H; try (injection H as <-; discriminate).
  - cbn [wfv] in W. destruct (tree a) as [v1| | | | | |] eqn:E; cbn [not_node] in H; try discriminate H.
    specialize (IH _ W eq_refl). destruct v1; cbn in H; try discriminate H; try (injection H as <-; discriminate).
  - unfold mk_bin in H. destruct (snd (bop_kind o)); discriminate H.
  - discriminate H.
Qed.

Lemma neg_ok v : v <> VVoid -> exists w, v_neg v = Ok w.
Proof. destruct v; intros H; try (eexists; reflexivity). contradiction H; reflexivity. Qed.
Lemma not_ok v : v <> VVoid -> exists w, v_not_inplace cp v = Ok w.
Proof. destruct v; intros H; try (eexists; reflexivity). contradiction H; reflexivity. Qed.

Lemma R7_head e ts : R 7 e ts -> match ts with TVal _ :: _ | TIdent _ :: _ | TLParen :: _ => True | _ => False end.
Proof.
  intros H. remember 7%nat as l eqn:El. induction H; try discriminate El; cbn; trivial.
  - destruct o; cbn in El; discriminate El.
  - lia.
Qed.


(* ---- the main induction *)
Definition Done (l : nat) (e : aexpr) (ts : list tok) : Prop :=
  forall rest, stop l rest -> PV l (ts ++ rest) (Some (tree e), rest).
Definition Cont (lv : blevel) (e : aexpr) (ts : list tok) : Prop :=
  forall rest res, tstop (lvn lv) rest -> BL lv (tree e) rest res -> PV (lvn lv) (ts ++ rest) res.

Lemma Cont_Done lv e ts : Cont lv e ts -> Done (lvn lv) e ts.
Proof. intros C rest Hs. apply C; [apply stop_tstop; exact Hs | apply BL_stop; exact Hs]. Qed.

Lemma Done_up_bin lv e ts : Done (S (lvn lv)) e ts -> Cont lv e ts.
Proof.
  intros D rest res Ht B. eapply PV_bin; [apply D; apply tstop_stop; exact Ht | exact B].
Qed.

Lemma lvn_inj a b : lvn a = lvn b -> a = b.
Proof. destruct a, b; cbn; intros H; try discriminate H; reflexivity. Qed.

Lemma no_lvn_0 lv : 0%nat <> lvn lv. Proof. destruct lv; discriminate. Qed.
Lemma no_lvn_6 lv : 6%nat <> lvn lv. Proof. destruct lv; discriminate. Qed.
Lemma no_lvn_7 lv : 7%nat <> lvn lv. Proof. destruct lv; discriminate. Qed.

Lemma render_parses : forall l e ts, R l e ts -> wfv e ->
  Done l e ts /\ (forall lv, l = lvn lv -> Cont lv e ts).
Proof.
  induction 1 as [v|s|e ts HR IH|e ts HR IH|e ts HR IH|o t a b ta tb Hop HRa IHa HRb IHb
                 |c a b tc ta tb HRc IHc HRa IHa HRb IHb|l e ts Hl HR IH]; intros W.
  - split; [|intros lv E; destruct (no_lvn_7 _ E)].
    intros rest Hs. cbn [app tree]. apply PV7_atom; [intros; apply term_val_eq | exact Hs].
  - split; [|intros lv E; destruct (no_lvn_7 _ E)].
    intros rest Hs. cbn [app tree]. apply PV7_atom; [intros; apply term_id_eq | exact Hs].
  - split; [|intros lv E; destruct (no_lvn_7 _ E)].
    intros rest Hs. cbn [app]. rewrite <- app_assoc. cbn [app].
    apply PV7_paren; [|exact Hs]. apply (proj1 (IH W)). cbn. reflexivity.
  - cbn [wfv] in W. split; [|intros lv E; destruct (no_lvn_6 _ E)].
    intros rest Hs. cbn [app tree]. apply PV6_neg.
    + apply (proj1 (IH W)). eapply stop_weaken; [|exact Hs]. lia.
    + intros v E. apply neg_ok. eapply tree_value_nonvoid; eassumption.
  - cbn [wfv] in W. split; [|intros lv E; destruct (no_lvn_6 _ E)].
    intros rest Hs. cbn [app tree]. apply PV6_not.
    + apply (proj1 (IH W)). eapply stop_weaken; [|exact Hs]. lia.
    + intros v E. apply not_ok. eapply tree_value_nonvoid; eassumption.
  - cbn [wfv] in W. destruct W as [Wa Wb].
    assert (C : Cont (bop_level o) (ABin o a b) (ta ++ t :: tb)).
    { intros rest res Ht B. rewrite <- app_assoc. cbn [app].
      apply (proj2 (IHa Wa) (bop_level o) eq_refl).
      - eapply tstop_cons; exact Hop.
      - eapply BL_step.
        + rewrite Hop. rewrite (surjective_pairing (bop_kind o)). reflexivity.
        + apply (proj1 (IHb Wb)). apply tstop_stop. exact Ht.
        + exact B. }
    split; [apply Cont_Done; exact C|].
    intros lv E. apply lvn_inj in E. subst lv. exact C.
  - cbn [wfv] in W. destruct W as (Wc & Wa & Wb).
    split; [|intros lv E; destruct (no_lvn_0 _ E)].
    intros rest Hs.
    replace ((tc ++ TQuery :: ta ++ TColon :: tb) ++ rest)
      with (tc ++ TQuery :: ta ++ TColon :: tb ++ rest)
      by (rewrite <- app_assoc; cbn [app]; rewrite <- app_assoc; reflexivity).
    cbn [tree]. apply PV0_tern.
    + apply (proj1 (IHc Wc)). cbn. reflexivity.
    + apply (proj1 (IHa Wa)). cbn. reflexivity.
    + apply (proj1 (IHb Wb)). eapply stop_weaken; [|exact Hs]. lia.
    + exact Hs.
  - specialize (IH W). destruct IH as [D _].
    destruct l as [|[|[|[|[|[|[|l]]]]]]]; [| | | | | | |lia].
    + split; [|intros lv E; destruct (no_lvn_0 _ E)].
      intros rest Hs. apply PV0_of_1; [|exact Hs]. apply D. eapply stop_weaken; [|exact Hs]. lia.
    + assert (C : Cont LOr e ts) by (apply Done_up_bin; exact D).
      split; [apply (Cont_Done LOr); exact C|]. intros lv E. apply (lvn_inj LOr) in E. subst lv. exact C.
    + assert (C : Cont LAnd e ts) by (apply Done_up_bin; exact D).
      split; [apply (Cont_Done LAnd); exact C|]. intros lv E. apply (lvn_inj LAnd) in E. subst lv. exact C.
    + assert (C : Cont LLogic e ts) by (apply Done_up_bin; exact D).
      split; [apply (Cont_Done LLogic); exact C|]. intros lv E. apply (lvn_inj LLogic) in E. subst lv. exact C.
    + assert (C : Cont LAdd e ts) by (apply Done_up_bin; exact D).
      split; [apply (Cont_Done LAdd); exact C|]. intros lv E. apply (lvn_inj LAdd) in E. subst lv. exact C.
    + assert (C : Cont LMul e ts) by (apply Done_up_bin; exact D).
      split; [apply (Cont_Done LMul); exact C|]. intros lv E. apply (lvn_inj LMul) in E. subst lv. exact C.
    + split; [|intros lv E; destruct (no_lvn_6 _ E)].
      intros rest Hs. apply PV6_of_7.
      * apply D. eapply stop_weaken; [|exact Hs]. lia.
      * pose proof (R7_head _ _ HR) as Hh. destruct ts as [|[]]; cbn [app]; trivial; contradiction.
Qed.

(* every admissible way of writing e parses to the tree of e *)
Theorem rendering_parses e ts :
  R 0 e ts -> wfv e ->
  exists n0, forall n, (n0 <= n)%nat -> parse cp n ts = Ok (Some (tree e)).
Proof.
  intros HR W. destruct (proj1 (render_parses _ _ _ HR W) [] I) as [n0 H].
  rewrite app_nil_r in H. exists n0. intros n Hn. unfold parse.
  pose proof (mono_at 0 _ n _ _ H Hn) as H'. cbn [P_at] in H'. rewrite H'. reflexivity.
Qed.

(* ---- the printer with the fewest parentheses *)
Definition elevel (e : aexpr) : nat :=
  match e with
  | AVal _ | AId _ => 7
  | ANeg _ | ANot _ => 6
  | ABin o _ _ => lvn (bop_level o)
  | ATern _ _ _ => 0
  end%nat.

Fixpoint show (l : nat) (e : aexpr) : list tok :=
  let body :=
    match e with
    | AVal v => [TVal v]
    | AId s => [TIdent s]
    | ANeg a => TMinus :: show 7 a
    | ANot a => TExclam :: show 7 a
    | ABin o a b => show (lvn (bop_level o)) a ++ bop_tok o :: show (S (lvn (bop_level o))) b
    | ATern c a b => show 1 c ++ TQuery :: show 1 a ++ TColon :: show 1 b
    end in
  if Nat.ltb (elevel e) l then TLParen :: body ++ [TRParen] else body.

Definition show_min (e : aexpr) : list tok := show 0 e.

Lemma R_down e ts : forall d l, (l + d <= 7)%nat -> R (l + d) e ts -> R l e ts.
Proof.
  induction d as [|d IH]; intros l Hl H.
  - rewrite Nat.add_0_r in H. exact H.
  - apply IH; [lia|]. apply R_up; [lia|]. replace (S (l + d)) with (l + S d)%nat by lia. exact H.
Qed.

Lemma R_le e ts l l' : (l' <= l)%nat -> (l <= 7)%nat -> R l e ts -> R l' e ts.
Proof. intros H1 H2 H. apply (R_down e ts (l - l') l'); [lia|]. replace (l' + (l - l'))%nat with l by lia. exact H. Qed.

Lemma bop_tok_op o : level_op (bop_level o) (bop_tok o) = Some (bop_kind o).
Proof. destruct o; reflexivity. Qed.

Lemma lvn_le lv : (S (lvn lv) <= 7)%nat. Proof. destruct lv; cbn; lia. Qed.

Lemma show_R : forall e l, (l <= 7)%nat -> R l e (show l e).
Proof.
  assert (wrap : forall e body l, (l <= 7)%nat -> (elevel e <= 7)%nat -> R (elevel e) e body ->
            R l e (if Nat.ltb (elevel e) l then TLParen :: body ++ [TRParen] else body)).
  { intros e body l Hl He HR. destruct (Nat.ltb (elevel e) l) eqn:E.
    - apply (R_le _ _ 7); [exact Hl|lia|]. apply R_paren. apply (R_le _ _ (elevel e)); [lia|exact He|exact HR].
    - apply Nat.ltb_ge in E. apply (R_le _ _ (elevel e)); [exact E|exact He|exact HR]. }
  induction e as [v|s|a IH|a IH|o a IHa b IHb|c IHc a IHa b IHb]; intros l Hl; cbn [show].
  - apply wrap; [exact Hl|cbn; lia|apply R_val].
  - apply wrap; [exact Hl|cbn; lia|apply R_id].
  - apply wrap; [exact Hl|cbn; lia|]. apply R_neg. apply IH. lia.
  - apply wrap; [exact Hl|cbn; lia|]. apply R_not. apply IH. lia.
  - pose proof (lvn_le (bop_level o)).
    apply wrap; [exact Hl|cbn [elevel]; lia|]. cbn [elevel].
    apply R_bin; [apply bop_tok_op|apply IHa; lia|apply IHb; lia].
  - apply wrap; [exact Hl|cbn; lia|]. cbn [elevel].
    apply R_tern; [apply IHc|apply IHa|apply IHb]; lia.
Qed.

Theorem parse_show_min_all e :
  wfv e -> exists n0, forall n, (n0 <= n)%nat -> parse cp n (show_min e) = Ok (Some (tree e)).
Proof. intros W. apply rendering_parses; [apply show_R; lia|exact W]. Qed.


(* ---- op_t::print (fully parenthesised) parses back ---- *)
(* literals carry their sign: no - or ! directly in front of something that is a literal *)
Fixpoint normal (e : aexpr) : Prop :=
  match e with
  | ANeg a | ANot a => is_value (tree a) = false /\ normal a
  | ABin _ a b => normal a /\ normal b
  | ATern c a b => normal c /\ normal a /\ normal b
  | _ => True
  end.

Lemma print_value v : v <> VVoid -> print (OValue v) = [TVal v].
Proof. destruct v; intros H; try reflexivity. contradiction H; reflexivity. Qed.

Lemma print_un_neg t : print (OUn KNeg t) = TLParen :: TMinus :: print t ++ [TRParen].
Proof. reflexivity. Qed.
Lemma print_un_not t : print (OUn KNot t) = TLParen :: TExclam :: print t ++ [TRParen].
Proof. reflexivity. Qed.
Lemma print_bop o l r :
  snd (bop_kind o) = false ->
  print (OBin (fst (bop_kind o)) l (Some r)) = TLParen :: print l ++ [bop_tok o] ++ print r ++ [TRParen].
Proof. destruct o; intros H; try discriminate H; reflexivity. Qed.

Lemma print_query c a b :
  print (OBin KQuery c (Some (OBin KColon a (Some b)))) =
  TLParen :: (print c ++ TQuery :: print a ++ TColon :: print b) ++ [TRParen].
Proof. unfold print. cbn [pp fst snd bin_tok app]. rewrite <- !app_assoc. cbn [app]. rewrite <- !app_assoc. reflexivity. Qed.

Lemma neg_node_nonvalue t : is_value t = false -> neg_node t = OUn KNeg t.
Proof. destruct t; cbn; intros H; try reflexivity; discriminate H. Qed.
Lemma not_node_nonvalue t : is_value t = false -> not_node t = OUn KNot t.
Proof. destruct t; cbn; intros H; try reflexivity; discriminate H. Qed.

Lemma R_paren_at e ts l : (l <= 7)%nat -> R l e ts -> R 7 e (TLParen :: ts ++ [TRParen]).
Proof. intros Hl H. apply R_paren. apply (R_le _ _ l); [lia|exact Hl|exact H]. Qed.

Lemma R_paren_bin o a b pa pb :
  R 7 a pa -> R 7 b pb -> R 7 (ABin o a b) (TLParen :: pa ++ [bop_tok o] ++ pb ++ [TRParen]).
Proof.
  intros Ha Hb. pose proof (lvn_le (bop_level o)).
  replace (pa ++ [bop_tok o] ++ pb ++ [TRParen]) with ((pa ++ bop_tok o :: pb) ++ [TRParen])
    by (rewrite <- app_assoc; reflexivity).
  apply (R_paren_at _ _ (lvn (bop_level o))); [lia|].
  apply R_bin; [apply bop_tok_op| |]; (eapply R_le; [|reflexivity|eassumption]); lia.
Qed.

Lemma print_renders : forall e, wfv e -> normal e ->
  exists e', wfv e' /\ tree e' = tree e /\ R 7 e' (print (tree e)).
Proof.
  induction e as [v|s|a IH|a IH|o a IHa b IHb|c IHc a IHa b IHb]; intros W N.
  - exists (AVal v). cbn [tree]. rewrite (print_value _ W). repeat split; [exact W|apply R_val].
  - exists (AId s). repeat split. apply R_id.
  - cbn [wfv normal] in *. destruct N as [Nv N].
    destruct (IH W N) as (a' & Wa & Ea & Ra).
    exists (ANeg a'). cbn [tree wfv]. rewrite Ea, (neg_node_nonvalue _ Nv), print_un_neg.
    repeat split; [exact Wa|]. apply (R_paren_at _ (TMinus :: print (tree a)) 6); [lia|]. apply R_neg. exact Ra.
  - cbn [wfv normal] in *. destruct N as [Nv N].
    destruct (IH W N) as (a' & Wa & Ea & Ra).
    exists (ANot a'). cbn [tree wfv]. rewrite Ea, (not_node_nonvalue _ Nv), print_un_not.
    repeat split; [exact Wa|]. apply (R_paren_at _ (TExclam :: print (tree a)) 6); [lia|]. apply R_not. exact Ra.
  - cbn [wfv normal] in *. destruct W as [W1 W2], N as [N1 N2].
    destruct (IHa W1 N1) as (a' & Wa & Ea & Ra).
    destruct (IHb W2 N2) as (b' & Wb & Eb & Rb).
    destruct (snd (bop_kind o)) eqn:Neg.
    + (* a != b is ! (a == b) *)
      assert (o = BNe) by (destruct o; cbn in Neg; try discriminate Neg; reflexivity). subst o.
      exists (ANot (ABin BEq a' b')). cbn [tree wfv bop_kind fst snd mk_bin not_node]. rewrite Ea, Eb.
      repeat split; [exact Wa|exact Wb|].
      rewrite print_un_not.
      apply (R_paren_at _ (TExclam :: print (OBin KEq (tree a) (Some (tree b)))) 6); [lia|]. apply R_not.
      change (OBin KEq (tree a) (Some (tree b))) with (OBin (fst (bop_kind BEq)) (tree a) (Some (tree b))).
      rewrite (print_bop BEq _ _ eq_refl). apply (R_paren_bin BEq); assumption.
    + exists (ABin o a' b'). cbn [tree wfv]. rewrite Ea, Eb. unfold mk_bin. rewrite Neg.
      repeat split; [exact Wa|exact Wb|].
      rewrite (print_bop _ _ _ Neg). apply R_paren_bin; assumption.
  - cbn [wfv normal] in *. destruct W as (W0 & W1 & W2), N as (N0 & N1 & N2).
    destruct (IHc W0 N0) as (c' & Wc & Ec & Rc).
    destruct (IHa W1 N1) as (a' & Wa & Ea & Ra).
    destruct (IHb W2 N2) as (b' & Wb & Eb & Rb).
    exists (ATern c' a' b'). cbn [tree wfv]. rewrite Ec, Ea, Eb.
    repeat split; [exact Wc|exact Wa|exact Wb|].
    rewrite print_query. apply (R_paren_at _ _ 0); [lia|].
    apply R_tern; (eapply R_le; [|reflexivity|eassumption]); lia.
Qed.

Theorem print_parse_roundtrip e :
  wfv e -> normal e ->
  exists n0, forall n, (n0 <= n)%nat -> parse cp n (print (tree e)) = Ok (Some (tree e)).
Proof.
  intros W N. destruct (print_renders e W N) as (e' & W' & E & HR).
  rewrite <- E. apply rendering_parses; [|exact W'].
  apply (R_le _ _ 7); [lia|lia|]. rewrite E. exact HR.
Qed.

End Grammar.
