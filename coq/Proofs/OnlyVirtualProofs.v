(* a transaction none of whose postings has to balance: the scan meets nothing, the balance stays null and the
   transaction is accepted whatever its amounts are (xact.cc: `if (! post->must_balance()) continue;` in every loop of
   finalize, then `if (! balance.is_null()) { .. }` is not entered) *)
From LedgerV Require Import Base.Prelude Base.Round Model.Amount Model.Xact Proofs.AmountProofs Proofs.XactProofs.
Local Open Scope Z_scope.

Definition none_must_balance (ps : list post) : Prop := forall p, In p ps -> must_balance p = false.

Lemma scan_posts_none_must_balance ord : forall ps i bal nul,
  none_must_balance ps -> scan_posts ord ps i bal nul = Ok (bal, nul).
Proof.
  induction ps as [|p ps IH]; intros i bal nul H; cbn [scan_posts]; [reflexivity|].
  rewrite (H p (or_introl eq_refl)). cbn [negb]. apply IH. intros q Hq. apply H. right. exact Hq.
Qed.

Lemma only_virtual_accepted ord cp bucket ps :
  none_must_balance ps -> wf_costs ps -> ps <> [] -> all_have_amounts ps ->
  finalize ord cp bucket ps = Ok (Accepted ps).
Proof.
  intros Hv Hw Hne Ha.
  assert (Hs : scan_posts ord ps 0 VVoid None = Ok (VVoid, None)) by (apply scan_posts_none_must_balance; exact Hv).
  assert (Hnb : finalize ord cp None ps = Ok (Accepted ps)).
  { rewrite (finalize_no_null ord cp ps VVoid Hw Hne Ha Hs eq_refl). reflexivity. }
  destruct bucket as [b|]; [|exact Hnb].
  unfold finalize in *. rewrite Hs in *. cbn [bind] in *.
  destruct ps as [|p [|p2 ps']]; exact Hnb.
Qed.
