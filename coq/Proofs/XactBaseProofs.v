(* Proofs about Model/XactBase.v (finalize outside a dated xact_t; the wording of the two-nulls error) and the
   "sums to zero" reading of the null fill.  Used by Properties_C02.v. *)
From LedgerV Require Import Base.Prelude Base.Round Model.Amount Model.Xact Model.XactBase Gen.NullFill
  Proofs.AmountProofs Proofs.XactProofs Proofs.OrderProofs.
From Coq Require Import Qabs Permutation Lqa Setoid Sorting.Sorted.
Local Open Scope Q_scope.
Local Opaque Qred.

Definition dpost : post := mkPost [] PReal None None None false false false.

(* ------------------------------------------------------------ the dated xact_t case is Model/Xact.v *)
Lemma finalize_base_dated_xact ord cp b ps : finalize_base true true ord cp b ps = finalize ord cp b ps.
Proof. reflexivity. Qed.

(* ------------------------------------------------------------ where the scan finds the elided posting *)
Lemma scan_posts_null_index ord : forall ps k bal nul bal' i,
  scan_posts ord ps k bal nul = Ok (bal', Some i) ->
  match nul with
  | Some j => i = j
  | None => (k <= i)%nat /\ (i - k < length ps)%nat /\ is_null_post (nth (i - k) ps dpost) = true
  end.
Proof.
  induction ps as [|p ps IH]; intros k bal nul bal' i; cbn [scan_posts].
  - intros [= _ ->]. reflexivity.
  - assert (Hstep : forall b n, scan_posts ord ps (S k) b n = Ok (bal', Some i) -> n = nul ->
              match nul with
              | Some j => i = j
              | None => (k <= i)%nat /\ (i - k < length (p :: ps))%nat /\ is_null_post (nth (i - k) (p :: ps) dpost) = true
              end).
    { intros b n H ->. specialize (IH _ _ _ _ _ H). destruct nul; [exact IH|].
      destruct IH as [H1 [H2 H3]]. cbn [length].
      replace (i - k)%nat with (S (i - S k)) by lia. cbn [nth]. repeat split; try lia. exact H3. }
    destruct (must_balance p) eqn:Em; cbn [negb]; [|intros H; apply (Hstep _ _ H eq_refl)].
    destruct (balancing_amount p) as [a|] eqn:Eb.
    + destruct (add_or_set ord bal (unkeep a)) as [b1|]; cbn [bind]; [|discriminate].
      intros H; apply (Hstep _ _ H eq_refl).
    + destruct nul as [j|]; [discriminate|]. intros H. specialize (IH _ _ _ _ _ H). cbn in IH. subst i.
      replace (k - k)%nat with 0%nat by lia. cbn [nth length]. repeat split; try lia.
      unfold is_null_post. rewrite Em, Eb. reflexivity.
Qed.

(* ------------------------------------------------------------ the balancing sum of a completed transaction *)
Lemma bsum_app c : forall a b, bsum (a ++ b) c == bsum a c + bsum b c.
Proof.
  induction a as [|p a IH]; intros b; cbn [app bsum]; [ring|]. rewrite IH. ring.
Qed.

Lemma is_null_post_fields p : is_null_post p = true -> must_balance p = true /\ p_cost p = None /\ p_amt p = None.
Proof.
  unfold is_null_post, balancing_amount. destruct (must_balance p); [|discriminate].
  destruct (p_cost p); [discriminate|]. destruct (p_amt p); [discriminate|]. repeat split.
Qed.

Lemma bsum_set_null c x : forall ps i,
  (i < length ps)%nat -> is_null_post (nth i ps dpost) = true ->
  bsum (set_null ps i x) c == bsum ps c + at_comm x c.
Proof.
  induction ps as [|p ps IH]; intros i Hi Hn; cbn [length] in Hi; [lia|].
  destruct i as [|i]; cbn [set_null nth bsum] in *.
  - destruct (is_null_post_fields p Hn) as [Hm [Hc Ha]].
    unfold must_balance in *. cbn [p_kind]. unfold balancing_amount. cbn [p_cost p_amt]. rewrite Hc, Ha.
    destruct (p_kind p); try discriminate; ring.
  - rewrite (IH i) by (try lia; exact Hn). ring.
Qed.

Lemma bsum_generated c a k : forall rest,
  (match k with PVirtual => false | _ => true end) = true ->
  bsum (map (fun x => mkPost a k (Some (amt_neg x)) None None true true false) rest) c ==
  fold_right (fun x acc => at_comm (amt_neg x) c + acc) 0 rest.
Proof.
  intros rest Hk. induction rest as [|x rest IH]; cbn [map bsum fold_right]; [reflexivity|].
  rewrite IH. unfold must_balance, balancing_amount. cbn [p_kind p_cost p_amt]. rewrite Hk. ring.
Qed.

Lemma bsum_fill_null c ps i amts :
  (i < length ps)%nat -> is_null_post (nth i ps dpost) = true ->
  bsum (fill_null ps i amts) c == bsum ps c + fold_right (fun x acc => at_comm (amt_neg x) c + acc) 0 amts.
Proof.
  intros Hi Hn. destruct amts as [|a rest]; cbn [fill_null fold_right]; [ring|].
  rewrite bsum_app, (bsum_set_null c (amt_neg a) ps i Hi Hn).
  fold dpost. rewrite bsum_generated; [ring|].
  destruct (is_null_post_fields _ Hn) as [Hm _]. exact Hm.
Qed.

(* THE COMPLETED TRANSACTION SUMS TO ZERO: with the elided posting filled from the balance of the scan, the balancing
   postings (cost where there is one) sum to exactly zero in every commodity - no rounding anywhere *)
Theorem filled_sums_to_zero ord ps bal i amts c :
  scan_posts ord ps 0 VVoid None = Ok (bal, Some i) ->
  fill_amounts bal = Ok amts ->
  bsum (fill_null ps i amts) c == 0.
Proof.
  intros Hs Hf. pose proof (scan_posts_null_index ord _ _ _ _ _ _ Hs) as [_ [Hi Hn]].
  rewrite Nat.sub_0_r in Hi, Hn.
  rewrite (bsum_fill_null c ps i amts Hi Hn), (null_fill_amounts_are_the_sums ord ps bal i amts c Hs Hf). ring.
Qed.

(* the scan's balance can always be turned into amounts *)
Lemma fill_amounts_total ord ps bal nul :
  scan_posts ord ps 0 VVoid None = Ok (bal, nul) -> exists amts, fill_amounts bal = Ok amts.
Proof.
  intros Hs. destruct (scan_posts_nodup ord ps 0 VVoid None bal nul I I Hs) as [_ Hsv].
  destruct bal as [| b | z | a | b]; cbn [is_sum_value] in Hsv; try contradiction; cbn [fill_amounts].
  - eexists; reflexivity.
  - eexists; reflexivity.
  - destruct b as [|x [|y b]]; eexists; reflexivity.
Qed.

(* a dated transaction (Model/Xact.v) that is accepted with an elided amount sums to zero at cost basis *)
Theorem dated_null_fill_sums_to_zero ord cp ps bal i ps' c :
  wf_costs ps ->
  scan_posts ord ps 0 VVoid None = Ok (bal, Some i) ->
  finalize ord cp None ps = Ok (Accepted ps') ->
  bsum ps' c == 0.
Proof.
  intros Hw Hs Hfin. destruct (fill_amounts_total ord ps bal _ Hs) as [amts Hf].
  rewrite (null_fill ord cp ps bal i amts Hw Hs Hf) in Hfin. unfold completed in Hfin.
  destruct (forallb _ _); [discriminate|]. destruct (existsb _ _); [discriminate|].
  injection Hfin as <-. apply (filled_sums_to_zero ord ps bal i amts c Hs Hf).
Qed.

(* ------------------------------------------------------------ the generated postings *)
Theorem generated_postings_shape ps i a rest :
  skipn (length ps) (fill_null ps i (a :: rest)) =
  map (fun x => mkPost (p_acct (nth i ps dpost)) (p_kind (nth i ps dpost)) (Some (amt_neg x)) None None true true false) rest.
Proof.
  cbn [fill_null]. fold dpost. rewrite <- (set_null_length ps i (amt_neg a)) at 1.
  rewrite skipn_app, skipn_all, Nat.sub_diag. reflexivity.
Qed.

Theorem written_postings_prefix ps i a rest :
  firstn (length ps) (fill_null ps i (a :: rest)) = set_null ps i (amt_neg a).
Proof.
  cbn [fill_null]. rewrite <- (set_null_length ps i (amt_neg a)) at 1.
  rewrite firstn_app, firstn_all, Nat.sub_diag. cbn [firstn]. apply app_nil_r.
Qed.

Theorem fill_null_whole_shape ps i a rest :
  firstn (length ps) (fill_null ps i (a :: rest)) = set_null ps i (amt_neg a) /\
  skipn (length ps) (fill_null ps i (a :: rest)) =
  map (fun x => mkPost (p_acct (nth i ps dpost)) (p_kind (nth i ps dpost)) (Some (amt_neg x)) None None true true false) rest.
Proof. split; [apply written_postings_prefix | apply generated_postings_shape]. Qed.

Theorem scan_null_index_is_null_post ord ps bal i :
  scan_posts ord ps 0 VVoid None = Ok (bal, Some i) ->
  (i < length ps)%nat /\ is_null_post (nth i ps dpost) = true.
Proof.
  intros H. pose proof (scan_posts_null_index ord _ _ _ _ _ _ H) as [_ [H1 H2]].
  rewrite Nat.sub_0_r in H1, H2. split; assumption.
Qed.

(* several commodities left: the amounts handed out are the balance's entries, one each, strictly ascending in
   (base symbol, commodity key) *)
Theorem several_commodities_sorted_one_each b :
  distinct_keys b -> (2 <= length b)%nat ->
  exists amts, fill_amounts (VBal b) = Ok amts /\ Permutation b amts /\ StronglySorted key_lt amts.
Proof.
  intros Hd Hl. exists (sorted_amounts b). split; [|split].
  - destruct b as [|x [|y b]]; cbn [length] in Hl; try lia. reflexivity.
  - apply sorted_amounts_perm.
  - apply sorted_amounts_sorted. exact Hd.
Qed.

(* ------------------------------------------------------------ a periodic transaction *)
Theorem periodic_null_fill ord cp ps bal i amts :
  scan_posts ord ps 0 VVoid None = Ok (bal, Some i) ->
  fill_amounts bal = Ok amts ->
  finalize_periodic ord cp None ps = Ok (Accepted (fill_null ps i amts)).
Proof.
  intros Hs Hf. unfold finalize_periodic, src_period_xact_is_finalized, src_exchange_only_when_dated,
    src_null_check_only_for_xact. cbn [negb]. unfold finalize_base. rewrite Hs. cbn [bind].
  unfold finalize_rest_base. rewrite (infer_rate_id ord cp ps bal (Some i)) by (left; discriminate).
  cbn [bind fst snd]. rewrite Hf. cbn [bind v_is_zero negb]. reflexivity.
Qed.

(* ... is accepted whatever its costs are, and sums to zero *)
Theorem periodic_null_fill_sums_to_zero ord cp ps bal i :
  scan_posts ord ps 0 VVoid None = Ok (bal, Some i) ->
  exists ps', finalize_periodic ord cp None ps = Ok (Accepted ps') /\ forall c, bsum ps' c == 0.
Proof.
  intros Hs. destruct (fill_amounts_total ord ps bal _ Hs) as [amts Hf].
  exists (fill_null ps i amts). split; [apply (periodic_null_fill ord cp ps bal i amts Hs Hf)|].
  intros c. apply (filled_sums_to_zero ord ps bal i amts c Hs Hf).
Qed.

(* a one-posting periodic transaction under a bucket *)
Theorem periodic_single_posting_uses_bucket ord cp b p bal amts :
  scan_posts ord [p] 0 VVoid None = Ok (bal, None) -> bal <> VVoid ->
  fill_amounts bal = Ok amts ->
  finalize_periodic ord cp (Some b) [p] =
  Ok (Accepted (fill_null ([p] ++ [mkPost b PReal None None None false false false]) 1 amts)).
Proof.
  intros Hs Hne Hf. unfold finalize_periodic, src_period_xact_is_finalized, src_exchange_only_when_dated,
    src_null_check_only_for_xact. cbn [negb]. unfold finalize_base. rewrite Hs. cbn [bind].
  destruct bal; try contradiction; unfold finalize_rest_base;
    (rewrite infer_rate_id by (left; discriminate)); cbn [bind fst snd]; rewrite Hf; cbn [bind v_is_zero negb];
    reflexivity.
Qed.

(* without costs and lot prices nothing distinguishes the periodic transaction's balancing from the dated one's,
   as long as no amount stays null *)
Theorem periodic_agrees_with_dated_on_null_fill ord cp ps bal i amts :
  wf_costs ps ->
  scan_posts ord ps 0 VVoid None = Ok (bal, Some i) ->
  fill_amounts bal = Ok amts ->
  existsb (fun p => match p_amt p with None => true | Some _ => false end) (fill_null ps i amts) = false ->
  finalize_periodic ord cp None ps = finalize ord cp None ps.
Proof.
  intros Hw Hs Hf He. rewrite (periodic_null_fill ord cp ps bal i amts Hs Hf), (null_fill ord cp ps bal i amts Hw Hs Hf).
  unfold completed. rewrite He.
  destruct (forallb _ _) eqn:Ea; [|reflexivity].
  (* all null and none null: only the empty list *)
  destruct (fill_null ps i amts) as [|q qs] eqn:Eq; [|].
  - pose proof (scan_posts_null_index ord _ _ _ _ _ _ Hs) as [_ [Hi _]].
    assert (Hl : length (fill_null ps i amts) = 0%nat) by (rewrite Eq; reflexivity).
    destruct amts as [|a rest]; cbn [fill_null] in Hl.
    + destruct ps; cbn [length] in *; lia.
    + rewrite app_length, set_null_length in Hl. lia.
  - cbn [forallb existsb] in Ea, He. destruct (p_amt q); cbn in Ea, He; discriminate.
Qed.

(* ------------------------------------------------------------ the wording of the two-nulls error *)
Lemma null_accts_length ps : length (null_accts ps) = count_nulls ps.
Proof.
  unfold null_accts. rewrite map_length. induction ps as [|p ps IH]; cbn [filter count_nulls length]; [reflexivity|].
  unfold is_null_post at 1. destruct (must_balance p); cbn [andb].
  - destruct (balancing_amount p); cbn [length]; rewrite IH; reflexivity.
  - exact IH.
Qed.

Theorem two_nulls_error_worded ord cp bucket ps :
  (2 <= count_nulls ps)%nat ->
  finalize ord cp bucket ps = Err ETwoNulls /\ exists cls, two_null_error ps = Some cls.
Proof.
  intros H. split; [apply two_nulls_rejected; exact H|].
  rewrite <- null_accts_length in H. unfold two_null_error.
  destruct (null_accts ps) as [|a [|b l]]; cbn [length] in H; try lia. eexists; reflexivity.
Qed.

Theorem two_null_error_only_with_two_nulls ps cls :
  two_null_error ps = Some cls -> (2 <= count_nulls ps)%nat.
Proof.
  rewrite <- null_accts_length. unfold two_null_error.
  destruct (null_accts ps) as [|a [|b l]]; try discriminate. intros _. cbn [length]. lia.
Qed.

Theorem misspelt_names_an_elided_account ps n :
  two_null_error ps = Some (TwoNullsMisspelt n) -> In n (null_accts ps) /\ ends_special n = true.
Proof.
  unfold two_null_error. destruct (null_accts ps) as [|a [|b l]]; try discriminate.
  destruct (ends_special b) eqn:Eb.
  - intros [= <-]. split; [right; left; reflexivity | exact Eb].
  - destruct (ends_special a) eqn:Ea; [|discriminate]. intros [= <-]. split; [left; reflexivity | exact Ea].
Qed.

Theorem plain_wording_means_no_special_ending ps :
  two_null_error ps = Some TwoNullsPlain ->
  exists a b l, null_accts ps = a :: b :: l /\ ends_special a = false /\ ends_special b = false.
Proof.
  unfold two_null_error. destruct (null_accts ps) as [|a [|b l]]; try discriminate.
  destruct (ends_special b) eqn:Eb; [discriminate|]. destruct (ends_special a) eqn:Ea; [discriminate|].
  intros _. exists a, b, l. repeat split; assumption.
Qed.

(* the table read from account_ends_with_special_char: a digit, `)`, `}` or `]` as the last byte *)
Theorem ends_special_spec pre c :
  ends_special (pre ++ [c]) = (((48 <=? c) && (c <=? 57)) || (c =? 41) || (c =? 125) || (c =? 93))%Z.
Proof.
  unfold ends_special. rewrite rev_app_distr. cbn [rev app].
  unfold src_special_last_isdigit, src_special_last_bytes, is_digit_byte. cbn [andb existsb].
  rewrite orb_false_r, !orb_assoc. reflexivity.
Qed.
